"""C10 -- generated sources are self-contained (registry closure)."""
from __future__ import annotations

import ast
import re

from .. import calg, jmodel as J
from ..cskel import Skel, strip_comments
from ..pymodel import package
from ..ratemodel import model as ratemodel, SELF
from ..valueflow import Flow, lower, show, simp, split_guard, subst, walk

EXPLANATION = (
    "From the registration tables Reg(K) (ordered name/symbol/kind/value, extracted from the __init__ chains of the 6 reaction classes, 5 grain "
    "classes and ThermalProcess): R1 every self.symbols.N read in class G is registered by G; R2 every identifier in the literal text of a rate "
    "template or derived value is declared -- C math, a prototype of naunet_physics.h (with a definition), an extern of naunet_constants.h, a "
    "symbol registered by the same component class (literal group-0 spellings of {group}-parametrised symbols are undeclared for other groups), a "
    "symbol every reaction class registers, y/k, or IDX_/eb_ of a species of the reaction itself (a fixed IDX_<species> is undefined when that "
    "species is absent); R3 a derived value uses only symbols emitted before it (reactions, grains, thermal; registration order inside a class); "
    "R4 no symbol is registered with two different kinds by classes that can be co-present; R5 every template function that pastes rate/ODE/"
    "Jacobian expressions declares params, then deriveds, then the expressions, over a component list that contains the components those "
    "expressions may use, and NaunetData / constants come from the same enumerations; _collect_variable_items merges every component; R6 ODE "
    "modifier factors of the bundled examples use registered identifiers only; R7 a name some texts rely on is registered on every path through "
    "__init__; R10 a declaration loop declares every enumerated symbol -- no selecting filter / loop condition, and a pruning set handed over by "
    "the renderer is computed from the FINAL statement list (not before the rate_modifier overrides are written into it); R11 identifiers of the "
    "text the renderer itself writes around a rate (the temperature window `if (Tgas>=..)`) are registered by every reaction class, and -- the "
    "thermal functions declaring thermal symbols only -- are unreachable for every ThermalProcess (its window attributes are fixed to -1.0).")
ASSUMPTIONS = [
    "conformance to the SUNDIALS / Boost API is not decided",
    "identifiers inside user-supplied strings (KROME rate text, user modifiers) are out of scope",
    "a missing registry name raises AttributeError at generation time (no source is produced): reported as a note, not as an undeclared symbol",
]
ENGINES = ["pymodel", "valueflow", "calg", "ratemodel", "jmodel", "cskel"]

REACTION_CLASSES = ["Reaction", "KIDAReaction", "UMISTReaction", "KROMEReaction", "LEEDSReaction", "UCLCHEMReaction"]
GRAIN_CLASSES = ["Grain", "HH93Grain", "HH93IGrain", "RR07Grain", "RR07XGrain"]
CMATH = {"pow", "exp", "sqrt", "log", "log10", "fmin", "fmax", "fabs", "abs", "sin", "cos", "tanh", "min", "max", "floor", "ceil"}
PHYS_H = "naunet/templates/base/cpp/include/naunet_physics.h.j2"
PHYS_C = "naunet/templates/base/cpp/src/naunet_physics.cpp.j2"
CONST_H = "naunet/templates/base/cpp/include/naunet_constants.h.j2"
CONST_C = "naunet/templates/base/cpp/src/naunet_constants.cpp.j2"
DATA_H = "naunet/templates/base/cpp/include/naunet_data.h.j2"
UTIL = "naunet/utilities.py"


class Sym:
    def __init__(self, reg):
        self.reg = reg
        lw = lower(reg["symbol"]) if reg["symbol"] else None
        self.text = lw.text if lw else None
        self.param = bool(lw and lw.holes)          # {group}-parametrised
        self.base = re.sub(r"H\d+_", "", self.text) if self.text else None
        self.kind = reg["kind"]
        self.name = reg["name"][1]
        self.cls = reg["cls"]
        vlw = lower(reg["value"]) if reg["value"] is not None and reg["value"][0] in ("fstr", "const", "join") and \
            not (reg["value"][0] == "const" and not isinstance(reg["value"][1], str)) else None
        self.value_text = vlw.text if vlw else None
        self.value_holes = vlw.holes if vlw else {}
        self.value_seqs = vlw.seqs if vlw else {}


class Regs(dict):
    """{class: [Sym]} plus `names` {class: registry names, whether or not their triple is understood} and `opaque` {classes with a
    registration whose triple is not understood}: while `opaque` is non-empty "this identifier is declared nowhere" cannot be concluded"""

    def __init__(self):
        super().__init__()
        self.names, self.opaque = {}, set()
        self.header_text = ""          # the two headers every unit includes, as text (includes resolved)

    def judge(self, ctx, ok, rule, key, where, msg, **kw):
        # (a fixed IDX_<species> is undefined whatever is registered)
        m = re.match(r"`(\w+)` is not declared by any registry", msg) if not ok else None
        if not ok and self.opaque and "names a fixed species" not in msg:
            ctx.unrec(rule, key, where, f"{msg} -- but registrations of {sorted(self.opaque)} are not understood, so an undeclared identifier cannot be concluded")
        elif m and re.search(r"\b" + re.escape(m.group(1)) + r"\b", self.header_text):
            ctx.unrec(rule, key, where, f"{msg} -- but a header every unit includes mentions `{m.group(1)}` in a way that is not read as a declaration")
        else:
            ctx.check(ok, rule, key, where, msg, **kw)


def tables(rm, ctx=None):
    """{class: [Sym]} of the registrations whose (symbol, value, kind) triple is understood; one that is not (the triple comes out
    of a call the reconstruction cannot follow) is reported as UNRECOGNISED once and left out -- never guessed"""
    regs = Regs()
    for c in REACTION_CLASSES + GRAIN_CLASSES + ["ThermalProcess"]:
        regs[c] = []
        if c != "KROMEReaction" and any(r["op"] == "register" and (r["loops"] or r["name"][0] != "const") for r in rm.registry(c)):
            # a registration inside a loop that was not unrolled / under a computed name: the set of registered names is not known
            # (KROME registers the user's @var / @common names that way -- those are out of scope)
            regs.opaque.add(c)
        for r in rm.effective_registry(c).values():
            regs.names.setdefault(c, set()).add(r["name"][1])
            s = Sym(r)
            if s.text is None or not isinstance(s.kind, str):
                regs.opaque.add(c)
                if ctx is not None and r["cls"] == c:
                    ctx.unrec("R1", f"{c}.__init__:register({r['name'][1]!r}):triple", (r["file"], r["line"]),
                              "cannot read the (symbol, value, kind) triple of this registration: which C identifier it declares is unknown")
                continue
            regs[c].append(s)
    # a constructor that mentions `register` more often than registrations were read off it (the method bound to a local, handed to
    # map(), called inside a comprehension / lambda) registers names this table does not have
    from ..core import AnalysisError
    for c in REACTION_CLASSES + GRAIN_CLASSES + ["ThermalProcess"]:
        dc, fn = rm.pkg.resolve(c, "__init__")
        if fn is None or dc != c:
            continue
        try:
            fx = rm.pkg.expanded(dc, "__init__", keep=("register", "unregister"))
        except AnalysisError:
            fx = fn
        written = sum(1 for x in ast.walk(fx) if (isinstance(x, ast.Attribute) and x.attr == "register") or (isinstance(x, ast.Name) and x.id == "register"))
        direct = [x for x in ast.walk(fx) if isinstance(x, ast.Attribute) and x.attr == "_symbols" and isinstance(x.ctx, ast.Load)]
        read = sum(1 for r in rm.registry(c) if r["cls"] == dc and r["op"] == "register")
        # ... and so does one that hands the work to a helper which could not be put back in place (a method reached through self, a
        # function of the module) and which registers / runs the base constructor itself
        hidden = _hidden_registrations(rm.pkg, dc, fx)
        if hidden and not (written > read or direct):
            regs.opaque.add(c)
            if ctx is not None:
                ctx.unrec("R1", f"{c}.__init__:registrations", (rm.pkg.cls(c).file, fn.lineno), f"the constructor calls {hidden[0]}(), which registers symbols / runs the base constructor "
                          "and is not read in place: the names this class registers are not all known")
        if written > read or direct:
            regs.opaque.add(c)
            if ctx is not None:
                ctx.unrec("R1", f"{c}.__init__:registrations", (rm.pkg.cls(c).file, fn.lineno), f"the constructor mentions `register` {written} times" + (" and the symbol table itself" if direct else "") +
                          f" but only {read} registrations could be read off it: some names are registered in a way that is not understood")
    return regs


def _hidden_registrations(pkg, dc, fx) -> list:
    """names of the helpers the (expanded) constructor `fx` of class dc still CALLS -- methods through self / cls / the class name
    (MRO of dc), functions of the module by bare name, transitively -- whose own text registers / unregisters, touches the symbol
    table or uses super()"""
    file = pkg.cls(dc).file
    seen, todo, out = set(), [fx], []
    marks = lambda f: any((isinstance(n, ast.Attribute) and n.attr in ("register", "unregister", "_symbols")) or (isinstance(n, ast.Name) and n.id in ("super", "register", "unregister"))
                          for n in ast.walk(f))
    while todo and len(seen) < 80:
        f = todo.pop()
        for c in ast.walk(f):
            if not isinstance(c, ast.Call):
                continue
            callee = name = None
            if isinstance(c.func, ast.Attribute) and isinstance(c.func.value, ast.Name) and c.func.value.id in ("self", "cls", dc) and c.func.attr not in ("register", "unregister"):
                callee, name = pkg.resolve(dc, c.func.attr)[1], c.func.attr
            elif isinstance(c.func, ast.Name):
                callee, name = pkg.functions.get((file, c.func.id)), c.func.id
            if callee is not None and id(callee) not in seen:
                seen.add(id(callee))
                if marks(callee):
                    out.append(name)
                todo.append(callee)
    return out


def declared_everywhere(ctx):
    """C identifiers every generated unit sees: physics prototypes (with definitions) and constant externs."""
    tree = ctx.tree
    ctx.saw(PHYS_H), ctx.saw(CONST_H)
    # (from the template's TEXT items: what stands inside {% .. %} tags is not C)
    hitems = J.flatten(tree, PHYS_H, {})
    protos, conditional = set(), {}
    for it, stack in J.walk_items(hitems):
        if it[0] == "text":
            found = set(re.findall(r"\b(\w+)\s*\(", strip_comments(it[1]))) - {"if", "for", "while", "defined"}
            protos |= found
            # (tests about the network; a test on the configuration -- device, method -- selects a build, not a network)
            tests = [x[1] for x in stack if x[0] in ("if+", "if-") and "network" in J.names_of(x[1])]
            for p_ in found:
                if tests:
                    conditional.setdefault(p_, J.show(tests[-1]))
    declared_everywhere.conditional = {p_: t for p_, t in conditional.items()}
    sk = Skel(J.flatten(tree, PHYS_C, {}))
    defs = {f.name for f in sk.funcs}
    consts = set(re.findall(r"extern\s+\S+\s+double\s+(\w+)\s*;", J.text_of(J.flatten(tree, CONST_H, {}), lambda it: "SPEC")))
    ccode = J.text_of(J.flatten(tree, CONST_C, {}), lambda it: "SPEC")
    cdefs = set(re.findall(r"double\s+(\w+)\s*=", ccode))
    return protos, defs, consts, cdefs


def idents_of(text):
    """identifiers of a C text with holes; -> {name: uses} or raises CParseError."""
    return calg.idents(calg.parse(text))


def check(ctx):
    rm = ratemodel(ctx.tree)
    pkg = package(ctx.tree)
    regs = tables(rm, ctx)
    nreg = sum(len(v) for v in regs.values())
    ctx.stats["registered_symbols"] = nreg
    ctx.floor("R2", "registrations", nreg, 120)
    protos, defs, consts, cdefs = declared_everywhere(ctx)
    # (as written and with includes / macros resolved)
    phys_text = strip_comments(ctx.tree.read(PHYS_C)) + "\n" + strip_comments(J.text_of(J.flatten(ctx.tree, PHYS_C, {}), lambda it: "SPEC"))
    const_text = strip_comments(ctx.tree.read(CONST_C)) + "\n" + strip_comments(J.text_of(J.flatten(ctx.tree, CONST_C, {}), lambda it: "SPEC"))
    regs.header_text = strip_comments(J.text_of(J.flatten(ctx.tree, PHYS_H, {}), lambda it: "SPEC")) + "\n" + strip_comments(J.text_of(J.flatten(ctx.tree, CONST_H, {}), lambda it: "SPEC")) \
        + "\n" + strip_comments(ctx.tree.read(PHYS_H)) + "\n" + strip_comments(ctx.tree.read(CONST_H))
    # the declarations every unit sees, as far as they are read: fewer than the headers really hold means some are written in a way that
    # is not understood, and "declared nowhere" cannot be concluded
    plain_consts = [c for c in consts if "SPEC" not in c and "Table" not in c]
    ctx.floor("R2", "physics prototypes", len(protos), 17)
    ctx.floor("R2", "physical constants declared extern", len(plain_consts), 10)
    if len(protos) < 17:
        regs.opaque.add("naunet_physics.h")
    if len(plain_consts) < 10:
        regs.opaque.add("naunet_constants.h")
    for p in sorted(protos):
        # (the name written before a `(` somewhere in the .cpp but not recognised as a function definition: not understood, not missing)
        if p in defs or not re.search(r"\b" + re.escape(p) + r"\s*\(", phys_text):
            ctx.check(p in defs, "R2", f"physics prototype {p} has a definition", (PHYS_H, 0), f"{p} is declared in naunet_physics.h and defined in naunet_physics.cpp")
        else:
            ctx.unrec("R2", f"physics prototype {p} has a definition", (PHYS_C, 0), f"{p} occurs in naunet_physics.cpp but its definition is not recognised")
    for c in sorted(consts):
        if c == "eb_SPEC" or c.endswith("Table") or "Table" in c:
            continue
        if c in cdefs or not re.search(r"\b" + re.escape(c) + r"\b", const_text):
            ctx.check(c in cdefs, "R2", f"constant {c} has a definition", (CONST_H, 0), f"extern {c} is defined in naunet_constants.cpp")
        else:
            ctx.unrec("R2", f"constant {c} has a definition", (CONST_C, 0), f"{c} occurs in naunet_constants.cpp but its definition is not recognised")
    # a prototype under a `{% if <something about the network> %}` exists in some networks only: whoever registers a text that calls
    # it does so regardless of that test
    for p, test in sorted(getattr(declared_everywhere, "conditional", {}).items()):
        users = []
        for c2 in REACTION_CLASSES + GRAIN_CLASSES + ["ThermalProcess"]:
            for label, text, file, line in _texts_of_class(rm, pkg, c2, regs):
                if re.search(r"\b" + re.escape(p) + r"\s*\(", text):
                    users.append((f"{c2}: {label}", file, line))
        if users:
            ctx.bad("R2", f"physics prototype {p} declared for every network", (PHYS_H, 0), f"{p} is declared only `{{% if {test} %}}`, but {users[0][0]} ({users[0][1]}:{users[0][2]}) "
                    f"calls it whatever the network contains: undeclared function where the test fails", expected="an unconditional prototype and definition", found=f"{{% if {test} %}}")
        else:
            ctx.ok("R2", f"physics prototype {p} declared for every network", (PHYS_H, 0), "conditional, and no registered text calls it")
    universal = None
    for c in REACTION_CLASSES:
        s = {x.text for x in regs[c] if not x.param}
        universal = s if universal is None else universal & s
    ctx.stats["universal_symbols"] = sorted(universal)

    _r1(ctx, rm, pkg, regs)
    _r2(ctx, rm, pkg, regs, protos, consts, universal)
    _r3(ctx, regs, universal, protos, consts)
    _r4(ctx, regs)
    _r5(ctx, pkg)
    _r6(ctx, pkg, regs, protos, consts, universal)
    _r7(ctx, rm, pkg, regs)
    _r11(ctx, pkg, regs, protos, consts, universal)
    # the index macros the expressions use are the ones the header defines: IDX_<alias> per species and IDX_ELEM_<element key>
    # per element, the same spelling at definition and use (shared with C09.R4)
    from .c09 import _r4_defs as macro_definitions
    ctx.absorb(lambda sub: macro_definitions(sub, package(sub.tree)), "R8", only=lambda o: "definitions" in o.key and o.outcome != "MISSING")
    # the binding-energy constants eb_<alias> that the grain rate laws paste are declared for EVERY ice species of the network, not for a
    # selection of them (shared with C11.R6)
    from .c11 import _r6 as eb_constants
    ctx.absorb(eb_constants, "R9", only=lambda o: o.outcome != "MISSING")


# ------------------------------------------------------------------ R1

def _symbol_reads(fn, owner):
    """names N in `<owner>.symbols.N` inside a function."""
    out = []
    is_tab = lambda e: isinstance(e, ast.Attribute) and e.attr == "symbols" and isinstance(e.value, ast.Name) and e.value.id == owner
    # locals that stand for the symbol table (`sym = self.symbols`), bound once in the function
    stores = {}
    for n in ast.walk(fn):
        if isinstance(n, ast.Name) and isinstance(n.ctx, (ast.Store, ast.Del)):
            stores[n.id] = stores.get(n.id, 0) + 1
    alias = {st.targets[0].id for st in ast.walk(fn) if isinstance(st, ast.Assign) and len(st.targets) == 1 and isinstance(st.targets[0], ast.Name)
             and is_tab(st.value) and stores.get(st.targets[0].id) == 1}
    for n in ast.walk(fn):
        if isinstance(n, ast.Attribute) and isinstance(n.ctx, ast.Load) and (is_tab(n.value) or (isinstance(n.value, ast.Name) and n.value.id in alias)):
            out.append((n.attr, n.lineno))
    return out


def _r1(ctx, rm, pkg, regs):
    n = 0
    for cls in REACTION_CLASSES + GRAIN_CLASSES + ["ThermalProcess"]:
        ci = pkg.cls(cls)
        for mname, fn in ci.methods.items():
            for N, line in _symbol_reads(fn, "self"):
                n += 1
                # the method is inherited by subclasses: the name must be in their registries too
                users = [cls] + [c for c in pkg.subclasses(cls) if c in regs]
                missing = [u for u in users if N not in regs.names.get(u, ())]
                regs.judge(ctx, not missing, "R1", f"{cls}.{mname}:self.symbols.{N}", (ci.file, line),
                          f"`{N}` is registered by {cls}" + (" and its subclasses" if len(users) > 1 else "") if not missing else
                          f"`{N}` is read through self.symbols but not registered by {missing}")
    ctx.floor("R1", "self.symbols reads", n, 55)
    # reac.symbols.N inside grain methods: informational (generation-time AttributeError, not an undeclared C symbol)
    from ..core import AnalysisError
    try:
        feas = delegated_types(rm)
    except AnalysisError as e:
        # the code tables only feed the informational notes below
        ctx.note(f"generation-time refusals not enumerated: {e}")
        feas = {}
    gmeth = grain_methods(rm)
    notes = []
    for G in GRAIN_CLASSES:
        for tau, mname in gmeth.items():
            dc, fn = pkg.resolve(G, mname)
            if fn is None:
                continue
            chain = [fn]
            # helper methods called as self._rate_surface(reac)
            for c in ast.walk(fn):
                if isinstance(c, ast.Call) and isinstance(c.func, ast.Attribute) and isinstance(c.func.value, ast.Name) and c.func.value.id == "self" \
                        and c.func.attr.startswith("_rate"):
                    d2, f2 = pkg.resolve(G, c.func.attr)
                    if f2 is not None:
                        chain.append(f2)
            for f in chain:
                for N, line in _symbol_reads(f, "reac"):
                    for F, taus in feas.items():
                        if tau in taus and N not in regs.names.get(F, ()):
                            notes.append(f"{F} x {G}.{mname} (type {tau}): reac.symbols.{N} is not registered by {F} -> AttributeError at generation time")
    ctx.stats["generation_time_refusals"] = len(notes)
    for s in notes[:12]:
        ctx.note(s)


def delegated_types(rm):
    """{reaction class: set of ReactionType values handed to the grain model}"""
    from .c05 import REF, arms_for
    out = {}
    for F, (dvar, table_attr, refs) in REF.items():
        vs = rm.variants(F)
        vals = set()
        if table_attr:
            table = rm.code_table(F, table_attr)
            items = [(code, (table[code][1] if dvar == "reaction_type" else code), table[code][1]) for code in table]
        else:
            items = [(v, v, v) for v in rm.basic_types().values()]
        for code, dval, tval in items:
            if dval is None:
                continue
            arms = arms_for(rm, F, vs, dvar, dval)
            if arms and all(a.kind == "delegate" for a, _ in arms):
                vals.add(tval)
        if vals:
            out[F] = vals
    return out


def grain_methods(rm):
    """{ReactionType value: rate_* method name} from Grain.rateexpr's chain."""
    out = {}
    for v in rm.variants("Grain"):
        if v.kind == "delegate" and v.raw[0] == "meth" and v.raw[1] == SELF:
            # the dispatch test of this arm: the innermost positive `<type> == <member>` on its path (tests on the RESULT of the
            # builder -- `rate is NotImplemented` -- may follow it when the tail of the method was duplicated into the arms)
            for cond, pol in reversed(v.conds):
                if pol and cond[0] == "cmp" and cond[1] == ("Eq",) and len(cond[2]) == 2:
                    try:
                        tau = rm.enum_of_ir("Grain", cond[2][1])
                    except Exception:
                        tau = None
                    if tau is not None:
                        out[tau] = v.raw[2]
                        break
    return out


# ------------------------------------------------------------------ R2

def classify_ident(x, cls, regs, protos, consts, universal, own_species_holes=()):
    """-> (ok, reason)"""
    own = regs.get(cls, [])
    if x in CMATH or x in protos or x in consts:
        return True, "C math / physics prototype / constant"
    if re.fullmatch(r"H\d+_|SEQ\d+_", x):
        return True, "hole"
    if x in ("y", "k"):
        return True, "abundance / rate array"
    for s in own:
        if not s.param and s.text == x:
            return True, f"registered by {s.cls}"
    for s in own:
        if s.param and s.base == x:
            return False, f"`{x}` is the group-0 spelling of the group-parametrised symbol `{s.name}` ({s.reg['cls']} registers f\"{s.base}{{group}}\"): undeclared for a grain group other than 0"
    if re.fullmatch(r"[A-Za-z_]\w*H\d+_", x):
        b = re.sub(r"H\d+_$", "", x)
        if any(s.param and s.base == b for s in own):
            return True, "group-parametrised symbol written with its {group} hole"
        if b in ("IDX_", "eb_"):
            return True, "index / binding energy of the reaction's own species"
        if b.startswith("IDX_") or b.startswith("eb_"):
            return True, "index / binding energy of the reaction's own species"
    if re.fullmatch(r"H\d+_col", x):
        # <species name>col of a species tested against a literal list: the members must be registered column densities
        return True, "column density of the tested species"
    if x == "IDX_TGAS" and cls == "ThermalProcess":
        return True, "IDX_TGAS is defined whenever a thermal process exists"
    if x.startswith("IDX_"):
        return False, f"`{x}` names a fixed species: the macro is undefined in a network that does not contain that species"
    if cls not in REACTION_CLASSES and x in universal:
        return True, "registered by every reaction class (always co-present)"
    owners = sorted({c for c, lst in regs.items() for s in lst if not s.param and s.text == x})
    if owners:
        return False, f"`{x}` is registered only by {owners}, not by {cls}: undeclared when {cls} is combined with another format / without it"
    return False, f"`{x}` is not declared by any registry, header or the C library"


def _texts_of_class(rm, pkg, cls, regs):
    """[(label, text, file, line)] : rate templates and derived values written by `cls` itself (not inherited)."""
    out = []
    ci = pkg.cls(cls)
    for s in regs[cls]:
        if s.cls == cls and s.value_text is not None and s.kind in ("derived",):
            out.append((f"derived `{s.name}`", s.value_text, s.reg["file"], s.reg["line"]))
    from ..ratemodel import surface_helper
    meths = [m for m in ci.methods if m == "rateexpr" or m.startswith("rate_") or m == surface_helper(pkg)]
    if cls == "KROMEReaction":
        meths = []
    for m in meths:
        if cls in ("Grain",) and m == "rateexpr":
            continue
        for v in rm.variants(cls, m):
            if v.kind == "text" and v.defined_in == cls:
                out.append((f"{cls}.{m}", v.text, v.file, v.line))
    return out


_DATA_CALLS = {"str", "float", "int", "round", "abs", "len", "repr", "format", "max", "min"}
_STR_METHODS = {"lower", "upper", "strip", "lstrip", "rstrip", "replace", "capitalize", "title", "removeprefix", "removesuffix", "format", "get"}


def _getter_names(pkg, file):
    """module-level names bound to operator.attrgetter(..) / itemgetter(..): calling one reads data off its argument"""
    out = set()
    for st in pkg.modules[file].body if file in pkg.modules else []:
        if isinstance(st, ast.Assign) and len(st.targets) == 1 and isinstance(st.targets[0], ast.Name) and isinstance(st.value, ast.Call) \
                and ast.unparse(st.value.func).split(".")[-1] in ("attrgetter", "itemgetter"):
            out.add(st.targets[0].id)
    return out


def _opaque_holes(v, surface, getters=()):
    """holes of a rate template that paste TEXT produced by a call the reconstruction could not follow (a helper that was not
    inlined, a method of a record): whatever identifiers that text contains were not looked at.  Data holes -- attribute reads,
    `x or default`, subscripts, str()/float() of data, string methods of a name, the shared surface-rate helper (read on its own) -- are fine."""
    out = []
    for ir in list(v.holes.values()) + list(v.seqs.values()):
        for x in walk(ir):
            if not (isinstance(x, tuple) and x):
                continue
            if x[0] == "unknown":
                out.append(x)
            elif x[0] == "call" and len(x) == 4 and not (x[1][0] == "global" and (x[1][1] in _DATA_CALLS or x[1][1] in getters)):
                out.append(x)
            elif x[0] == "meth" and len(x) == 5 and not (x[2] in _STR_METHODS or (x[1] == SELF and x[2] == surface)):
                out.append(x)
    return out


def _r2(ctx, rm, pkg, regs, protos, consts, universal):
    n = 0
    seen = set()
    from ..ratemodel import surface_helper
    surface = surface_helper(pkg)
    for cls in REACTION_CLASSES + GRAIN_CLASSES + ["ThermalProcess"]:
        if cls != "KROMEReaction" and cls != "ThermalProcess":
            for m in [m for m in pkg.cls(cls).methods if (m == "rateexpr" and cls != "Grain") or m.startswith("rate_") or m == surface]:
                for v in rm.variants(cls, m):
                    if v.defined_in != cls:
                        continue
                    if v.kind == "text":
                        for x in _opaque_holes(v, surface, _getter_names(pkg, v.file))[:1]:
                            ctx.unrec("R2", f"{cls}.{m}:pasted text", (v.file, v.line), f"the rate expression pastes text computed by `{show(x)[:80]}`, which the reconstruction "
                                      "could not follow: the identifiers in that text are not checked")
                    elif v.kind not in ("raise", "notimplemented", "delegate"):
                        ctx.unrec("R2", f"{cls}.{m}:rate text", (v.file, v.line), f"a value returned as rate expression is not understood ({v.kind}): {show(v.raw)[:100] if isinstance(v.raw, tuple) else v.raw}")
        for label, text, file, line in _texts_of_class(rm, pkg, cls, regs):
            try:
                ids = idents_of(text)
            except calg.CParseError:
                # conditional expressions `a >= b ? (x) : 0.0` nest: parse pieces leniently
                ids = {w: {"var"} for w in re.findall(r"[A-Za-z_]\w*", text)}
            for x in sorted(ids):
                if (cls, label, x) in seen:
                    continue
                seen.add((cls, label, x))
                n += 1
                ok, why = classify_ident(x, cls, regs, protos, consts, universal)
                regs.judge(ctx, ok, "R2", f"{label}:{x}", (file, line), why if not ok else f"`{x}`: {why}", found=text[:120] if not ok else None)
    # thermal process instances
    tp = "naunet/thermalprocess.py"
    ctx.saw(tp)
    for node in pkg.modules[tp].body:
        if isinstance(node, ast.Assign) and isinstance(node.value, ast.Call) and ast.unparse(node.value.func) == "ThermalProcess" and len(node.value.args) == 2 \
                and isinstance(node.value.args[1], ast.Constant):
            text = node.value.args[1].value
            try:
                ids = idents_of(text)
            except calg.CParseError:
                # (the small C parser does not read it: the identifiers are still the words of the text)
                ids = {w: {"var"} for w in re.findall(r"[A-Za-z_]\w*", text)}
            for x in sorted(ids):
                n += 1
                ok, why = classify_ident(x, "ThermalProcess", regs, protos, consts, universal)
                regs.judge(ctx, ok, "R2", f"{node.targets[0].id}:{x}", (tp, node.lineno), why, found=text[:100] if not ok else None)
    ctx.floor("R2", "identifier uses", n, 250)


# ------------------------------------------------------------------ R3

def _r3(ctx, regs, universal, protos, consts):
    n = 0
    for cls, lst in regs.items():
        before = set()
        # params of a class are all emitted before any derived (templates: params loop, then deriveds loop)
        params = {s.text for s in lst if s.kind in ("param", "constant")} | {s.base for s in lst if s.kind in ("param", "constant") and s.param}
        for s in lst:
            if s.kind == "derived" and s.value_text is not None:
                n += 1
                try:
                    ids = set(idents_of(s.value_text))
                except calg.CParseError:
                    ids = set(re.findall(r"[A-Za-z_]\w*", s.value_text))
                own_derived = {d.text for d in lst if d.kind == "derived"} | {d.base for d in lst if d.kind == "derived" and d.param}
                used_later = [x for x in ids if (x in own_derived or re.sub(r"H\d+_$", "", x) in own_derived)
                              and x not in before and re.sub(r"H\d+_$", "", x) not in before and x not in params]
                ctx.check(not used_later, "R3", f"{cls}:derived `{s.name}` order", (s.reg["file"], s.reg["line"]),
                          "uses only parameters and earlier derived quantities" if not used_later else
                          f"uses {used_later} which the same class registers only later (emitted after this line)", found=s.value_text[:100] if used_later else None)
            if s.kind == "derived":
                before.add(s.text)
                if s.param:
                    before.add(s.base)
    # cross-component order: reactions -> grains -> thermal; a reaction-class derived must not use a grain/thermal symbol
    later = {}
    for g in GRAIN_CLASSES + ["ThermalProcess"]:
        for s in regs[g]:
            later.setdefault(s.base if s.param else s.text, set()).add(g)
    for cls in REACTION_CLASSES:
        own = {s.text for s in regs[cls]}
        for s in regs[cls]:
            if s.kind == "derived" and s.value_text:
                try:
                    ids = set(idents_of(s.value_text))
                except calg.CParseError:
                    ids = set()
                bad = [x for x in ids if x in later and x not in own and x not in universal]
                ctx.check(not bad, "R3", f"{cls}:derived `{s.name}` component order", (s.reg["file"], s.reg["line"]),
                          "does not depend on symbols of components emitted later (grains, thermal)" if not bad else f"uses {bad}, declared only after the reaction block")
    ctx.floor("R3", "derived values", n, 40)


# ------------------------------------------------------------------ R4

def _r4(ctx, regs):
    by = {}
    for cls, lst in regs.items():
        for s in lst:
            key = s.base if s.param else s.text
            by.setdefault(key, {}).setdefault(("value" if s.kind == "derived" else s.kind), set()).add(cls)
    n = 0
    for sym, kinds in sorted(by.items()):
        n += 1
        if len(kinds) > 1:
            # same class family overriding itself (force_overwrite) is one component; different components clash
            groups = [sorted(v) for v in kinds.values()]
            fam = lambda c: "reaction" if c in REACTION_CLASSES else ("grain" if c in GRAIN_CLASSES else "thermal")
            co = True
            allc = [c for g in groups for c in g]
            if {fam(c) for c in allc} == {"grain"}:
                co = False      # one grain model per group: alternatives, not co-present
            ctx.check(not co, "R4", f"symbol `{sym}` kinds", ("naunet", 0),
                      f"`{sym}` is registered as {', '.join(f'{k} by {sorted(v)}' for k, v in kinds.items())}: "
                      + ("alternative grain models, never co-present" if not co else "co-present components would emit two different declarations"))
        else:
            ctx.ok("R4", f"symbol `{sym}` kinds", ("naunet", 0), "one kind")
    ctx.floor("R4", "distinct symbols", n, 65)


# ------------------------------------------------------------------ R5

RC = ("bin", "+", ("attr", ("name", "network"), "reactions"), ("attr", ("name", "network"), "grains"))
RCHC = ("bin", "+", ("bin", "+", RC, ("attr", ("name", "network"), "heating")), ("attr", ("name", "network"), "cooling"))
SITES = [
    ("cvode", "naunet/templates/cvode/src/naunet_rates.cpp.j2", ["dense", "cusparse"], {"EvalRates": (RC, "ode.rateeqns"),
                                                                                      "EvalHeatingRates": (("attr", ("name", "network"), "heating"), "ode.hrateeqns"),
                                                                                      "EvalCoolingRates": (("attr", ("name", "network"), "cooling"), "ode.crateeqns")}),
    ("cvode", "naunet/templates/cvode/src/naunet_fex.cpp.j2", ["dense", "sparse"], {"Fex": (RCHC, "ode.fex")}),
    ("cvode", "naunet/templates/cvode/src/naunet_fex.cpp.j2", ["cusparse"], {"FexKernel": (RCHC, "ode.fex")}),
    ("cvode", "naunet/templates/cvode/src/naunet_jac.cpp.j2", ["dense"], {"Jac": (RCHC, "ode.jac.rhs")}),
    ("cvode", "naunet/templates/cvode/src/naunet_jac.cpp.j2", ["sparse"], {"Jac": (RCHC, "ode.jac.vals")}),
    ("cvode", "naunet/templates/cvode/src/naunet_jac.cpp.j2", ["cusparse"], {"JacKernel": (RCHC, "ode.jac.vals")}),
    ("odeint", "naunet/templates/odeint/src/naunet_ode.cpp.j2", ["rosenbrock4"], {"EvalRates": (RC, "ode.rateeqns"),
                                                                                 "EvalHeatingRates": (("attr", ("name", "network"), "heating"), "ode.hrateeqns"),
                                                                                 "EvalCoolingRates": (("attr", ("name", "network"), "cooling"), "ode.crateeqns"),
                                                                                 "Fex::operator()": (RCHC, "ode.fex"), "Jac::operator()": (RCHC, "ode.jac.rhs")}),
]


def _resolved(order, at, e):
    """`e` with a template variable replaced by the value of the closest `{% set %}` (a `{% with %}` binding, a macro parameter)
    that precedes item `at` in document order (`order`: the items in document order); a value that is itself a name is resolved
    from where it was bound (`{{ helper(components) }}` binds the parameter `components` to the caller's `components`); a name that is
    never set stays a name."""
    idx = next((i for i, it in enumerate(order) if it is at), len(order))

    def binding(name, before):
        """index of the closest set of `name` before position `before` that is in scope there: the items of a macro expansion that
        has ended (jmodel brackets one by ("other", "macro-begin:n") / ("other", "macro-end:n")) are skipped as a whole"""
        i = before - 1
        while i >= 0:
            it = order[i]
            if it[0] == "other" and isinstance(it[1], str) and it[1].startswith("macro-end:"):
                tag = "macro-begin:" + it[1].split(":", 1)[1]
                while i >= 0 and not (order[i][0] == "other" and order[i][1] == tag):
                    i -= 1
            elif it[0] == "set" and it[1] == name:
                return i
            i -= 1
        return None
    for _ in range(8):
        if e is None or e[0] != "name":
            break
        j = binding(e, idx)
        if j is None:
            break
        e, idx = order[j][2], j
    return e


def _source(order, at, e):
    """the sequence a loop iterates, by origin: filters stripped and `{% set %}` names followed until neither applies
    -> (base expression, [filters, innermost first])"""
    fs = []
    for _ in range(8):
        e, f = J.unfilter(e)
        fs = f + fs
        r = _resolved(order, at, e)
        if r == e:
            break
        e = r
    return e, fs


def _terms(e):
    """[`network.<attr>`, ..] of a component list written as a sum of attributes of `network`, else None"""
    if e is None:
        return None
    if e[0] == "bin" and e[1] == "+":
        a, b = _terms(e[2]), _terms(e[3])
        return None if a is None or b is None else a + b
    if e[0] == "attr" and e[1] == ("name", "network") and isinstance(e[2], str):
        return [e[2]]
    return None


def _covers(ctx, key, where, what, comps, complist):
    """the component list `comps` a declaration loop enumerates against the list `complist` the expressions need.  VIOLATION only
    when the list is UNDERSTOOD (a sum of network.<attr>) and lacks a needed component; the needed components in their order, with
    further ones in between, still declare everything; anything else is not understood."""
    need, got = _terms(complist), _terms(comps)
    if comps == complist:
        ctx.ok("R5", key, where, f"the {what} covers {J.show(complist)}")
    elif got is None:
        ctx.unrec("R5", key, where, f"cannot tell which components the {what} enumerates: {J.show(comps) if comps else 'unset'}")
    elif [x for x in need if x not in got]:
        ctx.bad("R5", key, where, f"the {what} covers {J.show(complist)}", expected=J.show(complist), found=J.show(comps))
    elif [x for x in got if x in need] == need:
        ctx.ok("R5", key, where, f"the {what} covers {J.show(complist)} (and more)")
    elif "grains" in got and "reactions" in got and got.index("grains") < got.index("reactions"):
        # the derived quantities of the grain models are written in terms of the reactions' symbols (R3: reactions, then grains)
        ctx.bad("R5", key, where, f"the {what} enumerates the grains before the reactions (grain quantities use the reactions' symbols)", expected=J.show(complist), found=J.show(comps))
    else:
        ctx.unrec("R5", key, where, f"the {what} enumerates the components in another order: {J.show(comps)}")


def _first_last(e):
    """`pair | first` / `pair | last` of a (key, value) pair are its items 0 / 1"""
    if not isinstance(e, tuple):
        return e
    e = tuple(_first_last(x) if isinstance(x, tuple) else x for x in e)
    if len(e) == 5 and e[0] == "filter" and e[1] in ("first", "last") and not e[3] and not e[4]:
        return ("item", e[2], ("const", 0 if e[1] == "first" else 1))
    return e


_SELECTING = {"select", "reject", "selectattr", "rejectattr", "slice", "batch", "first", "last", "random"}
_KEEPING = {"list", "unique"}        # (the enumeration has one item per symbol already)


def _r10_pruned(ctx, pkg, key, where, after, test, exprs):
    """R10 -- a declaration loop declares EVERY item collect_variable_items enumerates, or prunes them by a set of used symbols that
    was computed from the FINAL statements the same function pastes.  `after`: the filters applied to the enumeration, `test`: the
    loop's own `if`.  Positive evidence: a built-in selecting filter / loop condition (declarations are dropped whatever the
    expressions use); a pruning set taken from the statement list BEFORE the renderer's last writes into that list."""
    rule, key = "R10", f"{key}:every declaration"
    after = [f for f in after if f[0] not in _KEEPING]
    if not after and test is None:
        ctx.ok(rule, key, where, "every enumerated symbol is declared")
        return
    sel = [f[0] for f in after if f[0] in _SELECTING]
    if sel or test is not None:
        ctx.bad(rule, key, where, "every enumerated symbol is declared", expected="the unfiltered enumeration",
                found=("filters " + ", ".join(sel)) if sel else f"loop condition `{J.show(test)}`")
        return
    # a filter of the package's own: which `ode.<field>` does it receive, and when was that field computed?
    fields = [a[2] for f in after for a in list(f[1]) + [v for _, v in f[2]] if a[0] == "attr" and a[1] == ("name", "ode")]
    names = ", ".join(f[0] for f in after)
    if len(fields) != 1 or "." not in exprs:
        ctx.unrec(rule, key, where, f"the enumeration of the declarations goes through `{names}`: cannot tell whether a declaration is dropped")
        return
    from ..odemodel import model as odemodel
    from .c02 import dataclass_fields, _bind_args
    fl = odemodel(ctx.tree).flow
    call = None
    for f in fl.facts:
        if f.kind == "return" and f.value is not None:
            v = f.value
            if v[0] == "meth" and v[2] == "ODEContent":
                call = (("call", None, v[3], v[4]), f.seq)
            elif v[0] == "call" and ((v[1][0] == "attr" and v[1][2] == "ODEContent") or v[1] == ("global", "ODEContent")):
                call = (v, f.seq)
    args = _bind_args(dataclass_fields(pkg, "TemplateLoader.ODEContent"), call[0]) if call else {}
    dep, stm = args.get(fields[0]), args.get(exprs.split(".", 1)[1])
    if dep is None or stm is None or simp(stm)[0] != "acc":
        ctx.unrec(rule, key, where, f"the declarations are pruned by `{names}(ode.{fields[0]})`: cannot trace that set / the pasted statements in _prepare_ode_content")
        return
    X = simp(stm)[1]
    inits = [simp(f.value) for f in fl.facts if f.kind == "init" and f.target == X and f.value is not None]
    dep = simp(dep)
    reads = lambda v: any(x == ("acc", X) or x in inits for x in walk(v))
    # when was the set computed?  at the local assignment that holds it, else where the ODEContent is built
    binds = [(sq, ln) for nm, lst in fl.assigns.items() for val, loops, guards, ln, sq in lst if simp(val) == dep]
    if not reads(dep):
        ctx.unrec(rule, key, where, f"the declarations are pruned by `{names}(ode.{fields[0]})`, a set that is not visibly computed from the statements pasted here ({show(dep)[:80]})")
        return
    at = min(binds)[0] if binds else call[1]
    later = [f for f in fl.facts if f.target == X and f.kind in ("store", "augstore", "append", "mutate", "remove") and f.seq > at]
    if later:
        ctx.bad(rule, key, where, f"the declarations are pruned by `{names}(ode.{fields[0]})`, computed" + (f" at line {min(binds)[1]}" if binds else "") +
                f" from `{X}` BEFORE the statement list receives its final entries (line {later[0].line}: {show(simp(later[0].value))[:60] if later[0].value else later[0].kind}): "
                "a symbol used only by such an entry is pasted but not declared", expected=f"the set computed from the final `{X}`", found=show(dep)[:100])
    else:
        ctx.unrec(rule, key, where, f"the declarations are pruned by `{names}(ode.{fields[0]})` computed from the final statements: whether the pruning keeps every used symbol is not decided")


def _r5(ctx, pkg):
    n = 0
    for solver, rel, methods, funcs in SITES:
        ctx.saw(rel)
        for mth in methods:
            items = J.flatten(ctx.tree, rel, {"general.method": mth, "general.device": "gpu" if mth == "cusparse" else "cpu"})
            sk = Skel(items)
            for fname, (complist, exprs) in funcs.items():
                key = f"{solver}/{mth}:{rel.split('/')[-1]}:{fname}"
                its = sk.items_in(fname)
                if not its:
                    ctx.missing("R5", key, (rel, 0), f"function {fname} not found")
                    continue
                n += 1
                seq = []      # (kind, components, offset)
                for it, off in its:
                    if it[0] == "for":
                        base, fs = _source(sk.marks, it, it[2])
                        cv = [f for f in fs if f[0] == "collect_variable_items"]
                        if cv and cv[0][1] and cv[0][1][0][0] == "const":
                            # the component list by ROLE: whatever is piped into collect_variable_items, `{% set %}` names resolved
                            seq.append((cv[0][1][0][1], base, off, it))
                            _r10_pruned(ctx, pkg, f"{key}:{cv[0][1][0][1]}", (rel, it[5]), fs[fs.index(cv[0]) + 1:], it[7], exprs)
                        elif J.path(base) == exprs:
                            seq.append(("exprs", None, off, it))
                kinds = [s[0] for s in seq]
                where = (rel, seq[0][3][5] if seq else 0)
                if kinds == ["params", "deriveds", "exprs"]:
                    ctx.ok("R5", f"{key}:order", where, "parameters are declared, then derived quantities, then the expressions that use them")
                elif sorted(kinds) == ["deriveds", "exprs", "params"]:
                    # the three loops are all there and recognised, in a wrong order
                    ctx.bad("R5", f"{key}:order", where, "parameters are declared, then derived quantities, then the expressions that use them",
                            expected="params, deriveds, exprs", found=str(kinds))
                else:
                    ctx.unrec("R5", f"{key}:order", where, "cannot find exactly one params loop, one deriveds loop and one loop pasting "
                              f"{exprs} in this function (found {kinds}): the declarations / expressions are emitted in a way that is not understood")
                for kind, comps, off, it in seq:
                    if kind in ("params", "deriveds"):
                        _covers(ctx, f"{key}:{kind}-components", (rel, it[5]), f"{kind} loop", comps, complist)
                        # body: `realtype key = u_data->key;` / `realtype key = value;`
                        tv = it[1]
                        # (key, value) of the enumeration: the two loop targets, or item 0 / 1 of a single target
                        if tv[0] in ("tuple", "list") and len(tv[1]) == 2:
                            kx, vx = {tv[1][0]}, {tv[1][1]}
                        else:
                            kx, vx = {("item", tv, ("const", 0))}, {("item", tv, ("const", 1))}
                        # what one iteration prints, however it is assembled (text + outputs, `~`, format, set names, macro parameters)
                        pieces = J.squeeze(J.printed(ctx.tree, list(it[3]), {}))
                        outs = [_first_last(x[1]) for x in pieces if x[0] == "val"]
                        txt = "".join(x[1] if x[0] == "lit" else "" for x in pieces)
                        shape = len(outs) == 2 and all(x[0] in ("lit", "val") for x in pieces) and \
                            re.fullmatch(r"(realtype|double)\s*=\s*\w+->\s*;" if kind == "params" else r"(realtype|double)\s*=\s*;", txt.strip()) is not None
                        if kind == "params":
                            good = shape and outs[0] == outs[1] and outs[0] in kx
                        else:
                            good = shape and outs[0] in kx and outs[1] in vx
                        dkey = f"{key}:{kind}-declaration"
                        dmsg = "each symbol is declared once as a local of this function from the enumeration's own key" + ("" if kind == "params" else " and value")
                        # wrong = the declaration is understood and pairs the wrong parts of the enumeration's items
                        own = kx | vx
                        if good:
                            ctx.ok("R5", dkey, (rel, it[5]), dmsg)
                        elif shape and all(o in own for o in outs):
                            ctx.bad("R5", dkey, (rel, it[5]), dmsg, found=f"{[J.show(o) for o in outs]} in {txt.strip()[:60]!r}")
                        else:
                            ctx.unrec("R5", dkey, (rel, it[5]), f"the body of the {kind} loop is not one declaration `type <key> = ...;`: {[J.show(o) for o in outs]} in {txt.strip()[:60]!r}")
    ctx.floor("R5", "expression-pasting functions", n, 14)
    # NaunetData fields and constants from the same enumerations
    for rel, kind, pat in ((DATA_H, "params", r"double"), (CONST_H, "constants", r"extern"), (CONST_C, "constants", r"double")):
        ctx.saw(rel)
        items = J.flatten(ctx.tree, rel, {})
        order = [it for it, st in J.walk_items(items)]
        hit = False
        for it in order:
            if it[0] == "for":
                cur, fs = _source(order, it, it[2])
                cv = [f for f in fs if f[0] == "collect_variable_items"]
                if cv and cv[0][1] and cv[0][1][0] == ("const", kind):
                    hit = True
                    _covers(ctx, f"{rel.split('/')[-1]}:{kind}-components", (rel, it[5]), f"enumeration of the {kind}", cur, RCHC)
        if not hit:
            ctx.missing("R5", f"{rel.split('/')[-1]}:{kind}", (rel, 0), f"no collect_variable_items('{kind}') loop found")
    # _collect_variable_items visits every component
    _collect_rule(ctx, pkg)
    # Component.params/deriveds/constants filter by the right kind
    comp = pkg.cls("Component")
    CF = "naunet/component.py"
    # module-level `NAME = attrgetter("a", "b")` bound once: NAME(x) is (x.a, x.b)
    getters, count = {}, {}
    for nd in ast.walk(pkg.modules[CF]):
        if isinstance(nd, ast.Name) and isinstance(nd.ctx, (ast.Store, ast.Del)):
            count[nd.id] = count.get(nd.id, 0) + 1
    for st_ in pkg.modules[CF].body:
        if isinstance(st_, ast.Assign) and len(st_.targets) == 1 and isinstance(st_.targets[0], ast.Name) and count.get(st_.targets[0].id) == 1 \
                and isinstance(st_.value, ast.Call) and ast.unparse(st_.value.func) in ("attrgetter", "operator.attrgetter") and st_.value.args and not st_.value.keywords \
                and all(isinstance(a, ast.Constant) and isinstance(a.value, str) and a.value.isidentifier() for a in st_.value.args):
            getters[st_.targets[0].id] = tuple(a.value for a in st_.value.args)

    def got(x):
        """applications of those getters written out"""
        if not isinstance(x, tuple):
            return x
        x = tuple(got(y) if isinstance(y, tuple) else y for y in x)
        if len(x) == 4 and x[0] == "call" and x[1][0] == "global" and x[1][1] in getters and len(x[2]) == 1 and not x[3]:
            names = getters[x[1][1]]
            return ("attr", x[2][0], names[0]) if len(names) == 1 else ("tuple", tuple(("attr", x[2][0], nm) for nm in names))
        return x
    for prop, kind in (("params", "param"), ("deriveds", "derived"), ("constants", "constant")):
        f = comp.methods.get(prop)
        if f is None:
            ctx.missing("R5", f"Component.{prop}", (CF, 0), "property vanished")
            continue
        good, wrong, seen_ = False, [], []

        def _res(name, _pkg=pkg):
            _, g_ = _pkg.resolve("Component", name)
            return g_ if name.startswith("_") and not name.startswith("__") else None
        # (a private module-level helper called by its bare name -- `_variables_of_type(self._symbols, VariableType.param)` -- is read as what it returns)
        pflow = Flow(f, CF, resolver=_res, func_resolver=lambda name, _pkg=pkg: _pkg.functions.get((CF, name)) if name.startswith("_") else None)
        for rf in pflow.facts:
            if rf.kind == "return" and rf.value:
                v = got(simp(rf.value))
                if v[0] == "acc":
                    # the mapping filled by an explicit loop (`out[sym.symbol] = sym.value` under `if sym.type == ..`, or after
                    # `if sym.type != ..: continue`): the same pairs, conditions and source as the comprehension it spells out
                    stores_ = [sf for sf in pflow.facts if sf.kind == "store" and sf.target == v[1] and sf.index is not None and sf.value is not None]
                    atoms = [sg for sf in stores_ for gd in sf.guards for sg in split_guard(gd)]
                    if stores_ and all(pol for _, pol in atoms) and not [bf for bf in pflow.facts if bf.kind == "break"]:
                        v = ("tuple", tuple(("tuple", (got(simp(sf.index)), got(simp(sf.value)))) for sf in stores_) + tuple(got(simp(c_)) for c_, _ in atoms)
                             + tuple(got(simp(lp_.iter)) for sf in stores_ for lp_ in sf.loops))
                seen_.append(show(v)[:140])
                # whatever the nesting / spelling (comprehension over .items() or .values(), a filtering helper, dict(),
                # OrderedDict(), a folded loop, map/filter, attrgetter): pairs (x.symbol, x.value), one filter x.type == VariableType.<kind>,
                # drawn from self._symbols
                pairs = [x for x in walk(v) if isinstance(x, tuple) and len(x) == 2 and x[0] == "tuple" and len(x[1]) == 2
                         and x[1][0][0] == "attr" and x[1][0][2] == "symbol" and x[1][1][0] == "attr" and x[1][1][2] == "value" and x[1][0][1] == x[1][1][1]]
                tests = [x for x in walk(v) if isinstance(x, tuple) and len(x) == 3 and x[0] == "cmp"]
                type_tests = [x for x in tests if x[1] in (("Eq",), ("Is",)) and x[2][0][0] == "attr" and x[2][0][2] == "type" and x[2][1][0] == "attr" and x[2][1][1] == ("global", "VariableType")]
                kind_tests = [x for x in type_tests if x[2][1][2] == kind]
                src = any(isinstance(x, tuple) and len(x) == 5 and x[0] == "meth" and x[1] == ("attr", SELF, "_symbols") and x[2] in ("items", "values") for x in walk(v))
                good = len(pairs) >= 1 and len(kind_tests) >= 1 and len(tests) == len(kind_tests) and src
                # understood and wrong: the selection tests the variable's type against ANOTHER kind, or has a second condition
                if pairs and src and type_tests and len(type_tests) != len(kind_tests):
                    wrong.append(f"selects the variables of kind {sorted({x[2][1][2] for x in type_tests} - {kind})}")
                elif pairs and src and kind_tests and len(tests) > len(kind_tests):
                    wrong.append("the selection has a further condition: " + "; ".join(show(x)[:60] for x in tests if x not in kind_tests))
                elif pairs and src and not tests:
                    wrong.append("no selection by the variable's type")
                # the pairs come from a second, per-kind table `self.T[VariableType.<kind>]` kept next to the registry
                idx = [x for x in walk(v) if isinstance(x, tuple) and len(x) == 3 and x[0] == "sub" and x[1][0] == "attr" and x[1][1] == SELF and x[1][2] != "_symbols"
                       and x[2][0] == "attr" and x[2][1] == ("global", "VariableType")]
                if pairs and not src and not tests and len(idx) == 1:
                    T, used = idx[0][1][2], idx[0][2][2]
                    if used != kind:
                        wrong.append(f"reads the `{used}` entries of self.{T}")
                    else:
                        why = _stale_index(pkg, T)
                        if why:
                            wrong.append(why)
        msg = f"Component.{prop} maps symbol -> value for the symbols of kind `{kind}`"
        if good:
            ctx.ok("R5", f"Component.{prop}", (CF, f.lineno), msg)
        elif wrong:
            ctx.bad("R5", f"Component.{prop}", (CF, f.lineno), msg, found="; ".join(wrong))
        else:
            ctx.unrec("R5", f"Component.{prop}", (CF, f.lineno), f"cannot see which registered variables Component.{prop} returns: {'; '.join(seen_) or 'no return'}")


def _stale_index(pkg, T):
    """Component keeps a per-kind table self.T next to the registry self._symbols.  `register` may OVERWRITE a name (force_overwrite)
    with a variable of another kind: unless the name's previous entry is removed from T, the symbol stays listed under its old kind as
    well and is declared twice (as parameter and as derived quantity).  -> the positive evidence (register writes T and never removes
    from it) as a sentence, or None when register does remove entries / is not understood."""
    comp = pkg.cls("Component")
    reg = comp.methods.get("register")
    if reg is None:
        return None
    scope, todo = [], [reg]
    while todo:
        f = todo.pop()
        if any(f is g for g in scope):
            continue
        scope.append(f)
        for c in ast.walk(f):
            if isinstance(c, ast.Call) and isinstance(c.func, ast.Attribute) and isinstance(c.func.value, ast.Name) and c.func.value.id == "self" and c.func.attr in comp.methods \
                    and c.func.attr != "register":
                todo.append(comp.methods[c.func.attr])
    on_T = lambda e: any(isinstance(x, ast.Attribute) and x.attr == T and isinstance(x.value, ast.Name) and x.value.id == "self" for x in ast.walk(e))
    writes = [n for f in scope for n in ast.walk(f) if isinstance(n, ast.Subscript) and isinstance(n.ctx, ast.Store) and on_T(n.value)]
    removes = [n for f in scope for n in ast.walk(f) if (isinstance(n, ast.Delete) and any(on_T(t) for t in n.targets))
               or (isinstance(n, ast.Call) and isinstance(n.func, ast.Attribute) and n.func.attr in ("pop", "popitem", "clear", "discard", "remove") and on_T(n.func.value))
               or (isinstance(n, ast.Assign) and any(isinstance(t, ast.Attribute) and t.attr == T for t in n.targets))]
    overwrites = any(isinstance(n, ast.arg) and n.arg == "force_overwrite" for n in ast.walk(reg))
    if writes and not removes and overwrites:
        return (f"the per-kind table self.{T} is filled by register() (line {writes[0].lineno}) but an overwrite with force_overwrite never removes the name's previous entry: a symbol "
                "re-registered with another kind stays listed under the old kind too and is declared twice")
    return None


def _generator_as_expression(fn):
    """A generator helper whose body is one nest of `for` / `if` statements around a single `yield E` or `yield from E` returns --
    as far as the sequence of produced values goes -- the generator expression `(E for .. if ..)` / `chain.from_iterable(E for ..)`:
    -> a copy of the function with that `return`, or None when the function is not of that shape."""
    import copy
    body = [st for st in fn.body if not (isinstance(st, ast.Expr) and isinstance(st.value, ast.Constant))]
    if len(body) != 1 or sum(isinstance(n, (ast.Yield, ast.YieldFrom)) for n in ast.walk(fn)) != 1 or any(isinstance(n, ast.Return) for n in ast.walk(fn)):
        return None
    gens, st = [], body[0]
    while True:
        if isinstance(st, ast.For) and not st.orelse and len(st.body) == 1:
            gens.append(ast.comprehension(target=copy.deepcopy(st.target), iter=copy.deepcopy(st.iter), ifs=[], is_async=0))
            for n in ast.walk(gens[-1].target):
                if hasattr(n, "ctx"):
                    n.ctx = ast.Store()
            st = st.body[0]
        elif isinstance(st, ast.If) and not st.orelse and len(st.body) == 1 and gens:
            gens[-1].ifs.append(copy.deepcopy(st.test))
            st = st.body[0]
        else:
            break
    if not (isinstance(st, ast.Expr) and isinstance(st.value, (ast.Yield, ast.YieldFrom)) and st.value.value is not None):
        return None
    y = st.value
    if isinstance(y, ast.Yield):
        if not gens:
            return None
        val = ast.GeneratorExp(elt=copy.deepcopy(y.value), generators=gens)
    elif gens:
        val = ast.Call(func=ast.Attribute(value=ast.Name(id="chain", ctx=ast.Load()), attr="from_iterable", ctx=ast.Load()),
                       args=[ast.GeneratorExp(elt=copy.deepcopy(y.value), generators=gens)], keywords=[])
    else:
        val = copy.deepcopy(y.value)
    new = copy.copy(fn)
    new.body = [ast.copy_location(ast.Return(value=val), body[0])]
    return ast.fix_missing_locations(new)


_CHAIN = (("global", "chain"), ("attr", ("global", "itertools"), "chain"))
_DICTS = (("global", "dict"), ("global", "OrderedDict"), ("attr", ("global", "collections"), "OrderedDict"))


def _pair_stream(v):
    """The sequence of (key, value) pairs an expression produces, as ONE nest of generators:
         ([(variable, iterable, (filters..)), ..], mapping)     the items of `mapping`, for every binding of the generators in order
    whatever the spelling: `M.items()`; `(E for x in S)` / `[..]` whose element is a pair stream or the pair `(k, v)` of a last
    generator `for k, v in M.items()`; `chain.from_iterable(<generator of pair streams>)` / `chain(*[..])`; a generator over another
    generator (`f(x) for x in (g(y) for y in S)` is `f(g(y)) for y in S`).  None when the expression is not understood."""
    from ..valueflow import subst
    if v[0] == "meth" and v[2] == "items" and not v[3] and not v[4]:
        return [], v[1]
    if v[0] == "meth" and v[1] in _CHAIN and v[2] == "from_iterable" and len(v[3]) == 1 and not v[4]:
        x = v[3][0]
    elif v[0] == "call" and v[1] in _CHAIN and len(v[2]) == 1 and v[2][0][0] == "star" and not v[3]:
        x = v[2][0][1]
    elif v[0] == "comp" and v[1] in ("gen", "list") and v[2][0] == "tuple" and len(v[2][1]) == 2 and v[3]:
        # (k, v) for .. for k, v in M.items()
        tg, it, ifs = v[3][-1]
        if tg is not None and tg[0] == "tuple" and tuple(tg[1]) == tuple(v[2][1]) and not ifs:
            inner = _pair_stream(it)
            g_ = _gens(v[3][:-1] + ((tg, it, ifs),))
            if g_ is not None:
                inner = _pair_stream(g_[0][-1][1])
                if inner is not None and not inner[0]:
                    return g_[0][:-1], inner[1]
        return None
    else:
        return None
    # a sequence of pair streams, chained
    if x[0] == "comp" and x[1] in ("gen", "list"):
        g_ = _gens(x[3])
        if g_ is None:
            return None
        inner = _pair_stream(subst(x[2], g_[1]) if g_[1] else x[2])
        if inner is None:
            return None
        return g_[0] + inner[0], inner[1]
    return None


def _gens(gs):
    """generators of a comprehension with a generator over another one-generator comprehension composed away:
    `for x in (g(y) for y in S [if p(y)])` binds x := g(y) under `for y in S [if p(y)]`"""
    from ..valueflow import subst
    out, env = [], {}
    for tg, it, ifs in gs:
        it = subst(it, env) if env else it
        ifs = tuple(subst(c, env) for c in ifs) if env else tuple(ifs)
        if tg is None or tg[0] != "bv":
            if tg is not None and tg[0] == "tuple" and not ifs and (tg, it, ifs) == tuple(gs[-1]):
                out.append((tg, it, ifs))         # the destructuring last generator `for k, v in ..` (read by the caller)
                continue
            return None
        if it[0] == "comp" and it[1] in ("gen", "list") and len(it[3]) == 1 and it[3][0][0] is not None and it[3][0][0][0] == "bv":
            t2, i2, f2 = it[3][0]
            out.append((t2, i2, tuple(f2)))
            env[tg] = it[2]
            if ifs:
                out[-1] = (t2, i2, tuple(f2) + ifs)
        else:
            out.append((tg, it, ifs))
    return out, env


def _collect_rule(ctx, pkg):
    """utilities._collect_variable_items(components, kind): the items of ONE dictionary that merges, in order and unfiltered,
    `getattr(c, kind)` of EVERY c in `components` -- as nested loops storing / updating, or as one expression (dict / OrderedDict
    over chained items, a dict comprehension, generator helpers of the module).  The two parameters are taken by POSITION."""
    from ..valueflow import Flow, subst
    # the function by USE: whatever utilities function the renderer installs as the Jinja filter `collect_variable_items`
    fname = "_collect_variable_items"
    tl = pkg.modules.get("naunet/templateloader.py")
    for st in ast.walk(tl) if tl is not None else ():
        if isinstance(st, ast.Assign) and len(st.targets) == 1 and isinstance(st.targets[0], ast.Subscript) and isinstance(st.targets[0].slice, ast.Constant) \
                and st.targets[0].slice.value == "collect_variable_items" and isinstance(st.targets[0].value, ast.Attribute) and st.targets[0].value.attr == "filters" \
                and isinstance(st.value, ast.Name):
            imported = {a.asname or a.name: a.name for im in tl.body if isinstance(im, ast.ImportFrom) and im.module == "utilities" and im.level == 1 for a in im.names}
            if imported.get(st.value.id) and (UTIL, imported[st.value.id]) in pkg.functions:
                fname = imported[st.value.id]
            elif (UTIL, st.value.id) in pkg.functions and st.value.id not in {n.id for n in ast.walk(tl) if isinstance(n, ast.Name) and isinstance(n.ctx, ast.Store)}:
                fname = st.value.id
    fn = pkg.func(UTIL, fname)
    ctx.saw(UTIL, fname)
    key, where = "_collect_variable_items:every component", (UTIL, fn.lineno)
    msg = "every item of every component's params/deriveds/constants is merged (keyed by symbol), unconditionally"
    ps = [a.arg for a in fn.args.args]
    if len(ps) != 2 or fn.args.vararg or fn.args.kwarg:
        ctx.unrec("R5", key, where, f"the filter no longer takes (components, kind): {ps}")
        return
    COMPS, VT = ("param", ps[0]), ("param", ps[1])

    def helper(name):
        g = pkg.functions.get((UTIL, name))
        if g is None or g is fn:
            return None
        if any(isinstance(n, (ast.Yield, ast.YieldFrom)) for n in ast.walk(g)):
            return _generator_as_expression(g)
        return g
    # (read with the plain module functions it was split into put back in place: a block extracted into a procedure that fills the
    # dictionary it is handed is the same nested loop)
    fnx = fn
    try:
        import copy
        from ..normalize import expand_helpers
        locs = {n.id for n in ast.walk(fn) if isinstance(n, ast.Name) and isinstance(n.ctx, ast.Store)} | set(ps)

        def put_back(call):
            if isinstance(call.func, ast.Name) and call.func.id not in locs:
                g = pkg.functions.get((UTIL, call.func.id))
                if g is not None and g is not fn and not any(isinstance(n, (ast.Yield, ast.YieldFrom)) or (isinstance(n, ast.Name) and n.id == fn.name) for n in ast.walk(g)):
                    return g, None
            return None
        fnx = expand_helpers(copy.deepcopy(fn), put_back)
    except Exception:
        fnx = fn
    fl = Flow(fnx, UTIL, func_resolver=helper)
    rets = [simp(f.value) for f in fl.facts if f.kind == "return" and f.value is not None]
    evidence, ok = [], False
    # by role: the dictionary whose .items() is returned
    acc = None
    for v in rets:
        if v[0] == "meth" and v[2] == "items" and v[1][0] == "acc":
            acc = v[1][1]
        elif v[0] == "acc":
            acc = v[1]

    def domain(d, what):
        """is the sequence the outer loop visits `components` itself?  a slice / selection of it is positive evidence"""
        if d == COMPS:
            return True
        if d[0] == "sub" and d[1] == COMPS and d[2][0] == "slice":
            evidence.append(f"{what} visits only a slice of `{ps[0]}`: {show(d)[:60]}")
        elif d[0] == "comp" and len(d[3]) == 1 and d[3][0][1] == COMPS and d[3][0][2] and d[2] == d[3][0][0]:
            evidence.append(f"{what} visits a filtered selection of `{ps[0]}`: {show(d)[:80]}")
        elif d[0] == "call" and d[1] == ("global", "filter") and len(d[2]) == 2 and d[2][1] == COMPS:
            evidence.append(f"{what} visits a filtered selection of `{ps[0]}`: {show(d)[:80]}")
        return False
    def nonempty(c):
        """(X, sense) when the condition `c` only asks whether X -- the component list, or one component's mapping -- has any items
        (sense: c is true exactly when it has): skipping what is empty merges the same items.  None for any other condition"""
        c = simp(c)
        if c == COMPS or (c[0] == "call" and c[1] == ("global", "getattr") and len(c[2]) == 2 and c[2][1] == VT and c[2][0][0] == "elem" and c[2][0][1] == COMPS):
            return c, True
        if c[0] == "unop" and c[1] == "Not":
            r = nonempty(c[2])
            return None if r is None else (r[0], not r[1])
        if c[0] == "call" and c[1] in (("global", "len"), ("global", "bool")) and len(c[2]) == 1 and not c[3]:
            return nonempty(c[2][0])
        if c[0] == "meth" and c[2] in ("items", "keys", "values") and not c[3] and not c[4]:
            return nonempty(c[1])
        if c[0] == "cmp" and len(c[1]) == 1 and len(c[2]) == 2 and c[2][1] in (("const", None), ("const", 0)):
            r = nonempty(c[2][0])
            if r is not None and c[1][0] in ("Is", "Eq"):
                return r[0], not r[1]
            if r is not None and c[1][0] in ("IsNot", "NotEq", "Gt"):
                return r
        return None

    def selecting(guards, merged: bool):
        """the guards that are more than `.. has items` (for a merge) / `.. is empty` (for a skip)"""
        out = []
        for gd in guards:
            for c, pol in split_guard(gd):
                r = nonempty(c)
                if r is None or (r[1] == bool(pol)) != merged:
                    out.append(c)
        return out
    if acc is not None:
        st = [f for f in fl.facts if f.kind == "store" and f.target == acc]
        up = [f for f in fl.facts if f.kind == "mutate" and f.target == acc and f.op == "update"]
        brk = [f for f in fl.facts if f.kind in ("break", "continue") and f.loops]
        for f in st + up:
            if selecting(f.guards, True):
                evidence.append(f"the merge at line {f.line} happens only under {[show(g)[:50] for g in selecting(f.guards, True)]}")
        for f in brk:
            if f.kind == "continue" and f.guards and not selecting(f.guards, False):
                continue          # (`if not var_dict: continue`: nothing to merge from an empty mapping)
            evidence.append(f"`{f.kind}` at line {f.line} skips components / items" + (f" when {[show(g)[:50] for g, _ in f.guards]}" if f.guards else ""))
        if len(st) == 1 and not up and len(st[0].loops) == 2:
            l1, l2 = st[0].loops
            g = ("call", ("global", "getattr"), (("elem", COMPS, l1.id), VT), ())
            i2 = simp(l2.iter)
            ok = domain(simp(l1.iter), "the loop") and i2 == ("meth", g, "items", (), ()) and \
                simp(st[0].index) == ("key", g, l2.id) and simp(st[0].value) == ("val", g, l2.id)
        elif len(up) == 1 and not st and len(up[0].loops) == 1:
            # variables.update(getattr(comp, kind)[.items()]) once per component
            l1 = up[0].loops[0]
            g = ("call", ("global", "getattr"), (("elem", COMPS, l1.id), VT), ())
            a = simp(up[0].value) if up[0].value else None
            ok = domain(simp(l1.iter), "the loop") and a in (g, ("meth", g, "items", (), ()))
    elif len(rets) == 1:
        # the merge as ONE expression
        v = rets[0]
        if v[0] == "meth" and v[2] == "items" and not v[3] and not v[4]:
            v = v[1]
        ps_ = None
        if v[0] == "call" and v[1] in _DICTS and len(v[2]) == 1 and not v[3]:
            ps_ = _pair_stream(v[2][0])
        elif v[0] == "comp" and v[1] == "dict" and v[2][0] == "tuple" and len(v[2][1]) == 2:
            ps_ = _pair_stream(("comp", "gen", v[2], v[3]))
        if ps_ is not None:
            gens, mapping = ps_
            for tg, it, ifs in gens:
                if ifs:
                    evidence.append(f"components / items are filtered: if {'; '.join(show(c)[:50] for c in ifs)}")
            if len(gens) == 1:
                tg, it, ifs = gens[0]
                ok = domain(it, "the expression") and not ifs and mapping == ("call", ("global", "getattr"), (tg, VT), ())
    if ok and not evidence:
        ctx.ok("R5", key, where, msg)
    elif evidence:
        ctx.bad("R5", key, where, msg, found="; ".join(evidence)[:300])
    else:
        ctx.unrec("R5", key, where, "cannot see how the components' mappings are merged: " + "; ".join(show(v)[:120] for v in rets)[:300])


# ------------------------------------------------------------------ R6

EXAMPLE_FORMAT = {"kida": "KIDAReaction", "umist": "UMISTReaction", "krome": "KROMEReaction", "leeds": "LEEDSReaction", "uclchem": "UCLCHEMReaction", "naunet": "Reaction"}
GRAIN_MODEL = {"": None, "hh93": "HH93Grain", "hh93i": "HH93IGrain", "rr07": "RR07Grain", "rr07x": "RR07XGrain", "base": "Grain"}


def _r6(ctx, pkg, regs, protos, consts, universal):
    n = 0
    for f in pkg.files:
        if not (f.startswith("naunet/examples/") and f.endswith("__init__.py")) or f == "naunet/examples/__init__.py":
            continue
        vals = {}
        for node in pkg.modules[f].body:
            if isinstance(node, ast.Assign) and isinstance(node.targets[0], ast.Name):
                try:
                    vals[node.targets[0].id] = ast.literal_eval(node.value)
                except Exception:
                    pass
        om = vals.get("ode_modifier")
        if not om:
            continue
        ctx.saw(f)
        fm = vals.get("formats", [])
        fm = [fm] if isinstance(fm, str) else list(fm)
        classes = [EXAMPLE_FORMAT.get(x) for x in fm]
        g = GRAIN_MODEL.get(vals.get("grain_model") or "", None)
        avail = set()
        for c in classes + ([g] if g else []):
            for s in regs.get(c, []):
                avail.add(s.base if s.param else s.text)
        for spec, expr in om.items():
            for fac in expr.get("factors", []):
                n += 1
                try:
                    ids = set(idents_of(fac))
                except calg.CParseError:
                    ids = set(re.findall(r"[A-Za-z_]\w*", fac))
                bad = [x for x in ids if x not in avail and x not in CMATH and x not in protos and x not in consts]
                regs.judge(ctx, not bad, "R6", f"{f.split('/')[-2]}:{spec}:{fac}", (f, 0),
                          f"factor uses symbols registered by {classes + ([g] if g else [])}" if not bad else f"{bad} not registered by the example's format/grain classes {classes + [g]}")
    ctx.floor("R6", "example modifier factors", n, 4)


# ------------------------------------------------------------------ R11  text the renderer itself writes around a rate

TLOADER = "naunet/templateloader.py"
TPROC = "naunet/thermalprocess.py"
_C_WORDS = {"if", "else"}


def _tri(test, attrs):
    """three-valued truth of a Python test under known attribute values {attr name: constant} of the object it inspects"""
    if isinstance(test, ast.Constant):
        return bool(test.value)
    if isinstance(test, ast.Attribute) and test.attr in attrs:
        return bool(attrs[test.attr])
    if isinstance(test, ast.UnaryOp) and isinstance(test.op, ast.Not):
        v = _tri(test.operand, attrs)
        return None if v is None else not v
    if isinstance(test, ast.BoolOp):
        vs = [_tri(x, attrs) for x in test.values]
        if isinstance(test.op, ast.And):
            return False if False in vs else (None if None in vs else True)
        return True if True in vs else (None if None in vs else False)
    if isinstance(test, ast.Compare) and len(test.ops) == 1:
        def val(e):
            if isinstance(e, ast.Constant):
                return e.value
            if isinstance(e, ast.UnaryOp) and isinstance(e.op, ast.USub) and isinstance(e.operand, ast.Constant):
                return -e.operand.value
            if isinstance(e, ast.Attribute) and e.attr in attrs:
                return attrs[e.attr]
            return _tri
        a, b = val(test.left), val(test.comparators[0])
        if a is _tri or b is _tri:
            return None
        try:
            return {ast.Gt: lambda: a > b, ast.GtE: lambda: a >= b, ast.Lt: lambda: a < b, ast.LtE: lambda: a <= b, ast.Eq: lambda: a == b, ast.NotEq: lambda: a != b,
                    ast.Is: lambda: a is b, ast.IsNot: lambda: a is not b}[type(test.ops[0])]()
        except (KeyError, TypeError):
            return None
    return None


def _leaves(body):
    """does this statement list always leave the enclosing block -- its last statement is return / raise / continue / break, or an
    if / else both arms of which leave?"""
    if not body:
        return False
    last = body[-1]
    if isinstance(last, (ast.Return, ast.Raise, ast.Continue, ast.Break)):
        return True
    if isinstance(last, ast.If) and last.orelse:
        return _leaves(last.body) and _leaves(last.orelse)
    return False


def _earlier_exits(par, x):
    """guard clauses: the conditions under which statement `x` of a block of `par` is reached because an EARLIER `if` of the same
    block left it (`if t: return ""` before x: x runs only when t is false) -> [(test, polarity)]"""
    out = []
    for fld in ("body", "orelse", "finalbody"):
        lst = getattr(par, fld, None)
        if isinstance(lst, list) and any(s_ is x for s_ in lst):
            for s_ in lst:
                if s_ is x:
                    break
                if isinstance(s_, ast.If):
                    a, b = _leaves(s_.body), _leaves(s_.orelse)
                    if a and not b:
                        out.append((s_.test, False))
                    elif b and not a:
                        out.append((s_.test, True))
    return out


def _single_assignments(fn):
    """{local name: the expression it is bound to} for the locals of a function that are stored exactly once, by a plain assignment
    (`lo = r.temp_min`, `lo, hi = r.temp_min, r.temp_max`): a test on such a name is the test on that expression"""
    stores, vals = {}, {}
    for n in ast.walk(fn):
        if isinstance(n, ast.Name) and isinstance(n.ctx, (ast.Store, ast.Del)):
            stores[n.id] = stores.get(n.id, 0) + 1
        elif isinstance(n, ast.arg):
            stores[n.arg] = stores.get(n.arg, 0) + 1
    for st in ast.walk(fn):
        if isinstance(st, ast.Assign) and len(st.targets) == 1:
            t, v = st.targets[0], st.value
            if isinstance(t, ast.Name):
                vals[t.id] = v
            elif isinstance(t, ast.Tuple) and isinstance(v, ast.Tuple) and len(t.elts) == len(v.elts) and all(isinstance(e, ast.Name) for e in t.elts) \
                    and not any(isinstance(e, ast.Starred) for e in v.elts):
                for e, w in zip(t.elts, v.elts):
                    vals[e.id] = w
    return {k: v for k, v in vals.items() if stores.get(k) == 1}


def _r11(ctx, pkg, regs, protos, consts, universal):
    """The renderer (`_assign_rates` and what it calls) writes C text of its own around each rate expression -- today the temperature
    window `if (Tgas>=.. && Tgas<..) { .. }`.  Those statements are pasted into EvalRates (reactions: the identifier must be one every
    reaction class registers) AND into EvalHeatingRates / EvalCoolingRates, which declare the symbols of the thermal processes only: an
    identifier of the renderer's own text that ThermalProcess does not register must be unreachable for a thermal process, i.e. sit under
    a condition on an attribute that every ThermalProcess instance fixes to a falsifying constant."""
    tl = pkg.cls("TemplateLoader")
    root = tl.methods.get("_assign_rates")
    if root is None:
        # under another name, by role: the one method of the renderer that asks the reactions for their rate expressions
        asking = [m for m in tl.methods.values() if any(isinstance(c, ast.Call) and isinstance(c.func, ast.Attribute) and c.func.attr == "rateexpr" for c in ast.walk(m))]
        root = asking[0] if len(asking) == 1 else None
    if root is None:
        ctx.missing("R11", "_assign_rates", (TLOADER, 0), "TemplateLoader._assign_rates vanished")
        return
    ctx.saw(TLOADER, "TemplateLoader._assign_rates")
    mod = pkg.modules[TLOADER]
    mclasses = {c.name: c for c in mod.body if isinstance(c, ast.ClassDef)}
    # functions reachable from _assign_rates inside the module (methods through self / cls / the class name, module functions, the
    # methods of module classes it instantiates): more scope only means more text to account for
    import copy
    from ..normalize import _Subst, const_getattr

    def special(g, call, method):
        """the callee as this call site sees it: parameters that receive a literal replaced by it (`getattr(reac, bound)` with
        bound = "temp_min" is `reac.temp_min`), so that the text and the conditions inside are read with the names they have here"""
        ps = [a.arg for a in g.args.args]
        if method and not any(ast.unparse(d) == "staticmethod" for d in g.decorator_list):
            ps = ps[1:]
        lit = {p_: a for p_, a in zip(ps, call.args) if isinstance(a, ast.Constant)}
        lit.update({k.arg: k.value for k in call.keywords if k.arg in ps and isinstance(k.value, ast.Constant)})
        stored = {n.id for n in ast.walk(g) if isinstance(n, ast.Name) and isinstance(n.ctx, (ast.Store, ast.Del))}
        lit = {k: v for k, v in lit.items() if k not in stored}
        if not lit:
            return g
        g2 = copy.deepcopy(g)
        g2.body = [_Subst(dict(lit)).visit(st) for st in g2.body]
        handed_on.update(id(v) for v in lit.values())
        return const_getattr(g2)
    handed_on = set()          # literal arguments accounted for inside the specialised callee
    scope, todo = [], [root]
    sites = {}                 # id(function of the scope) -> [the expressions that call / mention it] (the root has none)
    while todo and len(scope) < 40:
        f = todo.pop()
        if any(f is g for g in scope):
            continue
        scope.append(f)
        called = set()
        for c in ast.walk(f):
            if not isinstance(c, ast.Call):
                continue
            fn_ = c.func
            called.add(id(fn_))
            g2 = None
            if isinstance(fn_, ast.Attribute) and isinstance(fn_.value, ast.Name) and fn_.value.id in ("self", "cls", "TemplateLoader"):
                g = pkg.resolve("TemplateLoader", fn_.attr)[1]
                if g is not None:
                    g2 = special(g, c, True)
            elif isinstance(fn_, ast.Name) and (TLOADER, fn_.id) in pkg.functions:
                g2 = special(pkg.functions[(TLOADER, fn_.id)], c, False)
            elif isinstance(fn_, ast.Name) and fn_.id in mclasses:
                todo += [m for m in mclasses[fn_.id].body if isinstance(m, ast.FunctionDef)]
            if g2 is not None:
                todo.append(g2)
                sites.setdefault(id(g2), []).append(c)
        # a helper handed on by name (`map(self._window, reactions)`, `key=_window`) runs too
        for c in ast.walk(f):
            if id(c) in called or not isinstance(getattr(c, "ctx", None), ast.Load):
                continue
            g = None
            if isinstance(c, ast.Attribute) and isinstance(c.value, ast.Name) and c.value.id in ("self", "cls", "TemplateLoader"):
                g = pkg.resolve("TemplateLoader", c.attr)[1]
                if g is not None and any(ast.unparse(d).split(".")[-1] in ("property", "cached_property", "setter") for d in g.decorator_list):
                    g = None
            elif isinstance(c, ast.Name) and (TLOADER, c.id) in pkg.functions:
                g = pkg.functions[(TLOADER, c.id)]
            if g is not None and g is not root:
                todo.append(g)
                sites.setdefault(id(g), []).append(c)
    # what a thermal process is: constants / constructor parameters its __init__ stores, and the instances of the package
    tp = pkg.cls("ThermalProcess")
    init = tp.methods.get("__init__")
    fixed, fed, stores = {}, {}, {}
    # constants of the module / the class body, bound once (`UNLIMITED = -1.0`)
    tmod = pkg.modules.get(tp.file)
    mstores = {}
    for nd in ast.walk(tmod) if tmod is not None else []:
        if isinstance(nd, ast.Name) and isinstance(nd.ctx, (ast.Store, ast.Del)):
            mstores[nd.id] = mstores.get(nd.id, 0) + 1
    mconst = {st.targets[0].id: st.value for st in (tmod.body if tmod is not None else []) if isinstance(st, ast.Assign) and len(st.targets) == 1
              and isinstance(st.targets[0], ast.Name) and mstores.get(st.targets[0].id) == 1}

    def const_of(e, depth=0):
        """the constant an expression of ThermalProcess stands for (a literal, a once-bound module constant, a class attribute), else `_tri`"""
        if isinstance(e, ast.Constant) and not isinstance(e.value, str):
            return e.value
        if isinstance(e, ast.UnaryOp) and isinstance(e.op, ast.USub):
            v = const_of(e.operand, depth)
            return -v if v is not _tri and isinstance(v, (int, float)) and not isinstance(v, bool) else _tri
        if depth < 4 and isinstance(e, ast.Name) and e.id in lconst:
            return const_of(lconst[e.id], depth + 1)
        if depth < 4 and isinstance(e, ast.Name) and e.id in mconst and e.id not in lstores:
            return const_of(mconst[e.id], depth + 1)
        if depth < 4 and isinstance(e, ast.Attribute) and isinstance(e.value, ast.Name) and e.value.id in ("self", "cls", "ThermalProcess") and e.attr in tp.attrs \
                and e.attr not in stores:
            return const_of(tp.attrs[e.attr], depth + 1)
        return _tri
    # the constructor as rules read it: the private helpers it was split into put back, and a local bound once at its top level
    # (`unlimited = -1.0; self.temp_min = unlimited`) standing for its value
    initx, lconst, lstores = init, {}, {}
    if init is not None:
        try:
            initx = pkg.expanded("ThermalProcess", "__init__")
        except Exception:
            initx = init
        for nd in ast.walk(initx):
            if isinstance(nd, ast.Name) and isinstance(nd.ctx, (ast.Store, ast.Del)):
                lstores[nd.id] = lstores.get(nd.id, 0) + 1
        for a_ in ast.walk(initx.args):
            if isinstance(a_, ast.arg):
                lstores[a_.arg] = lstores.get(a_.arg, 0) + 1
        lconst = {st.targets[0].id: st.value for st in initx.body if isinstance(st, ast.Assign) and len(st.targets) == 1 and isinstance(st.targets[0], ast.Name)
                  and lstores.get(st.targets[0].id) == 1}

    def deref(v, depth=0):
        while depth < 4 and isinstance(v, ast.Name) and v.id in lconst:
            v, depth = lconst[v.id], depth + 1
        return v
    if init is not None:
        ctx.saw(TPROC, "ThermalProcess.__init__")
        for m in tp.methods.values():
            for n in ast.walk(m):
                if isinstance(n, ast.Attribute) and isinstance(n.ctx, ast.Store) and isinstance(n.value, ast.Name) and n.value.id == "self":
                    stores[n.attr] = stores.get(n.attr, 0) + 1
        params = [a.arg for a in init.args.args[1:]] + [a.arg for a in init.args.kwonlyargs]
        for st in initx.body:
            # `self.a = v`, `self.a = self.b = v`, `self.a, self.b = v, w`
            pairs = []
            if isinstance(st, ast.Assign):
                for t in st.targets:
                    if isinstance(t, ast.Tuple) and isinstance(st.value, ast.Tuple) and len(t.elts) == len(st.value.elts):
                        pairs += list(zip(t.elts, st.value.elts))
                    else:
                        pairs.append((t, st.value))
            elif isinstance(st, ast.AnnAssign) and st.value is not None:
                pairs.append((st.target, st.value))
            for t, v in pairs:
                if isinstance(t, ast.Attribute) and isinstance(t.value, ast.Name) and t.value.id == "self" and stores.get(t.attr) == 1:
                    c_ = const_of(v)
                    if c_ is not _tri:
                        fixed[t.attr] = c_
                    elif isinstance(deref(v), ast.Name) and deref(v).id in params and lstores.get(deref(v).id) == 1:
                        fed[t.attr] = deref(v).id
    # ... or that the class body fixes (`temp_min = -1.0`) and no method stores
    for a_, node_ in tp.attrs.items():
        if a_ not in fixed and a_ not in fed and not (init is not None and a_ in stores) and const_of(node_) is not _tri:
            fixed[a_] = const_of(node_)
    # attributes of thermal processes assigned from outside the class make their value unknown
    outside = {n.attr for f_, m in pkg.modules.items() for n in ast.walk(m) if isinstance(n, ast.Attribute) and isinstance(n.ctx, ast.Store)
               and not (isinstance(n.value, ast.Name) and n.value.id == "self") and n.attr in set(fixed) | set(fed)}
    instances = []
    if fed and init is not None:
        defaults = dict(zip([a.arg for a in init.args.args][len(init.args.args) - len(init.args.defaults):], init.args.defaults))
        for f_, m in pkg.modules.items():
            for c in ast.walk(m):
                if isinstance(c, ast.Call) and ast.unparse(c.func).split(".")[-1] == "ThermalProcess":
                    given = dict(zip(params, c.args))
                    given.update({k.arg: k.value for k in c.keywords if k.arg})
                    vals = {}
                    for attr, p_ in fed.items():
                        e = given.get(p_, defaults.get(p_))
                        if isinstance(e, ast.UnaryOp) and isinstance(e.op, ast.USub) and isinstance(e.operand, ast.Constant):
                            vals[attr] = -e.operand.value
                        elif isinstance(e, ast.Constant):
                            vals[attr] = e.value
                    instances.append((f_, c.lineno, vals))
    tdecl = {x.text for x in regs["ThermalProcess"]} | CMATH | protos | consts | {"y"}
    # (should the thermal functions declare the reactions' symbols too, those are available there)
    lists = []
    for solver, rel, methods, funcs in SITES:
        for fname in [f_ for f_ in funcs if f_ in ("EvalHeatingRates", "EvalCoolingRates")]:
            sk = Skel(J.flatten(ctx.tree, rel, {"general.method": methods[0], "general.device": "cpu"}))
            for it, off in sk.items_in(fname):
                if it[0] == "for":
                    base, fs = _source(sk.marks, it, it[2])
                    if any(f_[0] == "collect_variable_items" and f_[1] and f_[1][0] == ("const", "params") for f_ in fs):
                        lists.append(_terms(base))
    if lists and all(t is not None and "reactions" in t for t in lists):
        tdecl |= set(universal)
    rdecl = set(universal) | CMATH | protos | consts | {"y", "k"}
    parents, owner = {}, {}
    n = 0
    for f in scope:
        for p_ in ast.walk(f):
            owner[id(p_)] = f
            for ch in ast.iter_child_nodes(p_):
                parents[id(ch)] = p_
    locals_of = {id(f): _single_assignments(f) for f in scope}

    def as_written(test, f):
        """the test with the function's once-assigned locals replaced by what they stand for (`lo = r.temp_min; if lo > 0`)"""
        env = locals_of.get(id(f)) or {}
        for _ in range(3):
            if not any(isinstance(x_, ast.Name) and x_.id in env for x_ in ast.walk(test)):
                break
            test = _Subst(dict(env)).visit(copy.deepcopy(test))
        return test

    def conditions(node, depth=0):
        """-> (guards [(test, polarity)] under which `node` is evaluated, skip: it is not output text at all, complete: every way into
        the enclosing function was followed).  Guards: enclosing `if` statements / conditional expressions / comprehension conditions /
        `and`-`or` operands, guard clauses that left the block earlier, and -- for a helper with ONE call site -- the same at that site"""
        guards, x, skip, complete = [], node, False, True
        while id(x) in parents:
            par = parents[id(x)]
            if isinstance(par, ast.Expr) and par.value is x and isinstance(x, (ast.Constant, ast.JoinedStr)):
                skip = True       # docstring / bare string
            if isinstance(par, (ast.Raise, ast.Assert)) or (isinstance(par, ast.Call) and ast.unparse(par.func).split(".")[0] in ("logging", "logger", "warnings", "print")):
                skip = True
            if isinstance(par, ast.JoinedStr) and not any(v is x for v in par.values):
                skip = True       # a format spec
            if isinstance(par, ast.FormattedValue) and depth == 0:
                skip = True       # text inside a replacement field (a dict key, a separator argument)
            if isinstance(par, ast.Call) and x is not par.func and depth == 0:
                # an argument: text only when handed to str.join / str.format / a list being built, or to a function of this scope
                fn_ = par.func
                local = (isinstance(fn_, ast.Attribute) and isinstance(fn_.value, ast.Name) and fn_.value.id in ("self", "cls", "TemplateLoader") and pkg.resolve("TemplateLoader", fn_.attr)[1] is not None) \
                    or (isinstance(fn_, ast.Name) and ((TLOADER, fn_.id) in pkg.functions or fn_.id in mclasses))
                if not (local or (isinstance(fn_, ast.Attribute) and fn_.attr in ("join", "format", "append", "extend", "insert"))
                        or (isinstance(fn_, ast.Name) and fn_.id in ("list", "tuple", "filter", "str"))):
                    skip = True
            if depth == 0 and ((isinstance(par, ast.Subscript) and x is par.slice) or (isinstance(par, ast.Compare)) or (isinstance(par, ast.Dict) and any(x is k for k in par.keys))):
                skip = True       # a key / an operand of a test
            f_ = owner.get(id(par))
            if isinstance(par, ast.IfExp) and x is not par.test:
                guards.append((as_written(par.test, f_), x is par.body))
            elif isinstance(par, ast.If) and x is not par.test:
                guards.append((as_written(par.test, f_), any(x is b for b in par.body)))
            elif isinstance(par, ast.BoolOp) and not any(x is v for v in par.values[:1]):
                # `a and TEXT` is evaluated when a holds, `a or TEXT` when it does not
                for v in par.values:
                    if v is x:
                        break
                    guards.append((as_written(v, f_), isinstance(par.op, ast.And)))
            elif isinstance(par, ast.comprehension) and x is not par.iter and x is not par.target:
                pass
            elif isinstance(par, (ast.ListComp, ast.GeneratorExp, ast.SetComp, ast.DictComp)):
                for g in par.generators:
                    guards += [(as_written(t, f_), True) for t in g.ifs if t is not x]
            guards += [(as_written(t, f_), pol) for t, pol in _earlier_exits(par, x)]
            x = par
        # x is a function of the scope: the conditions under which it is called
        if x is not root:
            at = sites.get(id(x), [])
            if len(at) == 1 and depth < 6:
                g_, _, c_ = conditions(at[0], depth + 1)
                guards += g_
                complete = complete and c_
            else:
                complete = False
        return guards, skip, complete
    def message_only(f, node):
        """the text is assigned to a local that is only ever handed to raise / logging / warnings / print: a message, not output"""
        x = node
        while id(x) in parents and not isinstance(x, ast.stmt):
            x = parents[id(x)]
        if not (isinstance(x, ast.Assign) and len(x.targets) == 1 and isinstance(x.targets[0], ast.Name)):
            return False
        loads = [y for y in ast.walk(f) if isinstance(y, ast.Name) and isinstance(y.ctx, ast.Load) and y.id == x.targets[0].id]

        def in_message(y):
            while id(y) in parents:
                y = parents[id(y)]
                if isinstance(y, (ast.Raise, ast.Assert)) or (isinstance(y, ast.Call) and ast.unparse(y.func).split(".")[0] in ("logging", "logger", "warnings", "print")):
                    return True
            return False
        return bool(loads) and all(in_message(y) for y in loads)
    # tests the scope makes on the window attributes (whether or not they are seen to govern a given text)
    window_attrs = set(fixed) | set(fed)
    window_tests = []
    for f in scope:
        for t in ast.walk(f):
            tests_ = [t.test] if isinstance(t, (ast.If, ast.IfExp, ast.While)) else list(t.ifs) if isinstance(t, ast.comprehension) else [t] if isinstance(t, (ast.Compare, ast.BoolOp)) else []
            if any(isinstance(a, ast.Attribute) and a.attr in window_attrs for t_ in tests_ for a in ast.walk(as_written(t_, f))):
                window_tests.append(t)
    # literal texts of the module / the class, used by name
    named = {}
    for st in mod.body + list(tl.node.body):
        if isinstance(st, ast.Assign) and len(st.targets) == 1 and isinstance(st.targets[0], ast.Name) and isinstance(st.value, ast.Constant) and isinstance(st.value.value, str):
            named[st.targets[0].id] = None if st.targets[0].id in named else st.value
    named = {k: v for k, v in named.items() if v is not None}
    texts = []          # (function, node standing for the text, the text, certainly output text)
    for f in scope:
        shadowed = {a.arg for a in ast.walk(f) if isinstance(a, ast.arg)} | {x_.id for x_ in ast.walk(f) if isinstance(x_, ast.Name) and isinstance(x_.ctx, (ast.Store, ast.Del))}
        for node in ast.walk(f):
            if isinstance(node, ast.Constant) and isinstance(node.value, str):
                par = parents.get(id(node))
                fmt = (isinstance(par, ast.Attribute) and par.attr == "format" and isinstance(parents.get(id(par)), ast.Call) and parents[id(par)].func is par) \
                    or (isinstance(par, ast.BinOp) and isinstance(par.op, ast.Mod) and par.left is node)
                texts.append((f, node, node.value, isinstance(par, ast.JoinedStr) or fmt))
            elif isinstance(node, ast.Name) and isinstance(node.ctx, ast.Load) and node.id in named and node.id not in shadowed:
                texts.append((f, node, named[node.id].value, False))
            elif isinstance(node, ast.Attribute) and isinstance(node.ctx, ast.Load) and isinstance(node.value, ast.Name) and node.value.id in ("self", "cls", "TemplateLoader") \
                    and node.attr in named and any(st.targets[0].id == node.attr for st in tl.node.body if isinstance(st, ast.Assign) and isinstance(st.targets[0], ast.Name)):
                texts.append((f, node, named[node.attr].value, False))
    for f, node, value, is_text in texts:
        ids = [w for w in re.findall(r"[A-Za-z_]\w*", value) if w not in _C_WORDS]
        if not ids or id(node) in handed_on:
            continue
        # where the text stands: not a docstring / message, and under which conditions
        guards, skip, complete = conditions(node)
        if skip:
            continue
        if message_only(f, node):
            continue
        used = {a.attr for t, _ in guards for a in ast.walk(t) if isinstance(a, ast.Attribute)}
        # is this recognisably the renderer's temperature window -- governed by a test of a window attribute, or formatting one?
        fstr = parents.get(id(node)) if isinstance(parents.get(id(node)), ast.JoinedStr) else None
        pasted = {a.attr for v in (fstr.values if fstr is not None else []) if isinstance(v, ast.FormattedValue) for a in ast.walk(as_written(v.value, f)) if isinstance(a, ast.Attribute)}
        window = bool((used | pasted) & window_attrs)
        for w in ids:
            n += 1
            key = f"{f.name}:`{w}` in {value.strip()[:24]!r}"
            where = (TLOADER, node.lineno)
            if w not in rdecl:
                if is_text and window:
                    regs.judge(ctx, False, "R11", key + ":reactions", where, f"`{w}` is written by the renderer into the rate statements of EvalRates but is not a symbol every reaction class registers")
                elif is_text or w not in tdecl:
                    # (some text of a function the renderer runs: whether it ends up around a rate is not known)
                    ctx.unrec("R11", key + ":reactions", where, f"the string {value[:30]!r} may be text the renderer writes around a rate; `{w}` is not a symbol every reaction class registers")
                continue
            if w in tdecl:
                ctx.ok("R11", key, where, f"`{w}` is declared wherever the rate statements are pasted")
                continue
            known = {a: v for a, v in fixed.items() if a not in outside}
            if any(_tri(t, known) is (not pol) for t, pol in guards):
                ctx.ok("R11", key, where, f"`{w}` is written only under a condition no thermal process satisfies ({', '.join(f'{a} = {v}' for a, v in sorted(known.items()))})")
                continue
            hit = None
            decided = bool(instances) and not (set(fed) & outside)
            for f_, ln, vals in instances:
                ts = [_tri(t, {**known, **vals}) for t, pol in guards]
                if guards and all(v is not None and v == pol for v, (t, pol) in zip(ts, guards)):
                    hit = hit or (f_, ln, vals)
                elif not any(v is not None and v != pol for v, (t, pol) in zip(ts, guards)):
                    decided = False
            if hit is not None:
                hit = (hit[0], hit[1], {a: v for a, v in hit[2].items() if a in used})
            # positive evidence: every condition on the way to the text is read and holds for a thermal process of the package; or
            # there is no condition at all on the way AND the renderer tests the window attributes nowhere
            unconditional = not guards and not window_tests
            if hit is not None or not guards:
                if is_text and complete and (hit is not None or unconditional):
                    ctx.bad("R11", key, where, f"the renderer writes `{w}` into the rate statements" + (f" of the thermal process built at {hit[0]}:{hit[1]} ({hit[2]})" if hit else " of every process") +
                            f": EvalHeatingRates / EvalCoolingRates declare only what ThermalProcess registers ({sorted(x.text for x in regs['ThermalProcess'])}), `{w}` is undeclared there",
                            expected="thermal processes without the renderer's temperature window (temp_min = temp_max = -1.0), or the symbol registered by ThermalProcess",
                            found=f"{ast.unparse(guards[0][0])[:60]} holds for that process" if hit else "unconditional text")
                else:
                    ctx.unrec("R11", key, where, f"the string {value[:30]!r} may be text the renderer writes around the rate of a thermal process, whose functions do not declare `{w}`"
                              + ("" if guards else ": the condition under which it is written is not seen"))
            elif decided:
                ctx.ok("R11", key, where, f"`{w}` is written only under a condition none of the {len(instances)} thermal processes of the package satisfies")
            else:
                ctx.unrec("R11", key, where, f"`{w}` is written by the renderer under {[ast.unparse(t)[:50] for t, _ in guards]}: cannot tell whether a thermal process (whose functions do not declare `{w}`) can satisfy that")
    ctx.floor("R11", "identifiers written by the renderer around a rate", n, 2)


HH = "naunet/grains/hh93grain.py"
RR = "naunet/grains/rr07grain.py"
RATES = "naunet/templates/cvode/src/naunet_rates.cpp.j2"
FEX = "naunet/templates/cvode/src/naunet_fex.cpp.j2"
# ------------------------------------------------------------------ R7

def _exhaustive(gs):
    """do the guard tuples of the registrations of one name cover every path through __init__?"""
    gs = [tuple(g) for g in gs]
    if () in gs:
        return True
    heads = {g[0][0] for g in gs}
    for c in heads:
        t = [g[1:] for g in gs if g[0] == (c, True)]
        f = [g[1:] for g in gs if g[0] == (c, False)]
        if t and f and _exhaustive(t) and _exhaustive(f):
            return True
    return False


def _r7(ctx, rm, pkg, regs):
    """The registry model (and the generated code) treats 'class G registers X' as 'any network containing a G declares X':
    the symbol tables of all reactions are merged, so X is declared iff SOME instance registered it.  A registration that only
    some instances perform leaves X undeclared in a network made of the other instances while texts still mention it."""
    n = 0
    from ..core import AnalysisError
    for cls in REACTION_CLASSES + GRAIN_CLASSES + ["ThermalProcess"]:
        byname = {}
        for r in rm.registry(cls):
            if r["cls"] != cls or r["loops"] or r["op"] != "register" or r["name"][0] != "const":
                continue
            byname.setdefault(r["name"][1], []).append(r)
        # a guard whose other arm RAISES restricts nothing: no instance exists on that path (guard clauses `if bad: raise ..`)
        refusing = set()
        dc, init = pkg.resolve(cls, "__init__")
        if init is not None and dc == cls and any(r["guards"] for rs in byname.values() for r in rs):
            try:
                init = pkg.expanded(dc, "__init__", keep=("register", "unregister"))
            except AnalysisError:
                pass
            for f in Flow(init, pkg.cls(dc).file, consts=rm.module_consts(pkg.cls(dc).file)).facts:
                if f.kind == "raise" and f.guards:
                    c_, p_ = f.guards[-1]
                    refusing.add((simp(c_), not bool(p_)))
        for name, rs in byname.items():
            n += 1
            gs = [tuple(g for g in ((simp(c), bool(p)) for c, p in r["guards"]) if g not in refusing) for r in rs]
            key = f"{cls}.__init__:register({name!r}):every instance"
            where = (rs[0]["file"], rs[0]["line"])
            if _exhaustive(gs):
                ctx.ok("R7", key, where, "registered on every path through __init__")
                continue
            sym = Sym(rs[0])
            guard = " and ".join(("" if p_ else "not ") + f"({show(c)[:70]})" for c, p_ in gs[0])
            # who mentions the symbol outside that guard?
            users = []
            for c2 in REACTION_CLASSES + GRAIN_CLASSES + ["ThermalProcess"]:
                for label, text, file, line in _texts_of_class(rm, pkg, c2, regs):
                    try:
                        ids = set(idents_of(text))
                    except calg.CParseError:
                        ids = set(re.findall(r"[A-Za-z_]\w*", text))
                    if sym.text in ids or (sym.param and any(i.startswith(sym.base) for i in ids)):
                        users.append(f"{c2}: {label}")
            if users and len(rs) > 1:
                # several registrations of the name under conditions that are not visibly complementary: cannot tell whether some path misses it
                ctx.unrec("R7", key, where, f"`{sym.text}` is registered on {len(rs)} paths under conditions that are not seen to cover every instance")
            elif users:
                ctx.bad("R7", key, where, f"`{sym.text}` is registered only when {guard}; a network whose {cls} instances never satisfy that leaves it undeclared, yet it is referenced by "
                        f"{sorted(set(users))[:4]}", expected="unconditional registration (or both arms of the condition register the name)", found=f"guard: {guard}")
            else:
                ctx.unrec("R7", key, where, f"`{sym.text}` is registered only when {guard} and no literal text mentions it: cannot decide who relies on it")
    ctx.floor("R7", "registered names", n, 80)


MUTANTS = [
    {"name": "leeds-stick-only-for-accretion", "file": "naunet/reactions/leedsreaction.py", "old": '        self.register(\n            "sticking_coefficient1",', "new": '        if self.reaction_type != self.ReactionType.LEEDS_FR:\n            return\n        self.register(\n            "sticking_coefficient1",', "rules": ["R7"]},
    {"name": "uclchem-h2form-conditional", "file": "naunet/reactions/uclchemreaction.py", "old": '        self.register("radiation_field", ', "new": '        if self.reaction_type == self.ReactionType.UCLCHEM_PH:\n          self.register("radiation_field", ', "rules": ["R7"]},
    {"name": "register-line-deleted", "file": HH, "old": '        self.register("surface_hopping_ratio", (f"hop{group}", 0.3, vt.param))\n', "new": "", "rules": ["R1"]},
    {"name": "derived-order", "edits": [
        {"file": HH, "old": '        self.register(\n            "surface_sites_density",\n            (f"densites{group}", f"garea{group} * sites{group}", vt.derived),\n        )\n', "new": ""},
        {"file": HH, "old": '        # TODO: get mantle density by group\n        self.register(\n            "mantle_number_density",', "new": '        self.register(\n            "surface_sites_density",\n            (f"densites{group}", f"garea{group} * sites{group}", vt.derived),\n        )\n        # TODO: get mantle density by group\n        self.register(\n            "mantle_number_density",'}], "rules": ["R3"]},
    {"name": "evalrates-components-reduced", "file": RATES, "old": "    {% set components = network.reactions + network.grains -%}\n    {% for key, value in components | collect_variable_items(\"deriveds\") -%}", "new": "    {% set components = network.reactions -%}\n    {% for key, value in components | collect_variable_items(\"deriveds\") -%}", "rules": ["R5"]},
    {"name": "params-after-deriveds", "file": RATES, "old": "    {% set components = network.reactions + network.grains -%}\n    {% for key, _ in components | collect_variable_items(\"params\") -%}\n        realtype {{ key }} = u_data->{{ key }};\n    {% endfor %}\n\n    {% set components = network.reactions + network.grains -%}\n    {% for key, value in components | collect_variable_items(\"deriveds\") -%}\n        realtype {{ key }} = {{ value }};\n    {% endfor %}\n",
     "new": "    {% set components = network.reactions + network.grains -%}\n    {% for key, value in components | collect_variable_items(\"deriveds\") -%}\n        realtype {{ key }} = {{ value }};\n    {% endfor %}\n\n    {% set components = network.reactions + network.grains -%}\n    {% for key, _ in components | collect_variable_items(\"params\") -%}\n        realtype {{ key }} = u_data->{{ key }};\n    {% endfor %}\n", "rules": ["R5"]},
    {"name": "symbol-renamed-in-one-use", "file": HH, "old": 'f"layers{group}",\n                f"mant{group}/(nMono{group}*densites{group})",', "new": 'f"layers{group}",\n                f"mantle{group}/(nMono{group}*densites{group})",', "rules": ["R2"]},
    {"name": "collect-one-per-class", "file": UTIL, "old": "    for comp in complist:\n        var_dict = getattr(comp, var_type)", "new": "    seen = set()\n    for comp in complist:\n        if type(comp) in seen:\n            continue\n        seen.add(type(comp))\n        var_dict = getattr(comp, var_type)", "rules": ["R5"]},
    {"name": "leeds-literal-of-other-class", "file": "naunet/reactions/leedsreaction.py", "old": 'rate = f"{a} * (zeta_cr + zeta_xr) / zism"', "new": 'rate = f"{a} * (zeta + zeta_xr) / zism"', "rules": ["R2"]},
    {"name": "kind-clash", "file": "naunet/reactions/uclchemreaction.py", "old": 'self.register("radiation_field", ("G0", 1.0, vt.param))', "new": 'self.register("radiation_field", ("G0", 1.0, vt.constant))', "rules": ["R4"]},
    {"name": "physics-definition-removed", "file": PHYS_C, "old": "double GetCharactWavelength(", "new": "double GetCharacteristicWavelength(", "rules": ["R2"]},
    {"name": "fex-derived-loop-over-params-list", "file": FEX, "old": "    {% set components = network.reactions + network.grains + network.heating + network.cooling -%}\n    {% for key, value in components | collect_variable_items(\"deriveds\") -%}\n        realtype {{ key }} = {{ value }};\n    {% endfor %}\n\n#if (NHEATPROCS || NCOOLPROCS)\n    if (mu < 0) mu = GetMu(y);",
     "new": "    {% set components = network.reactions + network.grains -%}\n    {% for key, value in components | collect_variable_items(\"deriveds\") -%}\n        realtype {{ key }} = {{ value }};\n    {% endfor %}\n\n#if (NHEATPROCS || NCOOLPROCS)\n    if (mu < 0) mu = GetMu(y);", "rules": ["R5"]},
    {"name": "collect-chain-skips-first-component", "file": UTIL, "old": '    variables = OrderedDict()\n    for comp in complist:\n        var_dict = getattr(comp, var_type)\n        for key, value in var_dict.items():\n            variables[key] = value\n    return variables.items()\n', "new": "    import itertools\n    merged = OrderedDict(itertools.chain.from_iterable(getattr(comp, var_type).items() for comp in complist[1:]))\n    return merged.items()\n", "rules": ["R5"]},
    {"name": "collect-comprehension-filtered", "file": UTIL, "old": '    variables = OrderedDict()\n    for comp in complist:\n        var_dict = getattr(comp, var_type)\n        for key, value in var_dict.items():\n            variables[key] = value\n    return variables.items()\n', "new": "    return {key: value for comp in complist if comp for key, value in getattr(comp, var_type).items()}.items()\n", "rules": ["R5"]},
    {"name": "register-table-row-dropped", "edits": [
        {"file": RR, "old": '        self.register("photon_desorption_option", (f"opt_uvd{group}", 1.0, vt.param))\n        self.register("H2_desorption_option", (f"opt_h2d{group}", 1.0, vt.param))\n', "new": '        for name, stem, default in self._switches:\n            self.register(name, (f"{stem}{group}", default, vt.param))\n'},
        {"file": RR, "old": '    model = "rr07"\n', "new": '    model = "rr07"\n    _switches = (("photon_desorption_option", "opt_uvd", 1.0),)\n'}], "rules": ["R1"]},
]
TL = "naunet/templateloader.py"
_DERIVEDS_LOOP = '    {% set components = network.reactions + network.grains -%}\n    {% for key, value in components | collect_variable_items("deriveds") -%}\n'


def _pruned_by_use(when):
    """EvalRates declares only the derived quantities named in ode.used, a set of identifiers taken from the rate statements
    `when` = "before" / "after" the rate_modifier overrides are written into them"""
    take = "        used = set(__import__('re').findall(r'[A-Za-z_]\\w*', ' '.join(rateeqns)))\n"
    loop = '        for idx, reac in enumerate(reactions):\n            for key, value in rate_modifier.items():\n                if key == reac.idxfromfile:\n                    logging.warning(f"Overwirte the rate of: `{reac}` with {value}")\n                    rateeqns[idx] = f"{rate_sym}[{idx}] = {value};"\n'
    return [
        {"file": TL, "old": "        jac: TemplateLoader.Jacobian\n\n    @dataclass\n    class RenormContent:", "new": "        jac: TemplateLoader.Jacobian\n        used: set = None\n\n    @dataclass\n    class RenormContent:"},
        {"file": TL, "old": loop, "new": (take + loop) if when == "before" else (loop + take)},
        {"file": TL, "old": "        return self.ODEContent(rateeqns, hrateeqns, crateeqns, fex, jac)", "new": "        return self.ODEContent(rateeqns, hrateeqns, crateeqns, fex, jac, used)"},
        {"file": RATES, "old": _DERIVEDS_LOOP, "new": _DERIVEDS_LOOP.replace('("deriveds") -%}', '("deriveds") | only_used(ode.used) -%}')},
    ]


MUTANTS += [
    # R10: declarations dropped by a built-in selection
    {"name": "deriveds-loop-selects", "file": RATES, "old": _DERIVEDS_LOOP, "new": _DERIVEDS_LOOP.replace('("deriveds") -%}', '("deriveds") | selectattr(1) -%}'), "rules": ["R10"]},
    {"name": "params-loop-conditional", "file": FEX, "old": '    {% for key, _ in components | collect_variable_items("params") -%}\n', "new": '    {% for key, _ in components | collect_variable_items("params") if key != "mu" -%}\n', "count": 2, "rules": ["R10"]},
    # R10: declarations pruned by the symbols the rate statements use, collected BEFORE the rate_modifier overrides are written
    {"name": "deriveds-pruned-by-stale-use-set", "edits": _pruned_by_use("before"), "rules": ["R10"]},
]
MUTANTS += [
    # R11: a cooling process with a temperature window -- the renderer's `if (Tgas>=..)` lands in EvalCoolingRates, which has no Tgas
    {"name": "thermal-process-with-temperature-window", "edits": [
        {"file": TPROC, "old": "        rate: str,\n    ) -> None:", "new": "        rate: str,\n        temp_min: float = -1.0,\n    ) -> None:"},
        {"file": TPROC, "old": "        self.temp_min = -1.0\n", "new": "        self.temp_min = temp_min\n"},
        {"file": TPROC, "old": 'HeIIRecombinationCooling = ThermalProcess(["He+", "e-"], "1.55e-26 * pow(Temp, 0.3647)")', "new": 'HeIIRecombinationCooling = ThermalProcess(["He+", "e-"], "1.55e-26 * pow(Temp, 0.3647)", temp_min=10.0)'}], "rules": ["R11"]},
    {"name": "thermal-process-window-constant-on", "file": TPROC, "old": "        self.temp_max = -1.0\n", "new": "        self.temp_max = 1.0e9\n", "rules": ["R11"]},
    {"name": "renderer-window-on-dust-temperature", "file": TLOADER, "old": 'f"Tgas<{r.temp_max}" if r.temp_max > 0', "new": 'f"Tdust<{r.temp_max}" if r.temp_max > 0', "rules": ["R11"]},
]
JAC = "naunet/templates/cvode/src/naunet_jac.cpp.j2"
_EVALRATES_LOOPS = ('    {% set components = network.reactions + network.grains -%}\n    {% for key, _ in components | collect_variable_items("params") -%}\n        realtype {{ key }} = u_data->{{ key }};\n    {% endfor %}\n\n'
                    '    {% set components = network.reactions + network.grains -%}\n    {% for key, value in components | collect_variable_items("deriveds") -%}\n        realtype {{ key }} = {{ value }};\n    {% endfor %}\n')
_DECL_MACROS = ('{% macro declare_params(components, ctype="realtype", indent=4) -%}\n{% for name, _ in components | collect_variable_items("params") -%}\n{{ " " * indent }}{{ ctype }} {{ name }} = u_data->{{ name }};\n{% endfor %}\n{%- endmacro %}\n'
                '{% macro declare_deriveds(components, ctype="realtype", indent=4) -%}\n{% for name, expr in components | collect_variable_items("deriveds") -%}\n{{ " " * indent }}{{ ctype }} {{ name }} = {{ expr }};\n{% endfor %}\n{%- endmacro %}\n'
                '{% macro declare_locals(components, ctype="realtype", indent=4) -%}\n{{ declare_params(components, ctype, indent) }}\n{{ declare_deriveds(components, ctype, indent) }}\n{%- endmacro %}\n')
MUTANTS += [
    {"name": "physics-helper-only-for-networks-with-ice", "file": PHYS_H, "old": "{{ spec }}double GetMantleDens(double *y);\n",
     "new": '{% if network.species | selectattr("is_surface") | list %}\n{{ spec }}double GetMantleDens(double *y);\n{% endif %}\n', "rules": ["R2"]},
    {"name": "jacobian-declares-grains-before-reactions", "file": JAC, "old": "{% set components = network.reactions + network.grains + network.heating + network.cooling -%}",
     "new": "{% set components = network.grains + network.reactions + network.heating + network.cooling -%}", "count": 6, "rules": ["R5"]},
]
BENIGN = [
    {"name": "declarations-through-nested-macros", "edits": [
        {"file": RATES, "old": _EVALRATES_LOOPS, "new": "{{ declare_locals(network.reactions + network.grains) }}\n"},
        {"file": RATES, "old": '{% if general.device == "gpu" -%} __device__ {% endif -%}\nint EvalRates(', "new": _DECL_MACROS + '{% if general.device == "gpu" -%} __device__ {% endif -%}\nint EvalRates('}]},
    {"name": "init-guard-clause-raises", "file": "naunet/reactions/uclchemreaction.py", "old": '        super().__init__(react_string=react_string)\n\n        self.register("ism_cosmic_ray_ionization_rate", ("zism", 1.3e-17, vt.constant))\n',
     "new": '        super().__init__(react_string=react_string)\n        if self.reaction_type is None:\n            raise ValueError("reaction type not set")\n\n        self.register("ism_cosmic_ray_ionization_rate", ("zism", 1.3e-17, vt.constant))\n'},
    {"name": "thermal-process-window-parameters-unused", "edits": [
        {"file": TPROC, "old": "        rate: str,\n    ) -> None:", "new": "        rate: str,\n        temp_min: float = -1.0,\n    ) -> None:"},
        {"file": TPROC, "old": "        self.temp_min = -1.0\n", "new": "        self.temp_min = temp_min\n"}]},
    {"name": "thermal-process-window-as-class-attributes", "edits": [
        {"file": TPROC, "old": "        self.temp_min = -1.0\n        self.temp_max = -1.0\n", "new": ""},
        {"file": TPROC, "old": "class ThermalProcess(Component):\n", "new": "class ThermalProcess(Component):\n    temp_min = -1.0\n    temp_max = -1.0\n\n"}]},
    {"name": "renderer-windows-in-helper", "edits": [
        {"file": TLOADER, "old": '        ltranges = [f"Tgas>={r.temp_min}" if r.temp_min > 0 else "" for r in reactions]\n', "new": '        ltranges = [self._lower_bound(r) for r in reactions]\n'},
        {"file": TLOADER, "old": "    def _assign_rates(\n", "new": '    def _lower_bound(self, r):\n        if r.temp_min > 0:\n            return f"Tgas>={r.temp_min}"\n        return ""\n\n    def _assign_rates(\n'}]},
    {"name": "component-list-variable-renamed", "file": RATES, "old": "components", "new": "providers", "count": 12},
    {"name": "component-list-inlined", "file": RATES, "old": "    {% set components = network.reactions + network.grains -%}\n    {% for key, _ in components | collect_variable_items(\"params\") -%}", "new": "    {% for key, _ in (network.reactions + network.grains) | collect_variable_items(\"params\") -%}"},
    {"name": "leeds-register-in-both-arms", "file": "naunet/reactions/leedsreaction.py", "old": '        self.register("radiation_field", ("G0", 1.0, vt.param))\n', "new": '        if self.rtype == 4:\n            self.register("radiation_field", ("G0", 1.0, vt.param))\n        else:\n            self.register("radiation_field", ("G0", 1.0, vt.param))\n'},
    {"name": "unrelated-registers-reordered", "file": HH, "old": '        self.register("habing_field_photon_number", ("habing", 1e8, vt.constant))\n        self.register("cosmic_ray_induced_photon_number", ("crphot", 1e4, vt.constant))\n', "new": '        self.register("cosmic_ray_induced_photon_number", ("crphot", 1e4, vt.constant))\n        self.register("habing_field_photon_number", ("habing", 1e8, vt.constant))\n'},
    {"name": "collect-as-chained-items", "file": UTIL, "old": '    variables = OrderedDict()\n    for comp in complist:\n        var_dict = getattr(comp, var_type)\n        for key, value in var_dict.items():\n            variables[key] = value\n    return variables.items()\n', "new": "    import itertools\n    per_component = (getattr(comp, var_type).items() for comp in complist)\n    merged = OrderedDict(itertools.chain.from_iterable(per_component))\n    return merged.items()\n"},
    {"name": "collect-as-dict-comprehension", "file": UTIL, "old": '    variables = OrderedDict()\n    for comp in complist:\n        var_dict = getattr(comp, var_type)\n        for key, value in var_dict.items():\n            variables[key] = value\n    return variables.items()\n', "new": "    return {key: value for comp in complist for key, value in getattr(comp, var_type).items()}.items()\n"},
    {"name": "registrations-from-class-level-table", "edits": [
        {"file": RR, "old": '        self.register("photon_desorption_option", (f"opt_uvd{group}", 1.0, vt.param))\n        self.register("H2_desorption_option", (f"opt_h2d{group}", 1.0, vt.param))\n', "new": '        for name, stem, default in self._switches:\n            self.register(name, (f"{stem}{group}", default, vt.param))\n'},
        {"file": RR, "old": '    model = "rr07"\n', "new": '    model = "rr07"\n    _switches = (("photon_desorption_option", "opt_uvd", 1.0), ("H2_desorption_option", "opt_h2d", 1.0))\n'}]},
    {"name": "registrations-through-helper-handed-a-dict-table", "edits": [
        {"file": RR, "old": '        self.register("photon_desorption_option", (f"opt_uvd{group}", 1.0, vt.param))\n        self.register("H2_desorption_option", (f"opt_h2d{group}", 1.0, vt.param))\n', "new": '        self._register_rows(self._switches, group, vt.param)\n'},
        {"file": RR, "old": '    model = "rr07"\n', "new": '    model = "rr07"\n    _switches = {"photon_desorption_option": ("opt_uvd", 1.0), "H2_desorption_option": ("opt_h2d", 1.0)}\n\n    def _register_rows(self, rows, suffix, kind):\n        for name, (stem, default) in rows.items():\n            self.register(name, (f"{stem}{suffix}", default, kind))\n'}]},
]

# ---- wave 4: everyday spellings of the renderer's window text / the merge of the components' mappings / table-driven registrations
_LT = '        ltranges = [f"Tgas>={r.temp_min}" if r.temp_min > 0 else "" for r in reactions]\n'
_UT = '        utranges = [f"Tgas<{r.temp_max}" if r.temp_max > 0 else "" for r in reactions]\n'
_AR = "    def _assign_rates(\n"
_COLLECT = '    variables = OrderedDict()\n    for comp in complist:\n        var_dict = getattr(comp, var_type)\n        for key, value in var_dict.items():\n            variables[key] = value\n    return variables.items()\n'
BENIGN += [
    {"name": "renderer-window-helper-with-guard-clause", "edits": [
        {"file": TLOADER, "old": _LT, "new": "        ltranges = [self._lower(r) for r in reactions]\n"},
        {"file": TLOADER, "old": _AR, "new": '    @staticmethod\n    def _lower(r):\n        lo = r.temp_min\n        if lo <= 0:\n            return ""\n        return f"Tgas>={lo}"\n\n' + _AR}]},
    {"name": "renderer-window-formatted-by-helper-guarded-by-caller", "edits": [
        {"file": TLOADER, "old": _LT, "new": '        ltranges = [self._bound(">=", r.temp_min) if r.temp_min > 0 else "" for r in reactions]\n'},
        {"file": TLOADER, "old": _UT, "new": '        utranges = [self._bound("<", r.temp_max) if r.temp_max > 0 else "" for r in reactions]\n'},
        {"file": TLOADER, "old": _AR, "new": '    def _bound(self, op, value):\n        return f"Tgas{op}{value}"\n\n' + _AR}]},
    {"name": "renderer-window-text-as-module-constant", "edits": [
        {"file": TLOADER, "old": _LT, "new": '        ltranges = [_LOWER.format(r.temp_min) if r.temp_min > 0 else "" for r in reactions]\n'},
        {"file": TLOADER, "old": "class TemplateLoader:\n", "new": '_LOWER = "Tgas>={}"\n\n\nclass TemplateLoader:\n'}]},
    {"name": "renderer-window-bounds-appended-in-static-helper", "edits": [
        {"file": TLOADER, "old": _LT + _UT, "new": ""},
        {"file": TLOADER, "old": '        tranges = [\n            "".join([lt, " && " if lt and ut else "", ut])\n            for lt, ut in zip(ltranges, utranges)\n        ]\n', "new": "        tranges = [self._window(reac) for reac in reactions]\n"},
        {"file": TLOADER, "old": _AR, "new": '    @staticmethod\n    def _window(reaction):\n        bounds = []\n        if reaction.temp_min > 0:\n            bounds.append(f"Tgas>={reaction.temp_min}")\n        if reaction.temp_max > 0:\n            bounds.append(f"Tgas<{reaction.temp_max}")\n        return " && ".join(bounds)\n\n' + _AR}]},
    {"name": "thermal-process-window-chained-named-constant", "edits": [
        {"file": TPROC, "old": "        self.temp_min = -1.0\n        self.temp_max = -1.0\n", "new": "        self.temp_min = self.temp_max = NO_LIMIT\n"},
        {"file": TPROC, "old": "class ThermalProcess(Component):\n", "new": "NO_LIMIT = -1.0\n\n\nclass ThermalProcess(Component):\n"}]},
    {"name": "collect-guard-clause-on-empty-list", "file": UTIL, "old": _COLLECT, "new": _COLLECT.replace("    for comp in complist:\n", "    if not complist:\n        return variables.items()\n    for comp in complist:\n")},
    {"name": "collect-skips-empty-mappings", "file": UTIL, "old": _COLLECT, "new": _COLLECT.replace("        for key, value in var_dict.items():\n", "        if not var_dict:\n            continue\n        for key, value in var_dict.items():\n")},
    {"name": "registrations-from-module-table-of-namedtuple-rows-with-method", "edits": [
        {"file": RR, "old": '        self.register("photon_desorption_option", (f"opt_uvd{group}", 1.0, vt.param))\n        self.register("H2_desorption_option", (f"opt_h2d{group}", 1.0, vt.param))\n', "new": '        for row in _SWITCHES:\n            self.register(row.name, row.bind(group))\n'},
        {"file": RR, "old": "class RR07Grain(Grain):\n", "new": 'class _Switch(NamedTuple):\n    name: str\n    symbol: str\n    value: float\n\n    def bind(self, suffix):\n        return (self.symbol.format(g=suffix), self.value, vt.param)\n\n\n'
         '_SWITCHES = (\n    _Switch("photon_desorption_option", "opt_uvd{g}", 1.0),\n    _Switch("H2_desorption_option", "opt_h2d{g}", 1.0),\n)\n\n\nclass RR07Grain(Grain):\n'},
        {"file": RR, "old": "from __future__ import annotations\n", "new": "from __future__ import annotations\nfrom typing import NamedTuple\n"}]},
]
MUTANTS += [
    {"name": "renderer-window-written-unconditionally", "edits": [
        {"file": TLOADER, "old": _LT, "new": '        ltranges = [f"Tgas>={r.temp_min}" for r in reactions]\n'},
        {"file": TLOADER, "old": _UT, "new": '        utranges = [f"Tgas<{r.temp_max}" for r in reactions]\n'}], "rules": ["R11"]},
    {"name": "renderer-window-helper-on-dust-temperature", "edits": [
        {"file": TLOADER, "old": _LT, "new": "        ltranges = [self._lower(r) for r in reactions]\n"},
        {"file": TLOADER, "old": _AR, "new": '    def _lower(self, r):\n        if r.temp_min <= 0:\n            return ""\n        return f"Tdust>={r.temp_min}"\n\n' + _AR}], "rules": ["R11"]},
    {"name": "collect-skips-a-kind-of-component", "file": UTIL, "old": _COLLECT, "new": _COLLECT.replace("        var_dict = getattr(comp, var_type)\n", '        if comp.__class__.__name__ == "Grain":\n            continue\n        var_dict = getattr(comp, var_type)\n'), "rules": ["R5"]},
]
