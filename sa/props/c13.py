"""C13 -- rate and ODE modifiers change exactly what the user targeted."""
from __future__ import annotations

import ast
import re

from ..odemodel import model, FILE, Y
from ..pymodel import package
from ..valueflow import Flow, as_map, lower, match, V, show, simp, subst, walk
from .c01 import report_problems, guards_ok, site_key, where

EXPLANATION = (
    "R1 the override loop visits every (reaction, modifier) pair, compares the modifier key with that reaction's idxfromfile by ==, "
    "and replaces rateeqns[i] / emits k[i] with the enumerate index i of that same reaction -- no break, no other writer of rateeqns; "
    "R2 key types agree end to end: idxfromfile is an int at every definition, RenderCommand converts TOML keys with int(), and the "
    "configuration writer emits string keys; R3 Network.reindex() assigns idxfromfile = position over the same reaction list and, for "
    "un-indexed networks, runs before _prepare_ode_content on the only path of TemplateLoader.render; R4 the ODE-modifier RHS site adds "
    "'+ (factor) * prod(y[IDX_dep])' to the row species.index(Species(name, **kwargs)) only, factors and dependency lists paired by zip, "
    "one abundance factor per listed dependency (with multiplicity); R5 the dictionary keys 'factors'/'reactants' agree between the "
    "option parser, the example data, the example command and the template loader; R6 the --ode-modifier parser accumulates: an entry is "
    "created only for a species seen for the first time and every term is appended to that entry (no update/overwrite/re-binding); R7 every "
    "store of a modifier table anywhere in the package (Network, configuration, commands) stores the whole table received -- nothing between "
    "the user and _prepare_ode_content filters or rewrites it (also not a helper between network.rate_modifier and the generator: R3); R1 also: the "
    "reaction to override is not looked up in a table with one slot per file index; R2 also: idxfromfile is written by the reaction parsers and by "
    "Network.reindex only, and never chosen by the truthiness of the raw index (0 is an index); R13 (shared with C14.R6) every Network method or property the renderer module reads "
    "(network.species, network.reactions, a position look-up such as network.where_index) that memoises its result is reset by every public edit of what it was computed from, so the "
    "positions an override lands on are those of the network as it is at this rendering.  Verdicts: VIOLATION only for a construct that was "
    "reconstructed completely and differs from the requirement; an arrangement that is not read answers UNRECOGNISED.")
ASSUMPTIONS = [
    "the Jacobian part of a modifier is C02.R1/R2",
    "option values containing the separators ':' ',' ';' are C20's residual",
]
ENGINES = ["pymodel", "valueflow", "odemodel"]

CONF = "naunet/configuration.py"
RENDER = "naunet/console/commands/render.py"
INIT = "naunet/console/commands/init.py"
EXAMPLE = "naunet/console/commands/example.py"
NETWORK = "naunet/network.py"


def check(ctx):
    m = model(ctx.tree)
    ctx.saw(FILE, "TemplateLoader._prepare_ode_content")
    _r1(ctx, m)
    _r2(ctx)
    _r3(ctx)
    _r4(ctx, m)
    _r5(ctx, m)
    _r6(ctx)
    _r7(ctx)
    from .c18 import render_reads_only
    render_reads_only(ctx, package(ctx.tree), "R8")
    # the command-line producer of the configuration keeps each modifier apart and whole (shared with C20.R4/R6/R7): separators agree,
    # the free-text expression is not cut, every ODE-modifier entry owns fresh lists
    from .c20 import _r4_r6_r7 as option_rules
    ctx.absorb(lambda sub: option_rules(sub, package(sub.tree)), "R9", only=lambda o: "modifier" in o.key and o.outcome != "MISSING")
    # occurrences count: no set / dict keyed by the species stands between a reactant list and the terms built from it
    from ..multiplicity import rule as multiplicity_rule
    multiplicity_rule(ctx, "R10", ['ode'], "the modifier term")
    _r11_name_tokenizers(ctx)
    # each rendering is computed from the network of that call: the renderer keeps no memo between two renderings (shared with C17.R7)
    from .c17 import stateless_renderer
    stateless_renderer(ctx, package(ctx.tree), "R12")
    # .. and what the renderer ASKS the network (`network.where_index(key)`, any method of Network called in templateloader.py) is
    # computed from the network as it is now: a memoising method is reset by every edit of what it was computed from (shared with
    # C14.R6).  A stale position table makes the override land on another reaction after remove_reaction.
    _r13_queries_fresh(ctx)


# ------------------------------------------------------------------ R6  command line: every term is accumulated

def _r6(ctx):
    pkg = package(ctx.tree)
    from .c20 import _init_handle, _alias_closure
    ih = _init_handle(pkg)          # parsing helpers the command may have been split into are put back
    ctx.saw(INIT, "InitCommand.handle")
    # by role: D = the local handed on as `ode_modifier=` (or the local it is a plain alias of); the loop = the outermost `for`
    # over the option occurrences (a local assigned from self.option("ode-modifier"))
    D = "(?:" + "|".join(map(re.escape, _alias_closure(ih, next((k.value.id for c in ast.walk(ih) if isinstance(c, ast.Call) for k in c.keywords if k.arg == "ode_modifier" and isinstance(k.value, ast.Name)), "ode_modifier")))) + ")"
    Dn = D[3:-1].split("|")[-1]
    from .c20 import _option_origins, _option_loops
    loops = _option_loops(ih, _option_origins(ih), "ode-modifier")
    if len(loops) != 1:
        ctx.missing("R6", "--ode-modifier loop", (INIT, ih.lineno), f"expected one loop over the --ode-modifier occurrences, found {len(loops)}")
        return
    problems, entry_alias, appends, creates = [], set(), set(), 0
    unsure = []

    # locals of the loop bound (once) to an expression that looks into the table -- `known = key in D`, `entry = D.get(key)`: a test
    # on such a local is a test on the table
    lstores = {}
    for x in ast.walk(loops[0]):
        if isinstance(x, ast.Name) and isinstance(x.ctx, ast.Store):
            lstores[x.id] = lstores.get(x.id, 0) + 1
    lookups = [a for a in ast.walk(loops[0]) if isinstance(a, ast.Assign) and len(a.targets) == 1 and isinstance(a.targets[0], ast.Name)
               and any(isinstance(x, ast.Name) and re.fullmatch(D, x.id) for x in ast.walk(a.value))]
    # (bound once -- or looked up once and given a default where the look-up found nothing: `e = D.get(k)` .. `if e is None: e = {..}`)
    via = {a.targets[0].id: a.value for a in lookups if sum(1 for b in lookups if b.targets[0].id == a.targets[0].id) == 1}

    def through_locals(test):
        import copy
        from ..normalize import _Subst
        return _Subst({k: copy.deepcopy(v) for k, v in via.items()}).visit(copy.deepcopy(test)) if via else test

    def about_key(target):
        """the names the entry's key is written with in `D[<key>] = ..`, and the locals of the loop computed from them"""
        names = {x.id for x in ast.walk(target.slice) if isinstance(x, ast.Name)}
        return names | {a.targets[0].id for a in ast.walk(loops[0]) if isinstance(a, ast.Assign) and len(a.targets) == 1 and isinstance(a.targets[0], ast.Name)
                        and any(isinstance(x, ast.Name) and x.id in names for x in ast.walk(a.value))}

    def absent_guard(test, pol):
        """does (test, polarity) say `key is not in D yet`?"""
        test = through_locals(test)
        for _ in range(3):                    # `not (..)` / `(..) is None` / `(..) is not None` around the look-up
            if isinstance(test, ast.UnaryOp) and isinstance(test.op, ast.Not):
                test, pol = test.operand, not pol
            elif isinstance(test, ast.Compare) and len(test.ops) == 1 and isinstance(test.ops[0], (ast.Is, ast.IsNot)) and isinstance(test.comparators[0], ast.Constant) \
                    and test.comparators[0].value is None and isinstance(test.left, ast.Call) and isinstance(test.left.func, ast.Attribute) and test.left.func.attr == "get":
                test, pol = test.left, (pol if isinstance(test.ops[0], ast.IsNot) else not pol)
            else:
                break
        # `k in D` / `k not in D` (read from the syntax tree: the text `knotinD` also ends in `inD`)
        if isinstance(test, ast.Compare) and len(test.ops) == 1 and isinstance(test.ops[0], (ast.In, ast.NotIn)) and isinstance(test.comparators[0], ast.Name) \
                and re.fullmatch(D, test.comparators[0].id) and isinstance(test.left, ast.Name):
            return pol if isinstance(test.ops[0], ast.NotIn) else not pol
        t = ast.unparse(test).replace(" ", "")
        if re.fullmatch(rf"{D}\.get\(\w+\)", t):
            return not pol
        if re.fullmatch(rf"not{D}\.get\(\w+\)", t):
            return pol
        return False

    def rec(stmts, guards):
        nonlocal creates
        for st in stmts:
            if isinstance(st, ast.If):
                rec(st.body, guards + [(st.test, True)])
                rec(st.orelse, guards + [(st.test, False)])
                continue
            if isinstance(st, (ast.For, ast.While)):
                rec(st.body, guards)
                rec(st.orelse, guards)
                continue
            if isinstance(st, (ast.With, ast.Try)):
                rec(getattr(st, "body", []), guards)
                continue
            for n in ast.walk(st):
                if isinstance(n, ast.Assign):
                    for t in n.targets:
                        if isinstance(t, ast.Name) and re.fullmatch(D, t.id):
                            problems.append((n.lineno, f"`{Dn}` is re-bound inside the loop over the option occurrences: earlier occurrences are forgotten"))
                        if isinstance(t, ast.Subscript) and re.fullmatch(D, ast.unparse(t.value)):
                            if any(absent_guard(g, p_) for g, p_ in guards):
                                creates += 1
                            elif any(Dn in ast.unparse(g) or any(re.fullmatch(D, x.id) or x.id in via or x.id in about_key(t) for x in ast.walk(g) if isinstance(x, ast.Name)) for g, _ in guards):
                                # (so is a test on the species' name spelled without the table: a set of names seen, a flag computed from the name)
                                # under a test on the table that is spelled another way (`.get(k) is None`, a count, ..): not read here
                                unsure.append((n.lineno, f"`{ast.unparse(t)} = ...` stands under `{ast.unparse(guards[-1][0])[:60]}`, which this rule does not read as `species not seen yet`"))
                            else:
                                problems.append((n.lineno, f"`{ast.unparse(t)} = ...` is not restricted to a species seen for the first time: it replaces the terms collected so far for that species"))
                    if isinstance(n.value, ast.Call) and isinstance(n.value.func, ast.Attribute) and n.value.func.attr == "setdefault" and re.fullmatch(D, ast.unparse(n.value.func.value)) \
                            and isinstance(n.targets[0], ast.Name):
                        entry_alias.add(n.targets[0].id)
                        creates += 1
                    # a local that stands for the species' entry: looked up (`e = D.get(k)` / `e = D[k]`), or stored as the entry (`D[k] = e`)
                    if isinstance(n.targets[0], ast.Name) and ((isinstance(n.value, ast.Call) and isinstance(n.value.func, ast.Attribute) and n.value.func.attr == "get"
                                                                and re.fullmatch(D, ast.unparse(n.value.func.value))) or
                                                               (isinstance(n.value, ast.Subscript) and re.fullmatch(D, ast.unparse(n.value.value)))):
                        entry_alias.add(n.targets[0].id)
                    if isinstance(n.targets[0], ast.Subscript) and re.fullmatch(D, ast.unparse(n.targets[0].value)) and isinstance(n.value, ast.Name):
                        entry_alias.add(n.value.id)
                if isinstance(n, ast.Call) and isinstance(n.func, ast.Attribute):
                    base = ast.unparse(n.func.value)
                    if n.func.attr in ("update", "__setitem__") and re.fullmatch(D, base) and any(absent_guard(g, p_) for g, p_ in guards):
                        creates += 1              # a new entry for a species seen for the first time, spelled as a call
                    elif n.func.attr in ("update", "clear", "pop", "popitem", "__setitem__") and re.fullmatch(D, base):
                        problems.append((n.lineno, f"`{Dn}.{n.func.attr}(...)` replaces whole entries: when a species is named in two --ode-modifier occurrences only the terms of the last one survive"))
                    if n.func.attr in ("append", "extend"):
                        m_ = re.fullmatch(rf"(?:{D}\[\w+\]|(\w+))\[['\"](\w+)['\"]\]", base)
                        if m_ and (m_.group(1) is None or m_.group(1) in entry_alias):
                            appends.add(m_.group(2))

    rec(loops[0].body, [])
    w = (INIT, loops[0].lineno)
    for ln, msg in problems:
        ctx.bad("R6", f"--ode-modifier: accumulate:{msg.split(':')[0][:50]}", (INIT, ln), msg, expected="append to the lists of the species' single entry")
    for ln, msg in unsure:
        ctx.unrec("R6", "--ode-modifier: accumulate", (INIT, ln), msg)
    if not problems and not unsure:
        ctx.ok("R6", "--ode-modifier: accumulate", w, "entries are only created for a species seen for the first time; nothing replaces an entry")
    if creates >= 1 and {"factors", "reactants"} <= appends:
        ctx.ok("R6", "--ode-modifier: terms appended to the species' own entry", w, "factor and dependency list of every term are appended to dict[species]")
    elif not problems:
        # nothing found that REPLACES an entry, and the appends were not found either: the accumulation is spelled in a way this rule does not read
        ctx.unrec("R6", "--ode-modifier: terms appended to the species' own entry", w, f"the appends to ['factors'] / ['reactants'] of the species' entry were not found (creates={creates} appends={sorted(appends)})")


# ------------------------------------------------------------------ R7  the tables are carried, never rewritten, between user and generator

MOD_ATTRS = {"rate_modifier", "ode_modifier", "_rate_modifier", "_ode_modifier", "_ratemodifier", "_odemodifier"}


def _whole_copy(v: ast.AST) -> bool:
    """value forms that carry a whole table: X, X.copy(), dict(X), copy.deepcopy(X), and `<that> if X else {}`"""
    if isinstance(v, ast.IfExp):
        return all(_whole_copy(x) or ast.unparse(x) in ("{}", "dict()") for x in (v.body, v.orelse))
    if isinstance(v, (ast.Name, ast.Attribute)):
        return True
    if isinstance(v, ast.Call):
        f = ast.unparse(v.func)
        if isinstance(v.func, ast.Attribute) and v.func.attr == "copy" and not v.args:
            return _whole_copy(v.func.value)
        if f in ("dict", "copy.deepcopy", "deepcopy", "copy.copy") and len(v.args) == 1 and not v.keywords:
            return _whole_copy(v.args[0])
    return False


def _package_helper(pkg, file, cls, call):
    """(callee, receiver) of a call to a function of the same module / a method of the same class reached through self or cls"""
    fn = call.func
    if isinstance(fn, ast.Name) and (file, fn.id) in pkg.functions:
        return pkg.functions[(file, fn.id)], None
    if isinstance(fn, ast.Name) and fn.id in pkg.imports.get(file, {}):
        # .. or imported from another module of the package (`from .configuration import _copy_or_new`)
        from ..ratemodel import RateModel
        try:
            tgt = RateModel.imported_from(type("_P", (), {"pkg": pkg})(), file, fn.id)
        except Exception:
            tgt = None
        if tgt is not None and tgt in pkg.functions:
            return pkg.functions[tgt], None
    if cls and isinstance(fn, ast.Attribute) and isinstance(fn.value, ast.Name) and fn.value.id in ("self", "cls") and cls in pkg.classes:
        _, callee = pkg.resolve(cls, fn.attr)
        if callee is not None:
            return callee, fn.value
    return None


def _helpers_inlined(pkg, file, cls, value):
    """the expression with calls to one-expression helpers of the package replaced by what they return (sa.normalize)"""
    import copy
    from ..normalize import _ExprInliner
    return _ExprInliner(lambda c: _package_helper(pkg, file, cls, c), None).visit(copy.deepcopy(value))


def _r7(ctx):
    pkg = package(ctx.tree)
    from .c20 import straighten
    n = 0
    for f in pkg.files:
        if not f.startswith("naunet/") or f.startswith("naunet/examples/") or not f.endswith(".py"):
            continue
        mod = pkg.modules[f]
        ctx.saw(f)

        def visit(node, qual):
            nonlocal n
            for ch in ast.iter_child_nodes(node):
                if isinstance(ch, ast.ClassDef):
                    visit(ch, ch.name)
                elif isinstance(ch, (ast.FunctionDef, ast.AsyncFunctionDef)):
                    # one store per statement: tuple assignments split, `if c: T = a else: T = b` as `T = a if c else b`, a value hoisted
                    # into a once-used local back where it is stored
                    visit(straighten(ch), f"{qual}.{ch.name}" if qual else ch.name)
                else:
                    if isinstance(ch, (ast.Assign, ast.AugAssign, ast.AnnAssign)):
                        tgts = ch.targets if isinstance(ch, ast.Assign) else [ch.target]
                        for t in tgts:
                            if isinstance(t, ast.Attribute) and t.attr in MOD_ATTRS:
                                n += 1
                                key = f"{qual}:{ast.unparse(t)}"
                                val = _helpers_inlined(pkg, f, qual.split(".")[0] if "." in qual else None, ch.value) if ch.value is not None else None
                                from .c20 import carries_whole
                                verdict = carries_whole(val) if val is not None and not isinstance(ch, ast.AugAssign) else ("unknown", "augmented assignment")
                                whole = verdict[0] == "ok"
                                owner_self = isinstance(t.value, ast.Name) and t.value.id == "self"
                                if whole:
                                    ctx.ok("R7", key, (f, ch.lineno), "the whole table is stored (copy)")
                                elif isinstance(val, ast.Call) and _package_helper(pkg, f, qual.split(".")[0] if "." in qual else None, val) is not None and not isinstance(ch, ast.AugAssign):
                                    # a helper of the package with statements of its own: judged by what each of its returns hands back
                                    callee = _package_helper(pkg, f, qual.split(".")[0] if "." in qual else None, val)[0]
                                    verdicts = []
                                    for r_ in [x for x in ast.walk(callee) if isinstance(x, ast.Return) and x.value is not None]:
                                        rv = r_.value
                                        if _whole_copy(rv) or ast.unparse(rv) in ("{}", "dict()"):
                                            verdicts.append(("ok", r_))
                                        elif isinstance(rv, (ast.DictComp, ast.ListComp)) and len(rv.generators) == 1:
                                            g_ = rv.generators[0]
                                            if g_.ifs:
                                                verdicts.append(("filtered", r_))
                                            elif isinstance(rv, ast.DictComp) and isinstance(rv.value, ast.Name) and re.fullmatch(r"(int|str)\(\w+\)|\w+", ast.unparse(rv.key)):
                                                verdicts.append(("ok", r_))
                                            else:
                                                verdicts.append(("unknown", r_))
                                        else:
                                            verdicts.append(("unknown", r_))
                                    flt = [r_ for v_, r_ in verdicts if v_ == "filtered"]
                                    if flt:
                                        ctx.bad("R7", key, (f, flt[0].lineno), f"the table is stored through `{ast.unparse(val.func)}(..)`, which DROPS entries (`{ast.unparse(flt[0].value)[:80]}`): a modifier "
                                                "whose value is falsy -- the number 0 that switches a reaction off -- never reaches the generator, and the reaction keeps its tabulated rate",
                                                expected="every entry of the table received", found=ast.unparse(flt[0].value)[:120])
                                    elif verdicts and all(v_ == "ok" for v_, _ in verdicts):
                                        ctx.ok("R7", key, (f, ch.lineno), f"`{ast.unparse(val.func)}(..)` hands back the whole table on every return")
                                    else:
                                        ctx.unrec("R7", key, (f, ch.lineno), f"the table is stored through the helper `{ast.unparse(val.func)}(..)`, whose body this rule cannot reduce to an expression")
                                elif verdict[0] == "filtered":
                                    ctx.bad("R7", key, (f, ch.lineno), ("the network's modifier table is replaced by a rewritten one" if not owner_self else "the stored modifier table is not the whole table given") +
                                            f" ({verdict[1]}): entries the user supplied can vanish between the configuration file and the generator (keys are matched against idxfromfile only inside "
                                            "_prepare_ode_content, after re-indexing)", expected="X.copy() of the table received", found=ast.unparse(val)[:120] if val is not None else "")
                                else:
                                    ctx.unrec("R7", key, (f, ch.lineno), f"cannot tell whether the whole modifier table is stored: {verdict[1]}")
                    visit(ch, qual)
        visit(mod, "")
    ctx.floor("R7", "stores of a modifier table", n, 8)
    # the getters hand out the stored table itself
    for attr, store in (("rate_modifier", "_rate_modifier"), ("ode_modifier", "_ode_modifier")):
        ci = pkg.cls("Network")
        getters = [fn for fn in ci.node.body if isinstance(fn, ast.FunctionDef) and fn.name == attr and any(ast.unparse(d) == "property" for d in fn.decorator_list)]
        rets = [x for x in ast.walk(straighten(getters[0])) if isinstance(x, ast.Return)] if len(getters) == 1 else []
        def bare(v):
            """the table a whole-copy expression carries: X for X, X.copy(), dict(X), copy.deepcopy(X)"""
            while isinstance(v, ast.Call) and _whole_copy(v):
                v = v.func.value if isinstance(v.func, ast.Attribute) and v.func.attr == "copy" and not v.args else v.args[0]
            return v
        ok = bool(rets) and all(x.value is not None and _whole_copy(x.value) and ast.unparse(bare(x.value)) == f"self.{store}" for x in rets)
        # understood and wrong: a return of ANOTHER stored table, or of a filtered view; anything else (a proxy, a local) is not read here
        from .c20 import carries_whole
        sure = bool(rets) and any(x.value is not None and ((_whole_copy(x.value) and ast.unparse(bare(x.value)).startswith("self._") and ast.unparse(bare(x.value)) != f"self.{store}")
                                                            or carries_whole(x.value)[0] == "filtered") for x in rets)
        if ok:
            ctx.ok("R7", f"Network.{attr} getter", (NETWORK, getters[0].lineno), "the property returns the stored table")
        elif sure:
            ctx.bad("R7", f"Network.{attr} getter", (NETWORK, getters[0].lineno), "the property does not return the stored table", expected=f"return self.{store}", found="; ".join(ast.unparse(x.value)[:60] for x in rets if x.value is not None))
        else:
            ctx.unrec("R7", f"Network.{attr} getter", (NETWORK, getters[0].lineno if getters else 0), "the getter's return value is not an expression this rule reads: " + "; ".join(ast.unparse(x.value)[:60] for x in rets if x.value is not None))


def _r1(ctx, m):
    fl = m.flow
    W = (FILE, m.func.lineno)
    # by role: the local that receives self._assign_rates(...) (the list of `k[i] = ...;` statements)
    rname = "rateeqns"
    for nm, lst in fl.assigns.items():
        if lst and lst[0][0][0] == "meth" and lst[0][0][2] == "_assign_rates" and any(simp(a) == m.REAC for a in lst[0][0][3]):
            rname = nm
    stores = [f for f in fl.facts if f.target == rname and f.kind not in ("init",)]
    # the stored statement may be composed by a small helper method (`self._statement(sym, idx, value)`): what the helper returns
    # for these arguments, case by case -- the rules below read that value
    pkg = package(ctx.tree)
    stored = {}
    for f in stores:
        v = f.value
        if f.kind == "store" and v is not None and v[0] == "meth" and v[1] in (("param", "self"), ("param", "cls")) and len(v) == 5:
            _, callee = pkg.resolve("TemplateLoader", v[2])
            inl = fl._inline(callee, v[3], dict(v[4])) if callee is not None and all(k != "**" for k, _ in v[4]) else None
            if inl is not None:
                v = inl
        stored[id(f)] = v
    _truthiness_selection(ctx, m, [(stored[id(f)], f.line) for f in stores if stored[id(f)] is not f.value])
    if len(stores) != 1:
        # several writers (or none): the arrangement is not the one read below -- each writer found is still judged on its own
        (ctx.unrec if stores else ctx.missing)("R1", "rateeqns:writers", W,
                                               f"expected exactly one override store into rateeqns, found {len(stores)} ({[f.kind + '@' + str(f.line) for f in stores]})")
    RM = ("param", "rate_modifier")
    for f in stores:
        w = (FILE, f.line)
        if f.kind != "store":
            if f.kind in ("remove", "mutate") or (f.op in ("insert", "pop", "remove", "sort", "reverse")):
                ctx.bad("R1", f"rateeqns:{f.kind}", w, f"rateeqns is modified by `{f.op or f.kind}`, which moves or drops entries: statement i no longer belongs to reaction i")
            else:
                ctx.unrec("R1", f"rateeqns:{f.kind}", w, f"rateeqns is modified by `{f.op or f.kind}` instead of a store into entry i: not read here")
            continue
        loops = list(f.loops)
        its = [simp(l.iter) for l in loops]
        enum = [l for l, it in zip(loops, its) if it == ("call", ("global", "enumerate"), (m.REAC,), ())]
        items = [l for l, it in zip(loops, its) if it == ("meth", RM, "items", (), ())]
        ok_loops = len(loops) == 2 and len(enum) == 1 and len(items) == 1
        # understood and wrong: one of the loops runs over a recognisably partial view (a slice, a filtered comprehension) of the
        # reactions / of the modifier table; any other arrangement (a lookup `rate_modifier.get(..)`, a helper, ..) is not read here
        def partial(it):
            if it[0] == "call" and it[1] == ("global", "enumerate") and it[2]:
                return partial(it[2][0])
            if it[0] == "sub" and it[2][0] == "slice":
                return True
            if it[0] == "filtered":
                return True
            mm = as_map(it) if it[0] in ("comp", "copy") else None
            return bool(mm) and bool(mm[3])
        if ok_loops:
            ctx.ok("R1", "override:loops", w, "the override store sits in the full product of enumerate(reactions) x rate_modifier.items() (every reaction meets every key)")
        elif any(partial(it) for it in its):
            ctx.bad("R1", "override:loops", w, "the override loops run over part of the reactions / of the modifier table only",
                    expected="for idx, reac in enumerate(reactions): for key, value in rate_modifier.items():", found="; ".join(show(i)[:70] for i in its))
        elif _index_keyed_tables(m.func, f.node):
            # understood and wrong: the reaction to override is looked up in a table with ONE slot per file index
            ln_, src_ = _index_keyed_tables(m.func, f.node)[0]
            ctx.bad("R1", "override:loops", (FILE, ln_), f"the reaction to override is looked up in `{src_}`, a table keyed by the file index with one slot per index: of several "
                    "reactions carrying the same index (one reaction split over temperature ranges) only the last gets the new rate, the others keep their tabulated one",
                    expected="every (reaction, modifier) pair is compared: for idx, reac in enumerate(reactions): for key, value in rate_modifier.items():", found=src_)
        else:
            ctx.unrec("R1", "override:loops", w, "the override store does not sit in the product enumerate(reactions) x rate_modifier.items(): " + "; ".join(show(i)[:70] for i in its))
        if not ok_loops:
            continue
        L1, L2 = enum[0].id, items[0].id
        reac = ("elem", m.REAC, L1)
        idx = ("idx", m.REAC, L1)
        want_guard = ("cmp", ("Eq",), (("key", RM, L2), ("attr", reac, "idxfromfile")))
        g = [(simp(c), p) for c, p in f.guards if not vacuous_guard(simp(c), p, its)]
        g_ok = len(g) == 1 and g[0][1] is True and (g[0][0] == want_guard or g[0][0] == ("cmp", ("Eq",), (want_guard[2][1], want_guard[2][0])))
        # understood and wrong: conditions made of comparisons / attributes / loop variables only that differ from the one required; a
        # condition that goes through a call (a predicate helper, a membership test in a computed set) is not read here
        from ..valueflow import walk as _walk
        plain = lambda v: not any(isinstance(x, tuple) and x and x[0] in ("call", "meth", "unknown", "acc", "carried", "lambda") for x in _walk(v))
        g_sure = all(plain(c) for c, _ in g)
        if g_ok:
            ctx.ok("R1", "override:guard", w, "an override applies iff key == reac.idxfromfile (equality, same reaction)")
        elif g_sure:
            ctx.bad("R1", "override:guard", w, "an override applies iff key == reac.idxfromfile (equality, same reaction)",
                    expected="if key == reac.idxfromfile", found="; ".join(("" if p else "not ") + show(c)[:90] for c, p in g))
        else:
            ctx.unrec("R1", "override:guard", w, "the condition of the override is not a plain comparison this rule reads: " + "; ".join(("" if p else "not ") + show(c)[:90] for c, p in g))
        fi = simp(f.index)
        if fi == idx:
            ctx.ok("R1", "override:slot", w, "the replaced entry is rateeqns[idx] of the same reaction's enumerate index")
        elif plain(fi):
            ctx.bad("R1", "override:slot", w, "the replaced entry is rateeqns[idx] of the same reaction's enumerate index", expected="rateeqns[idx]", found=show(fi))
        else:
            ctx.unrec("R1", "override:slot", w, f"the index of the replaced entry is not read here: {show(fi)[:100]}")
        from ..valueflow import peval
        sv = simp(peval(stored[id(f)], {}))         # (conditions on constant arguments, e.g. a defaulted parameter, are decided)
        lw = lower(sv)
        okv = False
        if len(lw.holes) == 2 and not lw.seqs:
            hs = {k: (v[1] if v[0] == "fmt" else v) for k, v in lw.holes.items()}
            hi = [k for k, v in hs.items() if v == idx]
            hv = [k for k, v in hs.items() if v == ("val", RM, L2)]
            if hi and hv:
                okv = "".join(lw.text.split()) == f"k[{hi[0]}]={hv[0]};"
        # understood and wrong: a text whose holes are all values of these two loops (the position, the key, the new rate, the reaction's
        # own attributes) -- anything else in it (a symbol handed in from elsewhere, a piece built by a helper) is not read here
        roles = {idx: ("const", 0), ("val", RM, L2): ("const", 0), ("key", RM, L2): ("const", 0), reac: ("const", 0)}
        closed = not lw.seqs and all(plain(h_) and not any(isinstance(x, tuple) and x and x[0] in ("param", "global", "attr", "sub", "elem", "idx", "key", "val", "bv")
                                                           for x in _walk(subst(h_[1] if h_[0] == "fmt" else h_, roles))) for h_ in lw.holes.values())
        if not okv and (sv[0] not in ("fstr", "const", "join") or not closed):
            # not a piece of text this rule can read (built by a helper with loops, chosen by a run-time condition, ...)
            ctx.unrec("R1", "override:statement", w, f"the stored statement is not reconstructible as text: {show(sv)[:120]}")
        else:
            ctx.check(okv, "R1", "override:statement", w, "the statement assigns the user's expression to k[idx] of that reaction",
                      expected="k[{idx}] = {value};", found=lw.text)
        # no early exit from either loop
        # `continue` only skips the rest of one iteration (a guard clause); what leaves a loop early is break / return
        # what ends the pass over the REACTIONS early: a return inside either loop, or a break whose innermost loop is the reactions
        # loop.  (A break out of the loop over the modifier keys only skips the remaining keys for this reaction: the keys of a table
        # are distinct, no other key can match.)
        brk = [x for x in fl.facts if (x.kind == "return" and any(l.id in (L1, L2) for l in x.loops)) or
               (x.kind == "break" and x.loops and x.loops[-1].id == L1)]
        ctx.check(not brk, "R1", "override:no-early-exit", (FILE, brk[0].line if brk else f.line),
                  "the pass over the reactions is not left early: reactions sharing an index are all overridden",
                  found="; ".join(f"{x.kind}@{x.line}" for x in brk))


def vacuous_guard(c, pol, iterables) -> bool:
    """a test that holds whenever the loops it stands around run at all: the truthiness / a non-zero length of a sequence or table one of
    the loops iterates (`if rate_modifier:` around `for key, value in rate_modifier.items():`) -- it changes nothing about which pairs
    are visited"""
    if not pol:
        return False
    bases = set()
    for it in iterables:
        todo = [it]
        while todo:
            x = todo.pop()
            bases.add(x)
            if x[0] == "call" and x[1][0] == "global" and x[1][1] in ("enumerate", "zip", "list", "tuple", "iter", "tqdm"):
                todo += [a for a in x[2] if isinstance(a, tuple)]
            elif x[0] == "meth" and x[2] in ("items", "keys", "values") and not x[3]:
                todo.append(x[1])
    if c in bases:
        return True
    if c[0] == "call" and c[1] == ("global", "len") and len(c[2]) == 1 and c[2][0] in bases:
        return True
    if c[0] == "cmp" and len(c[1]) == 1 and len(c[2]) == 2 and c[2][0][0] == "call" and c[2][0][1] == ("global", "len") and len(c[2][0][2]) == 1 and c[2][0][2][0] in bases:
        return (c[1][0], c[2][1]) in ((("Gt"), ("const", 0)), (("NotEq"), ("const", 0)), (("GtE"), ("const", 1)))
    if c[0] == "cmp" and c[1] == ("IsNot",) and c[2][0] in bases and c[2][1] == ("const", None):
        return True
    return False


def _plain(*vals) -> bool:
    """closed expressions over loop variables, attributes, constants and operators: nothing the reconstruction gave up on, no call
    whose meaning this module does not know.  Only such a value may be judged WRONG."""
    from ..valueflow import walk as _w
    for v in vals:
        if v is None:
            return False
        for x in _w(v):
            if isinstance(x, tuple) and x and isinstance(x[0], str):
                if x[0] in ("unknown", "acc", "carried", "lambda", "after"):
                    return False
                if x[0] == "call" and not (x[1][0] == "global" and x[1][1] in ("all", "any", "enumerate", "zip", "len", "int", "str", "Species", "list", "tuple")):
                    return False
                if x[0] == "meth" and x[2] not in ("items", "keys", "values", "get", "index", "copy"):
                    return False
    return True


def _three(ctx, ok, sure, rule, key, where, msg, expected=None, found=None):
    if ok:
        ctx.ok(rule, key, where, msg)
    elif sure:
        ctx.bad(rule, key, where, msg, expected, found)
    else:
        ctx.unrec(rule, key, where, f"not a shape this rule reads ({msg[:80]}): {str(found)[:140]}")
    return bool(ok)


def _index_keyed_tables(fn, store=None):
    """[(line, source)] of tables with one slot per file index built in the function: `{r.idxfromfile: .. for ..}`, `dict(zip(<idxfromfile
    of the reactions>, ..))`, `t[r.idxfromfile] = ..` -- a multi-map (`t.setdefault(r.idxfromfile, []).append(..)`, lists as values) is not one.
    `store`: only the tables the statement `store` (the override store) reads by name -- a table of that kind kept for another purpose
    (a message about unknown keys, ..) says nothing about the override"""
    out = []
    used = {x.id for x in ast.walk(store) if isinstance(x, ast.Name)} if store is not None else None
    # (a local the store reads may itself be looked up in the table one statement earlier: `pos = where[key]`)
    if used is not None:
        for a in ast.walk(fn):
            if isinstance(a, ast.Assign) and any(isinstance(t, ast.Name) and t.id in used for t in a.targets):
                used = used | {x.id for x in ast.walk(a.value) if isinstance(x, ast.Name)}
    for n in ast.walk(fn):
        if isinstance(n, ast.Assign) and len(n.targets) == 1 and isinstance(n.targets[0], ast.Name) and isinstance(n.value, ast.DictComp) and isinstance(n.value.key, ast.Attribute) \
                and n.value.key.attr == "idxfromfile" and not isinstance(n.value.value, (ast.List, ast.ListComp)):
            if used is None or n.targets[0].id in used:
                out.append((n.lineno, ast.unparse(n.value)[:80]))
        elif isinstance(n, ast.Assign) and len(n.targets) == 1 and isinstance(n.targets[0], ast.Subscript) and isinstance(n.targets[0].slice, ast.Attribute) \
                and n.targets[0].slice.attr == "idxfromfile" and not isinstance(n.value, (ast.List, ast.ListComp)):
            if used is None or any(isinstance(x, ast.Name) and x.id in used for x in ast.walk(n.targets[0].value)):
                out.append((n.lineno, ast.unparse(n)[:80]))
    return out


def _truthiness_selection(ctx, m, extra=()):
    """Whether an override applies is a question of PRESENCE of the key; the override VALUE (a user expression, possibly the number
    0 that switches a reaction off) is never used as a condition.  Looked for wherever the modifier table travels: in
    _prepare_ode_content and in every method of TemplateLoader the table is handed to."""
    from ..valueflow import Flow, walk
    pkg = package(ctx.tree)
    todo = [(m.func, m.flow, {("param", "rate_modifier")})]
    for f in m.flow.facts:
        pass
    # callees that receive the table
    for v in [x for f in m.flow.facts if f.value is not None for x in walk(f.value)] + [x for lst in m.flow.assigns.values() for a in lst for x in walk(a[0])]:
        if isinstance(v, tuple) and len(v) == 5 and v[0] == "meth" and v[1] == ("param", "self"):
            _, callee = pkg.resolve("TemplateLoader", v[2])
            if callee is None:
                continue
            params = [a.arg for a in callee.args.args][1:]
            got = set()
            for i, a in enumerate(v[3]):
                if any(x == ("param", "rate_modifier") for x in walk(a)) and i < len(params):
                    got.add(("param", params[i]))
            for k, a in v[4]:
                if any(x == ("param", "rate_modifier") for x in walk(a)):
                    got.add(("param", k))
            if got and not any(c is callee for c, _, _ in todo):
                todo.append((callee, Flow(callee, FILE), got))
    n = 0
    for fn, fl, tables in todo:
        derived = set(tables)
        # locals that are the table itself (`x = table or {}`)
        def is_table(v):
            v = simp(v)
            return v in derived or (v[0] == "bool" and v[1] == "Or" and v[2] and v[2][0] in derived)

        def is_value(v):
            v = simp(v)
            if v[0] == "val" and is_table(v[1]):
                return True
            if v[0] == "meth" and v[2] == "get" and is_table(v[1]):
                return True
            if v[0] == "sub" and is_table(v[1]):
                return True
            if v[0] == "elem":          # an element of a list of looked-up values
                mm = as_map(v[1]) if v[1][0] in ("comp", "copy") else None
                return bool(mm) and is_value(mm[1])
            if v[0] == "bv":
                for lp in fl.all_loops.values():
                    if v in lp.bvals and is_value(lp.bvals[v]):
                        return True
            return False
        conds = []
        if fn is m.func:
            # values composed by a helper for the override store: the conditions inside them count as well
            for v_, line_ in extra:
                for x in walk(v_):
                    if isinstance(x, tuple) and x and x[0] in ("ifexp", "phi") and len(x) == 4:
                        conds.append((x[1], line_))
        for f in fl.facts:
            conds += [(c, f.line) for c, _ in f.guards]
            if f.value is not None:
                for x in walk(f.value):
                    if isinstance(x, tuple) and x:
                        if x[0] in ("ifexp", "phi") and len(x) == 4:
                            conds.append((x[1], f.line))
                        elif x[0] == "bool" and len(x) == 3:
                            conds += [(y, f.line) for y in x[2][:-1]]
                        elif x[0] == "comp":
                            conds += [(c, f.line) for g in x[3] for c in g[2]]
        for lst in fl.assigns.values():
            for a in lst:
                for x in walk(a[0]):
                    if isinstance(x, tuple) and x:
                        if x[0] in ("ifexp", "phi") and len(x) == 4:
                            conds.append((x[1], a[3]))
                        elif x[0] == "bool" and len(x) == 3:
                            conds += [(y, a[3]) for y in x[2][:-1]]
                        elif x[0] == "comp":
                            conds += [(c, a[3]) for g in x[3] for c in g[2]]
        for c, line in conds:
            c = simp(c)
            while c[0] == "unop" and c[1] == "Not":
                c = c[2]
            if is_value(c):
                n += 1
                ctx.bad("R1", f"{fn.name}:override chosen by truthiness", (FILE, line),
                        "the override VALUE is used as a condition: a modifier that sets a rate to the number 0 (or to an empty-looking value) is silently ignored and the "
                        "reaction keeps its tabulated law -- presence of the key (`key in table` / `is not None`) decides, not the value",
                        expected="test `key in rate_modifier` / `value is not None`", found=show(c)[:100])
    if not n:
        ctx.ok("R1", "override:presence-not-truthiness", (FILE, m.func.lineno), "no override value is used as a condition")


def _r2(ctx):
    pkg = package(ctx.tree)
    n = 0
    has_int_setter = False
    rc = pkg.classes.get("Reaction")
    if rc is not None:
        for fn_ in rc.node.body:
            if isinstance(fn_, ast.FunctionDef) and fn_.name == "idxfromfile" and any(ast.unparse(d).endswith(".setter") for d in fn_.decorator_list):
                has_int_setter = any(isinstance(c, ast.Call) and isinstance(c.func, ast.Name) and c.func.id == "int" for c in ast.walk(fn_))
    from .c20 import straighten_module
    for f in pkg.files:
        # one store per statement, the value where it is stored (a value / an iterable hoisted into a once-used local is put back)
        mod = straighten_module(pkg, f) if "idxfromfile" in ctx.tree.read(f) else pkg.modules[f]
        for node in ast.walk(mod):
            if isinstance(node, ast.Assign):
                for t in node.targets:
                    if isinstance(t, ast.Attribute) and t.attr == "idxfromfile":
                        n += 1
                        v = node.value
                        src = ast.unparse(v)
                        ok = (isinstance(v, ast.Call) and isinstance(v.func, ast.Name) and v.func.id in ("int", "len")) or \
                            (isinstance(v, ast.Constant) and isinstance(v.value, int))
                        # (a property setter of the class that converts with int(..) makes every assignment an int)
                        if not ok and has_int_setter and isinstance(t.value, ast.Name) and t.value.id == "self":
                            ok = True
                        role = src[:40]
                        if isinstance(v, ast.Name):
                            fn = next((x for x in ast.walk(mod) if isinstance(x, ast.FunctionDef) and node in list(ast.walk(x))), None)
                            # an enumerate counter, or the parameter `idxfromfile` (int by default and annotation)
                            is_counter = fn is not None and any(isinstance(x, ast.For) and isinstance(x.iter, ast.Call) and ast.unparse(x.iter.func) == "enumerate"
                                                                and isinstance(x.target, ast.Tuple) and ast.unparse(x.target.elts[0]) == v.id for x in ast.walk(fn))
                            # (.. or the variable of a loop over range(..): a position)
                            is_counter = is_counter or (fn is not None and any(isinstance(x, ast.For) and isinstance(x.target, ast.Name) and x.target.id == v.id and isinstance(x.iter, ast.Call)
                                                                              and ast.unparse(x.iter.func) == "range" and node in list(ast.walk(x)) for x in ast.walk(fn)))
                            is_param = fn is not None and v.id == "idxfromfile" and v.id in [a.arg for a in fn.args.args]
                            ok = is_counter or is_param
                            role = "<enumerate counter>" if is_counter else v.id
                        # understood and wrong: a text value (str(..), a string literal, an f-string, a piece of a split line); a local of
                        # other origin / another call is not read here
                        texty = (isinstance(v, ast.Call) and isinstance(v.func, ast.Name) and v.func.id in ("str", "repr", "format")) or isinstance(v, ast.JoinedStr) or \
                            (isinstance(v, ast.Constant) and isinstance(v.value, (str, float))) or \
                            (isinstance(v, ast.Call) and isinstance(v.func, ast.Attribute) and v.func.attr in ("strip", "split", "format", "join", "lower", "upper"))
                        _three(ctx, ok, texty, "R2", f"{f}:idxfromfile = {role}", (f, node.lineno),
                               "idxfromfile is assigned an int (int(...) / enumerate counter / int parameter)", found=src[:60])
    ctx.floor("R2", "idxfromfile definitions", n, 6)
    # who writes the index: the parsers / constructors of the reaction classes (the file's own index field) and Network.reindex (the
    # position at rendering time, for networks without any index).  A position handed out anywhere else -- when a reaction is added,
    # say -- is not the position the reaction has when the rate statements are generated (reactions are removed, merged, re-ordered).
    for f in pkg.files:
        if f.startswith("naunet/reactions/") or f.startswith("naunet/examples/"):
            continue
        for fn_ in [x for x in ast.walk(pkg.modules[f]) if isinstance(x, (ast.FunctionDef, ast.AsyncFunctionDef))]:
            for node in ast.walk(fn_):
                if isinstance(node, (ast.Assign, ast.AugAssign)):
                    for t in (node.targets if isinstance(node, ast.Assign) else [node.target]):
                        if isinstance(t, ast.Attribute) and t.attr in ("idxfromfile", "_idxfromfile") and fn_.name != "reindex":
                            # a helper reindex() was split into (called from reindex only) is part of it; the position within an
                            # enumerate(..) pass written somewhere else (reindex put in place at its caller) is R3's to place
                            callers = {g_.name for f2 in pkg.files for g_ in ast.walk(pkg.modules[f2]) if isinstance(g_, (ast.FunctionDef, ast.AsyncFunctionDef)) and g_ is not fn_
                                       for c_ in ast.walk(g_) if isinstance(c_, ast.Call) and (c_.func.attr if isinstance(c_.func, ast.Attribute) else getattr(c_.func, "id", None)) == fn_.name}
                            counter = isinstance(node, ast.Assign) and isinstance(node.value, ast.Name) and any(
                                isinstance(x, ast.For) and isinstance(x.iter, ast.Call) and ast.unparse(x.iter.func) == "enumerate" and isinstance(x.target, ast.Tuple)
                                and ast.unparse(x.target.elts[0]) == node.value.id and node in list(ast.walk(x)) for x in ast.walk(fn_))
                            if callers == {"reindex"}:
                                ctx.ok("R2", f"{f}:{fn_.name} writes idxfromfile", (f, node.lineno), f"`{fn_.name}` is called from reindex() only: part of the re-indexing")
                                continue
                            if counter:
                                ctx.unrec("R2", f"{f}:{fn_.name} writes idxfromfile", (f, node.lineno), f"`{fn_.name}` numbers reactions by their position in a pass of its own (`{ast.unparse(node)[:60]}`): "
                                          "whether this is the re-indexing before rendering is not read here")
                                continue
                            ctx.bad("R2", f"{f}:{fn_.name} writes idxfromfile", (f, node.lineno), f"`{fn_.name}` assigns `{ast.unparse(node)[:70]}`: an index handed out outside the file parsers and "
                                    "Network.reindex() is neither the file's index nor the position at rendering time -- a rate modifier keyed by it reaches another reaction (and the "
                                    "`all un-indexed` test that triggers re-indexing no longer holds)", expected="idxfromfile written by the reaction parsers and by Network.reindex only", found=ast.unparse(node)[:80])
    # a setter / converter of the index never decides by TRUTHINESS of the raw value: the index 0 is a valid index
    for f in pkg.files:
        if not f.startswith("naunet/reactions/"):
            continue
        for node in ast.walk(pkg.modules[f]):
            if isinstance(node, ast.Assign) and any(isinstance(t, ast.Attribute) and t.attr in ("idxfromfile", "_idxfromfile") for t in node.targets) and isinstance(node.value, ast.IfExp):
                t_ = node.value.test
                while isinstance(t_, ast.UnaryOp) and isinstance(t_.op, ast.Not):
                    t_ = t_.operand
                # (the value tested is the raw index itself -- the thing converted on one of the arms; a flag computed elsewhere is not)
                arms_ = {ast.unparse(x) for a_ in (node.value.body, node.value.orelse) for x in ast.walk(a_) if isinstance(x, (ast.Name, ast.Attribute))}
                if isinstance(t_, (ast.Name, ast.Attribute)) and ast.unparse(t_) in arms_:
                    ctx.bad("R2", f"{f}:idxfromfile chosen by truthiness", (f, node.lineno), f"`{ast.unparse(node)[:80]}` decides by the truthiness of `{ast.unparse(t_)}`: the integer index 0 "
                            "counts as `no index` and becomes -1, so a modifier keyed by 0 never meets its reaction", expected="a test for the empty field (`== \"\"` / `is None`)", found=ast.unparse(node.value)[:80])
    # parameter default and annotation
    init = pkg.method("Reaction", "__init__")
    a = init.args
    names = [x.arg for x in a.args]
    if "idxfromfile" in names:
        i = names.index("idxfromfile")
        d = a.defaults[i - (len(names) - len(a.defaults))]
        try:
            dv = ast.literal_eval(d)
        except Exception:
            dv = None
            # a named constant of the module / the class: by value
            try:
                from ..consteval import fold, NotConstant, class_attr_resolver
                rfile = pkg.cls("Reaction").file
                env_ = {}
                for st_ in pkg.modules[rfile].body:
                    if isinstance(st_, ast.Assign) and len(st_.targets) == 1 and isinstance(st_.targets[0], ast.Name):
                        try:
                            env_[st_.targets[0].id] = ast.literal_eval(st_.value)
                        except Exception:
                            pass
                dv = fold(d, env_, class_attr_resolver(pkg, "Reaction"))
            except Exception:
                dv = None
        if dv is None or isinstance(dv, bool) or not isinstance(dv, (int, float, str)):
            ctx.unrec("R2", "Reaction.__init__:idxfromfile default", ("naunet/reactions/reaction.py", init.lineno), f"the default `{ast.unparse(d)[:60]}` is not a constant this rule can compute")
        else:
            ctx.check(dv == -1 and isinstance(dv, int), "R2", "Reaction.__init__:idxfromfile default", ("naunet/reactions/reaction.py", init.lineno),
                      "un-indexed reactions carry the int sentinel -1", found=ast.unparse(d))
    else:
        ctx.missing("R2", "Reaction.__init__:idxfromfile", ("naunet/reactions/reaction.py", init.lineno), "parameter idxfromfile vanished")
    # reader: int(key)
    from .c20 import _render_handle
    h = _render_handle(pkg)
    ctx.saw(RENDER, "RenderCommand.handle")
    conv = None
    # by role: the local handed to Network(rate_modifier=...)
    passed = {ast.unparse(k.value) for c in ast.walk(h) if isinstance(c, ast.Call) and ast.unparse(c.func) == "Network" for k in c.keywords if k.arg == "rate_modifier"}
    for _ in range(3):          # `rate_modifier = converted`: the local handed on may be a plain alias of the one that was converted
        passed |= {node.value.id for node in ast.walk(h) if isinstance(node, ast.Assign) and isinstance(node.value, ast.Name)
                   and any(isinstance(t, ast.Name) and t.id in passed for t in node.targets)}
    for node in ast.walk(h):
        if isinstance(node, ast.Assign) and any(isinstance(t, ast.Name) and t.id in passed for t in node.targets) and isinstance(node.value, ast.DictComp):
            conv = node
    if conv is None:
        # ... or the conversion written in the call itself: Network(rate_modifier={int(k): v for ..})
        for c in ast.walk(h):
            if isinstance(c, ast.Call) and ast.unparse(c.func) == "Network":
                for k in c.keywords:
                    if k.arg == "rate_modifier" and isinstance(k.value, ast.DictComp):
                        conv = ast.copy_location(ast.Assign(targets=[ast.Name(id="<keyword rate_modifier>", ctx=ast.Store())], value=k.value), c)
                        conv._inline = True
    okc = False
    kname = None
    if conv is not None:
        g0 = conv.value.generators[0]
        kname = g0.target.elts[0].id if isinstance(g0.target, ast.Tuple) and isinstance(g0.target.elts[0], ast.Name) else None
        okc = ast.unparse(conv.value.key) == f"int({kname})" and ast.unparse(g0.iter).endswith(".items()") and not g0.ifs
    srcs = [n for n in ast.walk(h) if isinstance(n, ast.Assign) and any(isinstance(t, ast.Name) and t.id in passed for t in n.targets)]
    if conv is None and not (srcs and all(_whole_copy(n.value) or isinstance(n.value, ast.Subscript) for n in srcs)):
        # the table reaches Network(..) through something this rule cannot read (a helper, a loop with other statements): not evidence of a missing conversion
        ctx.unrec("R2", "RenderCommand.handle:int(key)", (RENDER, h.lineno), "cannot tell how the keys of the configured rate_modifier table are converted on the way to Network(rate_modifier=..): "
                  + "; ".join(ast.unparse(n.value)[:60] for n in srcs)[:160])
    else:
        # understood and wrong: the table handed on as it is / copied with its string keys / filtered; another key expression is not read here
        sure = conv is None or bool(conv.value.generators[0].ifs) or ast.unparse(conv.value.key) in (kname, f"str({kname})")
        _three(ctx, okc, sure, "R2", "RenderCommand.handle:int(key)", (RENDER, conv.lineno if conv else h.lineno),
               "TOML keys (strings) are converted to int before they are compared with idxfromfile",
               expected="{int(key): value for key, value in rate_modifier.items()}", found=ast.unparse(conv.value)[:90] if conv else "no conversion")
    # the Network(...) call receives the converted dict
    if conv is not None and not getattr(conv, "_inline", False):
        later = [c for c in ast.walk(h) if isinstance(c, ast.Call) and ast.unparse(c.func) == "Network" and c.lineno > conv.lineno]
        ok = any(any(k.arg == "rate_modifier" and (ast.unparse(k.value) == ast.unparse(conv.targets[0]) or (isinstance(k.value, ast.Name) and k.value.id in passed)) for k in c.keywords) for c in later)
        # understood and wrong: Network(rate_modifier=<another local>); no such keyword at all (handed on otherwise) is not read here
        other = any(k.arg == "rate_modifier" and isinstance(k.value, ast.Name) and k.value.id != ast.unparse(conv.targets[0]) and k.value.id not in passed for c in later for k in c.keywords)
        _three(ctx, ok, other, "R2", "RenderCommand.handle:Network(rate_modifier=)", (RENDER, later[0].lineno if later else conv.lineno),
               "the converted dictionary is what Network(...) receives", found="; ".join(ast.unparse(k.value)[:40] for c in later for k in c.keywords if k.arg == "rate_modifier"))
    # writer: string keys
    from .c20 import _content_writer
    cfn = _content_writer(pkg)
    ctx.saw(CONF, "BaseConfiguration.content")
    w = None
    for node in ast.walk(cfn):
        if isinstance(node, ast.Assign) and len(node.targets) == 1 and isinstance(node.targets[0], ast.Subscript) \
                and isinstance(node.targets[0].slice, ast.Constant) and node.targets[0].slice.value == "rate_modifier":
            w = node
    if w is None:
        ctx.missing("R2", "BaseConfiguration.content:rate_modifier", (CONF, cfn.lineno), "no assignment of chemistry['rate_modifier']")
    else:
        v = _helpers_inlined(pkg, CONF, "BaseConfiguration", w.value)         # a one-expression helper is what it returns
        for _ in range(2):            # .. and a local bound once in the writer is what it was bound to
            if isinstance(v, ast.Name):
                asg = [a for a in ast.walk(cfn) if isinstance(a, ast.Assign) and len(a.targets) == 1 and isinstance(a.targets[0], ast.Name) and a.targets[0].id == v.id]
                if len(asg) == 1 and sum(1 for x in ast.walk(cfn) if isinstance(x, ast.Name) and x.id == v.id and isinstance(x.ctx, ast.Store)) == 1:
                    v = _helpers_inlined(pkg, CONF, "BaseConfiguration", asg[0].value)
        okw = isinstance(v, ast.DictComp) and isinstance(v.key, ast.Call) and ast.unparse(v.key.func) == "str" and "_ratemodifier" in ast.unparse(v.generators[0].iter) \
            and len(v.generators) == 1 and not v.generators[0].ifs          # every entry, none filtered away
        if not isinstance(v, ast.DictComp) and not _whole_copy(v):
            # neither a comprehension (read above) nor the stored table handed on as it is (integer keys: a finding): not a shape this rule reads
            ctx.unrec("R2", "BaseConfiguration.content:str(key)", (CONF, w.lineno), f"cannot tell whether the rate-modifier keys are written as strings: {ast.unparse(v)[:100]}")
        else:
            # understood and wrong: the stored table handed on with its integer keys, a copy with the keys as they are, a filtered copy
            names_ = [x.id for x in ast.walk(v.generators[0].target) if isinstance(x, ast.Name)] if isinstance(v, ast.DictComp) else []
            sure = not isinstance(v, ast.DictComp) or bool(v.generators[0].ifs) or len(v.generators) != 1 or (bool(names_) and ast.unparse(v.key) == names_[0])
            _three(ctx, okw, sure, "R2", "BaseConfiguration.content:str(key)", (CONF, w.lineno),
                   "every rate-modifier entry is written, keys as strings (TOML keys; integer keys make tomlkit raise), the inverse of the reader's int(key)",
                   expected="{str(key): value for key, value in self._ratemodifier.items()}", found=ast.unparse(v)[:90])


def _r3(ctx):
    pkg = package(ctx.tree)
    # (the decision may have been moved into a helper of the class: put back first; _prepare_ode_content stays the call the rule is about)
    fn = pkg.expanded("TemplateLoader", "render", keep=("_prepare_ode_content", "_prepare_renorm_content", "_render", "_prepare_contents"))
    ctx.saw(FILE, "TemplateLoader.render")
    # (`ode = <local of the helper>` left behind by putting a helper back names the same value again: one call, one local)
    try:
        import copy
        from ..normalize import coalesce_copies
        from .c20 import _untuple
        fn = coalesce_copies(_untuple(copy.deepcopy(fn)))
    except (RecursionError, ImportError):
        pass
    fl = Flow(fn, FILE)
    calls = [f for f in fl.facts if f.kind == "call" and f.target == "reindex"]
    prep = [(v, loops, g, line, seq) for lst in fl.assigns.values() for v, loops, g, line, seq in lst if v[0] == "meth" and v[2] == "_prepare_ode_content"]
    if len(calls) != 1 or len(prep) != 1:
        ctx.missing("R3", "render:reindex/prepare", (FILE, fn.lineno), f"expected one network.reindex() and one _prepare_ode_content call, found {len(calls)}/{len(prep)}")
    else:
        c, p = calls[0], prep[0]
        NET = ("param", "network")
        idxs = ("comp", "list", None, None)
        g = [(simp(x), pol) for x, pol in c.guards]
        # the guard in canonical form: `not any(P)` is `all(not P)`, `not all(P)` is `any(not P)`, `not (x != k)` is `x == k`
        okg = gsure = False
        if len(g) == 1 and not c.loops and _plain(g[0][0]):
            t, pol = g[0]
            b = match(("call", ("global", V("q")), (V("c"),), ()), t)
            mm = as_map(b["c"]) if b and b["q"] in ("all", "any") and b["c"][0] == "comp" else None
            if mm:
                bv, body, base, ifs = mm
                quant, neg = b["q"], not pol
                if neg:
                    quant = "any" if quant == "all" else "all"
                while body[0] == "unop" and body[1] == "Not":
                    body, neg = body[2], not neg
                if body[0] == "cmp" and len(body[1]) == 1 and body[1][0] in ("Eq", "NotEq") and len(body[2]) == 2:
                    op = body[1][0]
                    if neg:
                        op = "NotEq" if op == "Eq" else "Eq"
                    lhs, rhs = body[2]
                    if rhs == ("attr", bv, "idxfromfile"):
                        lhs, rhs = rhs, lhs
                    isnum = rhs[0] == "const" or (rhs[0] == "unop" and rhs[2][0] == "const")
                    if lhs == ("attr", bv, "idxfromfile") and isnum:
                        gsure = True
                        okg = quant == "all" and op == "Eq" and not ifs and base == ("attr", NET, "reactions") and rhs in (("unop", "USub", ("const", 1)), ("const", -1))
        _three(ctx, okg, gsure, "R3", "render:reindex-guard", (FILE, c.line), "reindex runs exactly when every reaction of network.reactions is un-indexed (idxfromfile == -1)",
               expected="if all([reac.idxfromfile == -1 for reac in network.reactions])", found="; ".join(show(x)[:120] for x, _ in g))
        _three(ctx, c.value[1] == NET and c.seq < p[4] and not p[1] and not p[2], c.value[1] == NET and not p[1] and not p[2], "R3", "render:reindex-before-prepare", (FILE, c.line),
               "network.reindex() precedes the single, unconditional _prepare_ode_content call", found=f"reindex seq {c.seq}, prepare seq {p[4]}")
        # arguments: rate_modifier = network.rate_modifier (same object the user set)
        # bound to the callee's parameters, whether passed by position or by keyword
        params = [a.arg for a in pkg.method("TemplateLoader", "_prepare_ode_content").args.args][1:]
        given = dict(zip(params, p[0][3]))
        extra = len(p[0][3]) > len(params)
        for k_, v_ in p[0][4]:
            if k_ in given or k_ not in params:
                extra = True
            given[k_] = v_
        kwpar = params[1] if len(params) > 1 else None       # the species keywords: second parameter of the generator
        ok = not extra and len(params) == 4 and set(given) == set(params) and simp(given.get("rate_modifier", ())) == ("attr", NET, "rate_modifier") and \
            simp(given.get("ode_modifier", ())) == ("attr", NET, "ode_modifier") and simp(given[kwpar]) == ("attr", NET, "_species_kwargs")
        # understood and wrong: a modifier table that goes through a helper which DROPS entries on some return
        from .c20 import carries_whole
        for pname in ("rate_modifier", "ode_modifier"):
            gv = given.get(pname)
            gs = simp(gv) if gv is not None else None
            if gs is not None and gs[0] == "comp" and any(g_[2] for g_ in gs[3]) and any(x == ("attr", NET, pname) for x in walk(gs)):
                ctx.bad("R3", f"render:{pname} filtered on the way", (FILE, p[3]), f"the network's {pname} table is filtered before it is handed to _prepare_ode_content ({show(gs)[:90]}): "
                        "the keys are matched against idxfromfile only inside the generator, after re-indexing -- what is dropped before is a modifier the user asked for",
                        expected=f"network.{pname} itself", found=show(gs)[:100])
            if gv is not None and gv[0] == "meth" and gv[1] in (("param", "self"), ("param", "cls")):
                callee = pkg.resolve("TemplateLoader", gv[2])[1]
                rets = [r_ for r_ in ast.walk(callee) if isinstance(r_, ast.Return) and r_.value is not None] if callee is not None else []
                flt = [r_ for r_ in rets if carries_whole(r_.value)[0] == "filtered"]
                if flt:
                    ctx.bad("R3", f"render:{pname} filtered on the way", (FILE, flt[0].lineno), f"`{gv[2]}` stands between the network's {pname} table and _prepare_ode_content and drops entries "
                            f"(`{ast.unparse(flt[0].value)[:70]}`): the keys are matched against idxfromfile only inside the generator, after re-indexing -- what is dropped before "
                            "(against indices collected earlier) is a modifier the user asked for", expected=f"network.{pname} itself", found=ast.unparse(flt[0].value)[:90])
        # understood and wrong: every argument is an attribute of the network, but not the one its parameter stands for
        sure = not extra and all(simp(a)[0] == "attr" and simp(a)[1] == NET for k_, a in given.items() if k_ != params[0])
        _three(ctx, ok, sure, "R3", "render:modifier-args", (FILE, p[3]), "_prepare_ode_content receives network._species_kwargs, network.rate_modifier, network.ode_modifier",
               found=", ".join(f"{k_}={show(simp(a))[:40]}" for k_, a in given.items()))
    # (helpers of the class put back; a loop by position `for i in range(len(L)): L[i].idxfromfile = i` is the enumerate loop it abbreviates)
    import copy
    from ..normalize import index_loops_to_enumerate
    rfn = index_loops_to_enumerate(copy.deepcopy(pkg.expanded("Network", "reindex")))
    ctx.saw(NETWORK, "Network.reindex")
    rfl = Flow(rfn, NETWORK)
    st = [f for f in rfl.facts if f.kind == "attrstore" and f.target == "idxfromfile"]
    ok = False
    if len(st) == 1 and len(st[0].loops) == 1:
        lp = st[0].loops[0]
        base = ("attr", ("param", "self"), "reaction_list")
        ok = simp(lp.iter) == ("call", ("global", "enumerate"), (base,), ()) and st[0].value == ("idx", base, lp.id) and \
            st[0].extra.get("obj") == ("elem", base, lp.id) and not st[0].guards
        # by position: `for i in range(len(L)): L[i].idxfromfile = i`
        rng = ("call", ("global", "range"), (("call", ("global", "len"), (base,), ()),), ())
        ok = ok or (simp(lp.iter) == rng and simp(st[0].value) == ("elem", rng, lp.id) and simp(st[0].extra.get("obj") or ()) == ("elem", base, lp.id) and not st[0].guards)
    # understood and wrong: one store in one loop over the reaction list whose value / guard differs (position + 1, a filtered pass)
    sure = len(st) == 1 and len(st[0].loops) == 1 and _plain(st[0].value, simp(st[0].loops[0].iter)) and _plain(*[c_ for c_, _ in st[0].guards])
    _three(ctx, ok, sure, "R3", "Network.reindex", (NETWORK, rfn.lineno), "reindex sets reac.idxfromfile = position for every reaction of reaction_list",
           found="; ".join(show(f.value) for f in st))
    pr = pkg.method("Network", "reactions")
    # by value: on every path on which reaction_list is non-empty the getter returns reaction_list itself (`A or [dummy]`,
    # `A if A else [dummy]`, an early return either way round, a local defaulted when empty)
    from ..valueflow import norm_guard
    A = ("attr", ("param", "self"), "reaction_list")
    pfl = Flow(pr, NETWORK)

    def cases(v, conds):
        v = simp(v)
        if v[0] == "bool" and v[1] == "Or" and len(v[2]) == 2:
            return cases(v[2][0], conds + [(v[2][0], True)]) + cases(v[2][1], conds + [(v[2][0], False)])
        if v[0] in ("ifexp", "phi") and len(v) == 4:
            return cases(v[2], conds + [(v[1], True)]) + cases(v[3], conds + [(v[1], False)])
        return [(v, [norm_guard((simp(c), p_)) for c, p_ in conds])]
    allc = [x for f in pfl.facts if f.kind == "return" for x in cases(f.value, list(f.guards))]
    okr = bool(allc) and any(v == A for v, _ in allc) and all(v == A or (A, False) in g for v, g in allc)
    _three(ctx, okr, bool(allc) and _plain(*[v for v, _ in allc]), "R3", "Network.reactions", (NETWORK, pr.lineno),
           "network.reactions is reaction_list itself whenever it is non-empty (same order as reindex)", found="; ".join(show(v)[:60] for v, _ in allc)[:160])


def _r4(ctx, m):
    sites = [s for s in m.sites if s.array == "rhs" and s.kind == "mod"]
    W = (FILE, m.func.lineno)
    if len(sites) != 1:
        (ctx.unrec if sites else ctx.missing)("R4", "rhs:mod:count", W, f"expected exactly one ODE-modifier store into rhs, found {len(sites)}")
    OM = ("param", "ode_modifier")
    for s in sites:
        ok = report_problems(ctx, "R4", s)
        ok &= guards_ok(ctx, "R4", s)
        if not ok:
            continue
        f = s.fact
        good = True
        if len(f.loops) != 2:
            ctx.unrec("R4", f"{site_key(s)}:loops", where(s), f"expected the modifier loop and the (factor, dependencies) loop, found {len(f.loops)} loops")
            continue
        L1, L2 = f.loops
        it2 = simp(L2.iter)
        expr = ("val", OM, L1.id)
        want_zip = ("call", ("global", "zip"), (("sub", expr, ("const", "factors")), ("sub", expr, ("const", "reactants"))), ())
        if it2 != want_zip:
            # understood and wrong: a zip of two entries of the modifier read by literal keys -- other keys, or another order
            zsure = it2[0] == "call" and it2[1] == ("global", "zip") and len(it2[2]) == 2 and all(a[0] == "sub" and a[1] == expr and a[2][0] == "const" for a in it2[2])
            _three(ctx, False, zsure, "R4", f"{site_key(s)}:pairing", where(s), "factors and dependency lists are paired position by position",
                   expected="zip(expr['factors'], expr['reactants'])", found=show(it2)[:120])
            good = False
        # row: Species(key, **kw)
        kw = None
        if s.row and s.row[0] == "species":
            b = match(("call", ("global", "Species"), (("key", OM, L1.id),), V("kw")), s.row[1])
            if not b:
                # understood and wrong: a Species(..) built from something else than the modifier's key
                _three(ctx, False, s.row[1][0] == "call" and s.row[1][1] == ("global", "Species") and _plain(s.row[1]), "R4", f"{site_key(s)}:row", where(s),
                       "the modified row is species.index(Species(<modifier key>, **species_kwargs))", found=show(s.row[1])[:120])
                good = False
            else:
                kw = b["kw"]
        else:
            ctx.unrec("R4", f"{site_key(s)}:row", where(s), f"the row of the modifier store is not read as species.index(..): {show(s.row)[:100] if s.row else None}")
            good = False
        if s.sign != +1:
            ctx.bad("R4", f"{site_key(s)}:sign", where(s), "modifier term must be added", expected="+", found=s.text)
            good = False
        if s.coeff != ("factor", ("elem", ("sub", expr, ("const", "factors")), L2.id)):
            _three(ctx, False, bool(s.coeff) and _plain(s.coeff), "R4", f"{site_key(s)}:factor", where(s), "the coefficient is this pair's factor", found=show(s.coeff)[:100] if s.coeff else None)
            good = False
        if s.seq:
            base_ok = s.seq["base"] == ("elem", ("sub", expr, ("const", "reactants")), L2.id)
            body_ok = kw is not None and s.seq["body"] == Y(("call", ("global", "Species"), (s.seq["bv"],), kw))
            if not base_ok or not body_ok or s.seq["ifs"]:
                # understood and wrong: a filtered / de-duplicated / other list of dependencies, or another factor per dependency
                dsure = bool(s.seq["ifs"]) or (kw is not None and _plain(s.seq["body"]) and (_plain(s.seq["base"]) or
                        (s.seq["base"][0] == "call" and s.seq["base"][1][0] == "global" and s.seq["base"][1][1] in ("set", "sorted", "frozenset", "dict", "list"))
                        or (s.seq["base"][0] == "meth" and s.seq["base"][2] == "fromkeys")))
                _three(ctx, False, dsure, "R4", f"{site_key(s)}:deps", where(s), "the product is one y[IDX_<alias>] per listed dependency of this pair (with multiplicity)",
                       expected="'*'.join(f'y[IDX_{Species(d, **kw).alias}]' for d in dep)", found=f"over {show(s.seq['base'])[:60]}: {show(s.seq['body'])[:80]}")
                good = False
        else:
            ctx.unrec("R4", f"{site_key(s)}:deps", where(s), f"the product of abundances of the modifier term is not read as a join over the dependencies: {s.text!r}")
            good = False
        if good:
            ctx.ok("R4", site_key(s), where(s), f"rhs[species.index(Species(name))] += {s.text!r}")
    # stores into rhs that C13 cannot attribute to a modifier are C01.R5's business (no alarm here)


def _str_keys(node):
    out = set()
    for n in ast.walk(node):
        if isinstance(n, ast.Subscript) and isinstance(n.slice, ast.Constant) and isinstance(n.slice.value, str):
            out.add(n.slice.value)
    return out


def _r5(ctx, m):
    pkg = package(ctx.tree)
    want = None
    sets = {}
    # reader 1: templateloader
    fl = m.flow
    keys = set()
    from ..valueflow import walk
    for f in fl.facts:
        for v in (f.value, f.index):
            if v:
                for x in walk(simp(v)):
                    if isinstance(x, tuple) and len(x) == 3 and x[0] == "sub" and x[1][0] == "val" and x[1][1] == ("param", "ode_modifier") and x[2][0] == "const":
                        keys.add(x[2][1])
    for l in fl.all_loops.values():
        for x in walk(simp(l.iter)):
            if isinstance(x, tuple) and len(x) == 3 and x[0] == "sub" and x[1][0] == "val" and x[1][1] == ("param", "ode_modifier") and x[2][0] == "const":
                keys.add(x[2][1])
    sets[(FILE, "TemplateLoader._prepare_ode_content (reader)")] = keys
    # reader 2: example.py
    from .c20 import _example_handle
    h = _example_handle(pkg)            # (a helper the option value is composed in is put back)
    ctx.saw(EXAMPLE, "ExampleCommand.handle")
    k2 = set()
    # by role: every iteration (a `for` statement or a comprehension clause) over <table>.items() where <table> is the example
    # module's ode_modifier (or a local alias of it); the string keys its VALUE variable is subscripted with, anywhere in that
    # statement / comprehension
    tables = {"ode_modifier"} | {t.id for n in ast.walk(h) if isinstance(n, ast.Assign) and isinstance(n.value, ast.Attribute) and n.value.attr == "ode_modifier"
                                 for t in n.targets if isinstance(t, ast.Name)}

    def _items_value(target, it):
        if isinstance(it, ast.Call) and isinstance(it.func, ast.Attribute) and it.func.attr == "items" and not it.args and \
                ((isinstance(it.func.value, ast.Name) and it.func.value.id in tables) or (isinstance(it.func.value, ast.Attribute) and it.func.value.attr == "ode_modifier")) \
                and isinstance(target, (ast.Tuple, ast.List)) and len(target.elts) == 2 and isinstance(target.elts[1], ast.Name):
            return target.elts[1].id
        return None
    for n in ast.walk(h):
        scopes = []
        if isinstance(n, ast.For):
            scopes.append((_items_value(n.target, n.iter), n))
        elif isinstance(n, (ast.ListComp, ast.GeneratorExp, ast.SetComp, ast.DictComp)):
            scopes += [(_items_value(g.target, g.iter), n) for g in n.generators]
        for var, scope in scopes:
            if var is not None:
                k2 |= {x.slice.value for x in ast.walk(scope) if isinstance(x, ast.Subscript) and isinstance(x.value, ast.Name) and x.value.id == var
                       and isinstance(x.slice, ast.Constant) and isinstance(x.slice.value, str)}
    sets[(EXAMPLE, "ExampleCommand.handle (reader)")] = k2
    # writer: init.py
    from .c20 import _init_handle, _option_origins, _option_loops
    h = _init_handle(pkg)
    ctx.saw(INIT, "InitCommand.handle")
    k3 = set()
    # by role: the loop(s) over the occurrences of --ode-modifier
    # ... and in them only what is stored into / read from an ENTRY of the table handed on as `ode_modifier=`: the display (or dict(..) call)
    # an entry is created from -- written in the store or bound to a local first -- and the string subscripts of `D[..]` / of a local
    # that stands for an entry.  Other string-keyed things in the loop (a parsed record, a match object) are not the modifier's keys.
    from .c20 import _alias_closure
    Dnames = set(_alias_closure(h, next((k.value.id for c in ast.walk(h) if isinstance(c, ast.Call) for k in c.keywords if k.arg == "ode_modifier" and isinstance(k.value, ast.Name)), "ode_modifier")))

    def is_D(e):
        return isinstance(e, ast.Name) and e.id in Dnames

    def is_entry_expr(e):
        return (isinstance(e, ast.Subscript) and is_D(e.value)) or \
            (isinstance(e, ast.Call) and isinstance(e.func, ast.Attribute) and e.func.attr in ("get", "setdefault") and is_D(e.func.value))

    def entry_keys(v, scope, depth=0):
        if isinstance(v, ast.Dict):
            return {k.value for k in v.keys if isinstance(k, ast.Constant) and isinstance(k.value, str)}
        if isinstance(v, ast.Call) and isinstance(v.func, ast.Name) and v.func.id == "dict" and not v.args:
            return {k.arg for k in v.keywords if k.arg}
        if isinstance(v, ast.Name) and depth < 2:
            out = set()
            for a in ast.walk(scope):
                if isinstance(a, ast.Assign) and any(isinstance(t, ast.Name) and t.id == v.id for t in a.targets):
                    out |= entry_keys(a.value, scope, depth + 1)
            return out
        return set()
    for n in _option_loops(h, _option_origins(h), "ode-modifier"):
        entries = {t.id for a in ast.walk(n) if isinstance(a, ast.Assign) and is_entry_expr(a.value) for t in a.targets if isinstance(t, ast.Name)}
        for d in ast.walk(n):
            if isinstance(d, ast.Assign) and any(isinstance(t, ast.Subscript) and is_D(t.value) for t in d.targets):
                k3 |= entry_keys(d.value, n)
            elif isinstance(d, ast.Call) and isinstance(d.func, ast.Attribute) and is_D(d.func.value):
                if d.func.attr == "setdefault" and len(d.args) == 2:
                    k3 |= entry_keys(d.args[1], n)
                elif d.func.attr == "update" and d.args and isinstance(d.args[0], ast.Dict):
                    for v_ in d.args[0].values:
                        k3 |= entry_keys(v_, n)
                elif d.func.attr == "__setitem__" and len(d.args) == 2:
                    k3 |= entry_keys(d.args[1], n)
            elif isinstance(d, ast.Subscript) and isinstance(d.slice, ast.Constant) and isinstance(d.slice.value, str) and \
                    (is_entry_expr(d.value) or (isinstance(d.value, ast.Name) and d.value.id in entries)):
                k3.add(d.slice.value)
    sets[(INIT, "InitCommand.handle (writer)")] = k3
    # data: example modules
    nmod = 0
    for f in pkg.files:
        if f.startswith("naunet/examples/") and f.endswith("__init__.py") and f != "naunet/examples/__init__.py":
            for node in pkg.modules[f].body:
                if isinstance(node, ast.Assign) and any(isinstance(t, ast.Name) and t.id == "ode_modifier" for t in node.targets) and isinstance(node.value, ast.Dict):
                    nmod += 1
                    ks = set()
                    for v in node.value.values:
                        if isinstance(v, ast.Dict):
                            ks |= {k.value for k in v.keys if isinstance(k, ast.Constant)}
                    if node.value.values:
                        sets[(f, "example data")] = ks
    ctx.floor("R5", "example modules defining ode_modifier", nmod, 6)
    ref = {"factors", "reactants"}
    for (f, label), ks in sorted(sets.items()):
        # understood and wrong: a key nobody else uses (a typo, a renamed field on one side only); keys that were merely not found at a
        # place spelled another way are not evidence
        _three(ctx, ks == ref, bool(ks - ref), "R5", f"ode-modifier keys:{label}:{f.split('/')[-2] if 'examples' in f else ''}", (f, 0),
               f"{label} uses exactly the keys 'factors' and 'reactants'", expected=str(sorted(ref)), found=str(sorted(ks)))
    ctx.floor("R5", "places using the modifier dictionary keys", len(sets), 5)


T = FILE
MUTANTS = [
    {"name": "override-needs-truthy-value", "file": FILE, "old": "                if key == reac.idxfromfile:", "new": "                if value and key == reac.idxfromfile:", "rules": ["R1"]},
    {"name": "render-reindexes-half-indexed", "file": RENDER, "old": '        dupes, dupidx, first = net.find_duplicate_reaction(mode="short")', "new": '        if any(r.idxfromfile == -1 for r in net.reaction_list):\n            net.reindex()\n        dupes, dupidx, first = net.find_duplicate_reaction(mode="short")', "rules": ["R8"]},
    {"name": "init-ode-modifier-update", "file": INIT, "old": '                if ode_modifier.get(key):\n                    ode_modifier[key]["factors"].append(fact)\n                    ode_modifier[key]["reactants"].append(rdep)\n                else:\n                    ode_modifier[key] = {\n                        "factors": [fact],\n                        "reactants": [rdep],\n                    }\n',
     "new": '                ode_modifier.update({key: {"factors": [fact], "reactants": [rdep]}})\n', "rules": ["R6"]},
    {"name": "init-ode-modifier-overwrite", "file": INIT, "old": '                if ode_modifier.get(key):\n                    ode_modifier[key]["factors"].append(fact)\n                    ode_modifier[key]["reactants"].append(rdep)\n                else:\n',
     "new": '                if False:\n                    pass\n                else:\n', "rules": ["R6"]},
    {"name": "render-prunes-rate-modifier", "file": RENDER, "old": '        dupes, dupidx, first = net.find_duplicate_reaction(mode="short")', "new": '        net.rate_modifier = {k: v for k, v in rate_modifier.items() if k >= 0}\n        dupes, dupidx, first = net.find_duplicate_reaction(mode="short")', "rules": ["R7"]},
    {"name": "network-stores-filtered", "file": NETWORK, "old": "        self._rate_modifier = rate_modifier.copy() if rate_modifier else {}", "new": "        self._rate_modifier = {k: v for k, v in rate_modifier.items() if v} if rate_modifier else {}", "rules": ["R7"]},
    {"name": "override-neq", "file": T, "old": "if key == reac.idxfromfile:", "new": "if key != reac.idxfromfile:", "rules": ["R1"]},
    {"name": "override-break", "file": T, "old": '        for idx, reac in enumerate(reactions):\n            for key, value in rate_modifier.items():\n                if key == reac.idxfromfile:\n                    logging.warning(f"Overwirte the rate of: `{reac}` with {value}")\n                    rateeqns[idx] = f"{rate_sym}[{idx}] = {value};"\n',
     "new": '        for key, value in rate_modifier.items():\n            for idx, reac in enumerate(reactions):\n                if key == reac.idxfromfile:\n                    logging.warning(f"Overwirte the rate of: `{reac}` with {value}")\n                    rateeqns[idx] = f"{rate_sym}[{idx}] = {value};"\n                    break\n', "rules": ["R1"]},
    {"name": "override-position-table", "file": T, "old": '        for idx, reac in enumerate(reactions):\n            for key, value in rate_modifier.items():\n                if key == reac.idxfromfile:\n                    logging.warning(f"Overwirte the rate of: `{reac}` with {value}")\n                    rateeqns[idx] = f"{rate_sym}[{idx}] = {value};"\n',
     "new": '        where = {}\n        for idx, reac in enumerate(reactions):\n            where[reac.idxfromfile] = idx\n        for key, value in rate_modifier.items():\n            if key in where:\n                rateeqns[where[key]] = f"{rate_sym}[{where[key]}] = {value};"\n', "rules": ["R1"]},
    {"name": "override-slot-shift", "file": T, "old": 'rateeqns[idx] = f"{rate_sym}[{idx}] = {value};"', "new": 'rateeqns[idx + 1] = f"{rate_sym}[{idx}] = {value};"', "rules": ["R1"]},
    {"name": "override-k-key", "file": T, "old": 'rateeqns[idx] = f"{rate_sym}[{idx}] = {value};"', "new": 'rateeqns[idx] = f"{rate_sym}[{key}] = {value};"', "rules": ["R1"]},
    {"name": "reindex-after-prepare", "edits": [
        {"file": T, "old": "        if all([idx == -1 for idx in reactindices]):\n            network.reindex()\n", "new": "        if all([idx == -1 for idx in reactindices]):\n"},
        {"file": T, "old": "        renorm = self._prepare_renorm_content(info)\n", "new": "        renorm = self._prepare_renorm_content(info)\n        if all([idx == -1 for idx in reactindices]):\n            network.reindex()\n"}], "rules": ["R3"]},
    {"name": "reindex-any", "file": T, "old": "if all([idx == -1 for idx in reactindices]):", "new": "if any([idx == -1 for idx in reactindices]):", "rules": ["R3"]},
    {"name": "modifier-key-typo", "file": T, "old": 'zip(expr["factors"], expr["reactants"])', "new": 'zip(expr["factor"], expr["reactants"])', "rules": ["R4", "R5"]},
    {"name": "modifier-dedup-deps", "file": T, "old": "depspec = [Species(d, **species_kwargs) for d in dep]", "new": "depspec = [Species(d, **species_kwargs) for d in dict.fromkeys(dep)]", "rules": ["R4"]},
    {"name": "modifier-row-without-kwargs", "file": T, "old": "spec = Species(sname, **species_kwargs)", "new": "spec = Species(sname)", "rules": ["R4"]},
    {"name": "config-int-keys", "file": CONF, "old": "        chemistry[\"rate_modifier\"] = {\n            str(key): value for key, value in self._ratemodifier.items()\n        }\n", "new": "        chemistry[\"rate_modifier\"] = self._ratemodifier\n", "rules": ["R2"]},
    {"name": "render-no-int", "file": RENDER, "old": "rate_modifier = {int(key): value for key, value in rate_modifier.items()}", "new": "rate_modifier = dict(rate_modifier)", "rules": ["R2"]},
    # new spellings accepted since hardening round 4: the same defects inside them
    {"name": "statement-helper-drops-falsy-value", "edits": [
        {"file": T, "old": "    def _assign_rates(\n", "new": "    @staticmethod\n    def _rate_stmt(sym, i, expr, keep=\"\"):\n        return f\"{sym}[{i}] = {expr};\" if expr else keep\n\n    def _assign_rates(\n"},
        {"file": T, "old": 'rateeqns[idx] = f"{rate_sym}[{idx}] = {value};"', "new": "rateeqns[idx] = self._rate_stmt(rate_sym, idx, value, rateeqns[idx])"}], "rules": ["R1"]},
    {"name": "statement-helper-wrong-slot", "edits": [
        {"file": T, "old": "    def _assign_rates(\n", "new": "    @staticmethod\n    def _rate_stmt(sym, i, expr):\n        return f\"{sym}[{i}] = {expr};\"\n\n    def _assign_rates(\n"},
        {"file": T, "old": 'rateeqns[idx] = f"{rate_sym}[{idx}] = {value};"', "new": "rateeqns[idx] = self._rate_stmt(rate_sym, key, value)"}], "rules": ["R1"]},
    {"name": "render-keywords-swapped", "file": T, "old": "ode = self._prepare_ode_content(info, speckws, rate_modifier, ode_modifier)", "new": "ode = self._prepare_ode_content(info, species_kwargs=speckws, rate_modifier=ode_modifier, ode_modifier=rate_modifier)", "rules": ["R3"]},
    {"name": "network-store-helper-filters", "edits": [
        {"file": NETWORK, "old": "def _grain_factory(", "new": "def _kept(table):\n    return {k: v for k, v in table.items() if v} if table else {}\n\n\ndef _grain_factory("},
        {"file": NETWORK, "old": "        self._rate_modifier = rate_modifier.copy() if rate_modifier else {}", "new": "        self._rate_modifier = _kept(rate_modifier)"}], "rules": ["R7"]},
    {"name": "init-ode-parser-helper-overwrites", "edits": [
        {"file": INIT, "old": '        ode_modifier_str = self.option("ode-modifier")\n        ode_modifier = {}\n        for l in ode_modifier_str:\n', "new": '        ode_modifier = self._ode_terms(self.option("ode-modifier"))\n        for l in []:\n'},
        {"file": INIT, "old": "    def option(self, key=None):\n", "new": "    @staticmethod\n    def _ode_terms(values):\n        table = {}\n        for text in values:\n            for om in text.split(\";\"):\n                if not om:\n                    break\n                key, value = om.split(\":\")\n                fact, rdep = value.split(\",\")\n                table[key] = {\"factors\": [fact], \"reactants\": [rdep.split()]}\n        return table\n\n    def option(self, key=None):\n"}], "rules": ["R6"]},
    {"name": "writer-filters-in-comprehension", "file": CONF, "old": "            str(key): value for key, value in self._ratemodifier.items()\n", "new": "            str(key): value for key, value in self._ratemodifier.items() if value\n", "rules": ["R2"]},
    {"name": "reindex-from-1", "file": NETWORK, "old": "for idx, reac in enumerate(self.reaction_list):\n            reac.idxfromfile = idx", "new": "for idx, reac in enumerate(self.reaction_list):\n            reac.idxfromfile = str(idx)", "rules": ["R2", "R3"]},
    # hardening round 5: generator producer + record, class-level sentinel, carrying a defect
    {"name": "modifier-generator-dedups-deps", "edits": [{"file": T, "old": 'from typing import TYPE_CHECKING\n', "new": 'from typing import TYPE_CHECKING, NamedTuple\n'}, {"file": T, "old": 'class TemplateLoader:\n', "new": 'class _ModRec(NamedTuple):\n    slot: int\n    coef: str\n    deps: list\n    syms: list\n\n\nclass TemplateLoader:\n'}, {"file": T, "old": '        for sname, expr in ode_modifier.items():\n            spec = Species(sname, **species_kwargs)\n            sidx = species.index(spec)\n            for fact, dep in zip(expr["factors"], expr["reactants"]):\n                depspec = [Species(d, **species_kwargs) for d in dep]\n                depsym = [f"y[IDX_{d.alias}]" for d in depspec]\n                depsym_mul = "*".join(depsym)\n\n                rhs[sidx] += f" + ({fact}) * {depsym_mul}"\n\n                for dspec in depspec:\n                    didx = species.index(dspec)\n                    depsymcopy = depsym.copy()\n                    depsymcopy.remove(y[didx])\n                    depsymcopy_mul = "*".join(depsymcopy)\n\n                    term = f" + {\'*\'.join([f\'({fact})\', *depsymcopy])}"\n                    jacrhs[sidx * n_eqns + didx] += term\n', "new": '        for rec in self._modifier_records(species, species_kwargs, ode_modifier):\n            rhs[rec.slot] += f" + ({rec.coef}) * {\'*\'.join(rec.syms)}"\n            for dspec in rec.deps:\n                didx = species.index(dspec)\n                rest = rec.syms.copy()\n                rest.remove(y[didx])\n                term = f" + {\'*\'.join([f\'({rec.coef})\', *rest])}"\n                jacrhs[rec.slot * n_eqns + didx] += term\n'}, {"file": T, "old": '    def _assign_rates(\n', "new": '    @staticmethod\n    def _modifier_records(species, species_kwargs, ode_modifier):\n        for target, spec_ in ode_modifier.items():\n            slot = species.index(Species(target, **species_kwargs))\n            for coef, names in zip(spec_["factors"], spec_["reactants"]):\n                deps = [Species(n_, **species_kwargs) for n_ in sorted(set(names))]\n                yield _ModRec(slot, coef, deps, [f"y[IDX_{d_.alias}]" for d_ in deps])\n\n    def _assign_rates(\n'}], "rules": ['R4']},
    {"name": "modifier-generator-wrong-factor", "edits": [{"file": T, "old": 'from typing import TYPE_CHECKING\n', "new": 'from typing import TYPE_CHECKING, NamedTuple\n'}, {"file": T, "old": 'class TemplateLoader:\n', "new": 'class _ModRec(NamedTuple):\n    slot: int\n    coef: str\n    deps: list\n    syms: list\n\n\nclass TemplateLoader:\n'}, {"file": T, "old": '        for sname, expr in ode_modifier.items():\n            spec = Species(sname, **species_kwargs)\n            sidx = species.index(spec)\n            for fact, dep in zip(expr["factors"], expr["reactants"]):\n                depspec = [Species(d, **species_kwargs) for d in dep]\n                depsym = [f"y[IDX_{d.alias}]" for d in depspec]\n                depsym_mul = "*".join(depsym)\n\n                rhs[sidx] += f" + ({fact}) * {depsym_mul}"\n\n                for dspec in depspec:\n                    didx = species.index(dspec)\n                    depsymcopy = depsym.copy()\n                    depsymcopy.remove(y[didx])\n                    depsymcopy_mul = "*".join(depsymcopy)\n\n                    term = f" + {\'*\'.join([f\'({fact})\', *depsymcopy])}"\n                    jacrhs[sidx * n_eqns + didx] += term\n', "new": '        for rec in self._modifier_records(species, species_kwargs, ode_modifier):\n            rhs[rec.slot] += f" + ({rec.coef}) * {\'*\'.join(rec.syms)}"\n            for dspec in rec.deps:\n                didx = species.index(dspec)\n                rest = rec.syms.copy()\n                rest.remove(y[didx])\n                term = f" + {\'*\'.join([f\'({rec.coef})\', *rest])}"\n                jacrhs[rec.slot * n_eqns + didx] += term\n'}, {"file": T, "old": '    def _assign_rates(\n', "new": '    @staticmethod\n    def _modifier_records(species, species_kwargs, ode_modifier):\n        for target, spec_ in ode_modifier.items():\n            slot = species.index(Species(target, **species_kwargs))\n            for coef, names in zip(spec_["factors"], spec_["reactants"]):\n                deps = [Species(n_, **species_kwargs) for n_ in names]\n                yield _ModRec(slot, target, deps, [f"y[IDX_{d_.alias}]" for d_ in deps])\n\n    def _assign_rates(\n'}], "rules": ['R4']},
    {"name": "reindex-sentinel-constant-zero", "edits": [{"file": T, "old": '    def __init__(self, solver: str, method: str, device: str) -> None:\n', "new": '    UNSET = 0\n\n    def __init__(self, solver: str, method: str, device: str) -> None:\n'}, {"file": T, "old": '        reactindices = [reac.idxfromfile for reac in network.reactions]\n        if all([idx == -1 for idx in reactindices]):\n', "new": '        reactindices = [reac.idxfromfile for reac in network.reactions]\n        nolabel = [reac.idxfromfile == self.UNSET for reac in network.reactions]\n        if all(nolabel):\n'}], "rules": ['R3']},
    {"name": "statement-percent-format-key", "file": T, "old": 'rateeqns[idx] = f"{rate_sym}[{idx}] = {value};"', "new": 'rateeqns[idx] = "%s[%d] = %s;" % (rate_sym, key, value)', "rules": ["R1"]},
    # hardening wave 3: the rules that replaced "unrecognised shape = violation"
    {"name": "add-reaction-hands-out-position", "file": NETWORK, "old": "        self.reaction_list.append(reaction)\n        new_reactants = set(reaction.reactants).difference(self._reactants)\n", "new": "        if reaction.idxfromfile == -1:\n            reaction.idxfromfile = len(self.reaction_list)\n        self.reaction_list.append(reaction)\n        new_reactants = set(reaction.reactants).difference(self._reactants)\n", "rules": ["R2"]},
    {"name": "index-zero-read-as-no-index", "file": "naunet/reactions/reaction.py", "old": "        self.idxfromfile = int(idx)\n", "new": "        self.idxfromfile = int(idx) if idx else -1\n", "rules": ["R2"]},
    {"name": "render-drops-unmatched-modifiers", "edits": [
        {"file": T, "old": "    def _assign_rates(\n", "new": "    @staticmethod\n    def _matching(table, indices):\n        known = set(indices)\n        return {k: v for k, v in table.items() if k in known}\n\n    def _assign_rates(\n"},
        {"file": T, "old": "        rate_modifier = network.rate_modifier\n", "new": "        rate_modifier = self._matching(network.rate_modifier, reactindices)\n"}], "rules": ["R3"]},
    {"name": "network-setattr-filtered-table", "file": NETWORK, "old": "        self._rate_modifier = rate_modifier.copy() if rate_modifier else {}", "new": '        setattr(self, "_rate_modifier", {k: v for k, v in rate_modifier.items() if v} if rate_modifier else {})', "rules": ["R7"]},
    # hardening wave 4: the same defects inside the spellings accepted since
    {'name': 'override-guard-clause-wrong-way', 'file': T, 'old': '        for idx, reac in enumerate(reactions):\n            for key, value in rate_modifier.items():\n                if key == reac.idxfromfile:\n                    logging.warning(f"Overwirte the rate of: `{reac}` with {value}")\n                    rateeqns[idx] = f"{rate_sym}[{idx}] = {value};"\n', 'new': '        for idx, reac in enumerate(reactions):\n            for key, value in rate_modifier.items():\n                if key == reac.idxfromfile:\n                    continue\n                logging.warning(f"Overwirte the rate of: `{reac}` with {value}")\n                rateeqns[idx] = f"{rate_sym}[{idx}] = {value};"\n', 'rules': ['R1']},
    {'name': 'index-default-named-constant-zero', 'edits': [{'file': 'naunet/reactions/reaction.py', 'old': 'class Reaction', 'new': 'NO_INDEX = 0\n\n\nclass Reaction'}, {'file': 'naunet/reactions/reaction.py', 'old': '        idxfromfile: int = -1,\n', 'new': '        idxfromfile: int = NO_INDEX,\n'}], 'rules': ['R2']},
    {'name': 'render-keys-by-loop-without-int', 'file': RENDER, 'old': '        rate_modifier = {int(key): value for key, value in rate_modifier.items()}\n', 'new': '        converted = {}\n        for key, value in rate_modifier.items():\n            converted[key] = value\n        rate_modifier = converted\n', 'rules': ['R2']},
    {'name': 'reindex-helper-from-1', 'edits': [{'file': NETWORK, 'old': '        for idx, reac in enumerate(self.reaction_list):\n            reac.idxfromfile = idx\n', 'new': '        self._number_reactions()\n\n    def _number_reactions(self) -> None:\n        for idx, reac in enumerate(self.reaction_list):\n            reac.idxfromfile = idx + 1\n'}], 'rules': ['R3']},
    {'name': 'ode-modifier-by-key-row-without-kwargs', 'file': T, 'old': '        for sname, expr in ode_modifier.items():\n            spec = Species(sname, **species_kwargs)\n            sidx = species.index(spec)\n            for fact, dep in zip(expr["factors"], expr["reactants"]):\n', 'new': '        for sname in ode_modifier:\n            expr = ode_modifier[sname]\n            spec = Species(sname)\n            sidx = species.index(spec)\n            for fact, dep in zip(expr["factors"], expr["reactants"]):\n', 'rules': ['R4']},
]
BENIGN = [
    # (a break out of the loop over the modifier keys skips only the remaining keys for this reaction: keys are distinct)
    {"name": "override-break-after-the-matching-key", "file": T, "old": '                    rateeqns[idx] = f"{rate_sym}[{idx}] = {value};"\n', "new": '                    rateeqns[idx] = f"{rate_sym}[{idx}] = {value};"\n                    break\n'},
    {"name": "override-loops-swapped", "file": T, "old": '        for idx, reac in enumerate(reactions):\n            for key, value in rate_modifier.items():\n                if key == reac.idxfromfile:\n',
     "new": '        for key, value in rate_modifier.items():\n            for idx, reac in enumerate(reactions):\n                if key == reac.idxfromfile:\n'},
    {"name": "network-stores-table-or-empty", "file": NETWORK, "old": "        self._rate_modifier = rate_modifier.copy() if rate_modifier else {}", "new": "        self._rate_modifier = dict(rate_modifier or {})"},
    {"name": "init-ode-modifier-setdefault", "file": INIT, "old": '                if ode_modifier.get(key):\n                    ode_modifier[key]["factors"].append(fact)\n                    ode_modifier[key]["reactants"].append(rdep)\n                else:\n                    ode_modifier[key] = {\n                        "factors": [fact],\n                        "reactants": [rdep],\n                    }\n',
     "new": '                entry = ode_modifier.setdefault(key, {"factors": [], "reactants": []})\n                entry["factors"].append(fact)\n                entry["reactants"].append(rdep)\n'},
    {"name": "network-stores-dict-copy", "file": NETWORK, "old": "        self._rate_modifier = rate_modifier.copy() if rate_modifier else {}", "new": "        self._rate_modifier = dict(rate_modifier) if rate_modifier else {}"},
    {"name": "override-guard-flipped", "file": T, "old": "if key == reac.idxfromfile:", "new": "if reac.idxfromfile == key:"},
    # hardening round 4: extracted helpers, keyword arguments, other counter / loop spellings
    {"name": "statement-through-helper", "edits": [
        {"file": T, "old": "    def _assign_rates(\n", "new": "    @staticmethod\n    def _rate_stmt(sym, i, expr, cond=\"\"):\n        stmt = f\"{sym}[{i}] = {expr};\"\n        if not cond:\n            return stmt\n        return \"\\n\".join([f\"if ({cond}) {{\", stmt, \"}\"])\n\n    def _assign_rates(\n"},
        {"file": T, "old": 'rateeqns[idx] = f"{rate_sym}[{idx}] = {value};"', "new": "rateeqns[idx] = self._rate_stmt(rate_sym, idx, value)"}]},
    {"name": "render-passes-keywords", "file": T, "old": "        speckws = network._species_kwargs\n        rate_modifier = network.rate_modifier\n        ode_modifier = network.ode_modifier\n        ode = self._prepare_ode_content(info, speckws, rate_modifier, ode_modifier)",
     "new": "        ode = self._prepare_ode_content(info, ode_modifier=network.ode_modifier, rate_modifier=network.rate_modifier, species_kwargs=network._species_kwargs)"},
    {"name": "network-store-through-helper", "edits": [
        {"file": NETWORK, "old": "def _grain_factory(", "new": "def _own(table, empty):\n    return table.copy() if table else empty()\n\n\ndef _grain_factory("},
        {"file": NETWORK, "old": "        self._rate_modifier = rate_modifier.copy() if rate_modifier else {}", "new": "        self._rate_modifier = _own(rate_modifier, dict)"}]},
    {"name": "reindex-zip-count", "edits": [
        {"file": NETWORK, "old": "import shutil\n", "new": "import shutil\nimport itertools\n"},
        {"file": NETWORK, "old": "for idx, reac in enumerate(self.reaction_list):\n            reac.idxfromfile = idx", "new": "for pos, reac in zip(itertools.count(), self.reaction_list):\n            reac.idxfromfile = pos"}]},
    {"name": "init-ode-parser-helper", "edits": [
        {"file": INIT, "old": '        ode_modifier_str = self.option("ode-modifier")\n        ode_modifier = {}\n        for l in ode_modifier_str:\n', "new": '        ode_modifier = self._ode_terms(self.option("ode-modifier"))\n        for l in []:\n'},
        {"file": INIT, "old": "    def option(self, key=None):\n", "new": "    @staticmethod\n    def _ode_terms(values):\n        table = {}\n        for text in values:\n            for om in text.split(\";\"):\n                if not om:\n                    break\n                key, value = om.split(\":\")\n                fact, rdep = value.split(\",\")\n                rec = table.setdefault(key, {\"factors\": [], \"reactants\": []})\n                rec[\"factors\"].append(fact)\n                rec[\"reactants\"].append(rdep.replace(\"[\", \"\").replace(\"]\", \"\").strip().split())\n        return table\n\n    def option(self, key=None):\n"}]},
    {"name": "init-loops-over-option-directly", "file": INIT, "old": '        ode_modifier_str = self.option("ode-modifier")\n        ode_modifier = {}\n        for l in ode_modifier_str:\n', "new": '        ode_modifier = {}\n        for l in self.option("ode-modifier"):\n'},
    {"name": "rename-loop-var", "file": T, "old": "for sname, expr in ode_modifier.items():\n            spec = Species(sname, **species_kwargs)", "new": "for target, expr in ode_modifier.items():\n            spec = Species(target, **species_kwargs)"},
    # hardening round 5
    {"name": "modifier-terms-from-generator", "edits": [{"file": T, "old": 'from typing import TYPE_CHECKING\n', "new": 'from typing import TYPE_CHECKING, NamedTuple\n'}, {"file": T, "old": 'class TemplateLoader:\n', "new": 'class _ModRec(NamedTuple):\n    slot: int\n    coef: str\n    deps: list\n    syms: list\n\n\nclass TemplateLoader:\n'}, {"file": T, "old": '        for sname, expr in ode_modifier.items():\n            spec = Species(sname, **species_kwargs)\n            sidx = species.index(spec)\n            for fact, dep in zip(expr["factors"], expr["reactants"]):\n                depspec = [Species(d, **species_kwargs) for d in dep]\n                depsym = [f"y[IDX_{d.alias}]" for d in depspec]\n                depsym_mul = "*".join(depsym)\n\n                rhs[sidx] += f" + ({fact}) * {depsym_mul}"\n\n                for dspec in depspec:\n                    didx = species.index(dspec)\n                    depsymcopy = depsym.copy()\n                    depsymcopy.remove(y[didx])\n                    depsymcopy_mul = "*".join(depsymcopy)\n\n                    term = f" + {\'*\'.join([f\'({fact})\', *depsymcopy])}"\n                    jacrhs[sidx * n_eqns + didx] += term\n', "new": '        for rec in self._modifier_records(species, species_kwargs, ode_modifier):\n            rhs[rec.slot] += f" + ({rec.coef}) * {\'*\'.join(rec.syms)}"\n            for dspec in rec.deps:\n                didx = species.index(dspec)\n                rest = rec.syms.copy()\n                rest.remove(y[didx])\n                term = f" + {\'*\'.join([f\'({rec.coef})\', *rest])}"\n                jacrhs[rec.slot * n_eqns + didx] += term\n'}, {"file": T, "old": '    def _assign_rates(\n', "new": '    @staticmethod\n    def _modifier_records(species, species_kwargs, ode_modifier):\n        for target, spec_ in ode_modifier.items():\n            slot = species.index(Species(target, **species_kwargs))\n            for coef, names in zip(spec_["factors"], spec_["reactants"]):\n                deps = [Species(n_, **species_kwargs) for n_ in names]\n                yield _ModRec(slot, coef, deps, [f"y[IDX_{d_.alias}]" for d_ in deps])\n\n    def _assign_rates(\n'}]},
    {"name": "reindex-sentinel-class-constant", "edits": [{"file": T, "old": '    def __init__(self, solver: str, method: str, device: str) -> None:\n', "new": '    UNSET = -1\n\n    def __init__(self, solver: str, method: str, device: str) -> None:\n'}, {"file": T, "old": '        reactindices = [reac.idxfromfile for reac in network.reactions]\n        if all([idx == -1 for idx in reactindices]):\n', "new": '        reactindices = [reac.idxfromfile for reac in network.reactions]\n        nolabel = [reac.idxfromfile == self.UNSET for reac in network.reactions]\n        if all(nolabel):\n'}]},
    {"name": "reindex-zip-imported-count", "edits": [{"file": NETWORK, "old": 'import shutil\n', "new": 'import shutil\nfrom itertools import count as _count\n'}, {"file": NETWORK, "old": 'for idx, reac in enumerate(self.reaction_list):\n            reac.idxfromfile = idx', "new": 'for pos, reac in zip(_count(), self.reaction_list):\n            reac.idxfromfile = pos'}]},
    {"name": "statement-percent-format", "file": T, "old": 'rateeqns[idx] = f"{rate_sym}[{idx}] = {value};"', "new": 'rateeqns[idx] = "%s[%d] = %s;" % (rate_sym, idx, value)'},
    {"name": "render-int-keys-dict-of-pairs", "file": RENDER, "old": "rate_modifier = {int(key): value for key, value in rate_modifier.items()}", "new": "rate_modifier = dict((int(key), value) for key, value in rate_modifier.items())"},
    # hardening wave 4: everyday spellings (guard clauses, a test around the loops, named constants, a value bound to a local first, loop <-> comprehension)
    {'name': 'override-under-table-test', 'file': T, 'old': '        for idx, reac in enumerate(reactions):\n            for key, value in rate_modifier.items():\n                if key == reac.idxfromfile:\n                    logging.warning(f"Overwirte the rate of: `{reac}` with {value}")\n                    rateeqns[idx] = f"{rate_sym}[{idx}] = {value};"\n', 'new': '        if rate_modifier:\n            for idx, reac in enumerate(reactions):\n                for key, value in rate_modifier.items():\n                    if key == reac.idxfromfile:\n                        logging.warning(f"Overwirte the rate of: `{reac}` with {value}")\n                        rateeqns[idx] = f"{rate_sym}[{idx}] = {value};"\n'},
    {'name': 'override-guard-clause', 'file': T, 'old': '        for idx, reac in enumerate(reactions):\n            for key, value in rate_modifier.items():\n                if key == reac.idxfromfile:\n                    logging.warning(f"Overwirte the rate of: `{reac}` with {value}")\n                    rateeqns[idx] = f"{rate_sym}[{idx}] = {value};"\n', 'new': '        for idx, reac in enumerate(reactions):\n            for key, value in rate_modifier.items():\n                if key != reac.idxfromfile:\n                    continue\n                logging.warning(f"Overwirte the rate of: `{reac}` with {value}")\n                rateeqns[idx] = f"{rate_sym}[{idx}] = {value};"\n'},
    {'name': 'rate-symbol-module-constant', 'edits': [{'file': T, 'old': 'class TemplateLoader:\n', 'new': 'RATE_SYMBOL = "k"\n\n\nclass TemplateLoader:\n'}, {'file': T, 'old': '        rate_sym = "k"\n', 'new': '        rate_sym = RATE_SYMBOL\n'}]},
    {'name': 'init-ode-entry-bound-first', 'file': INIT, 'old': '                if ode_modifier.get(key):\n                    ode_modifier[key]["factors"].append(fact)\n                    ode_modifier[key]["reactants"].append(rdep)\n                else:\n                    ode_modifier[key] = {\n                        "factors": [fact],\n                        "reactants": [rdep],\n                    }\n', 'new': '                if ode_modifier.get(key):\n                    ode_modifier[key]["factors"].append(fact)\n                    ode_modifier[key]["reactants"].append(rdep)\n                else:\n                    entry = {"factors": [fact], "reactants": [rdep]}\n                    ode_modifier[key] = entry\n'},
    {'name': 'init-ode-known-flag', 'file': INIT, 'old': '                if ode_modifier.get(key):\n                    ode_modifier[key]["factors"].append(fact)\n                    ode_modifier[key]["reactants"].append(rdep)\n                else:\n                    ode_modifier[key] = {\n                        "factors": [fact],\n                        "reactants": [rdep],\n                    }\n', 'new': '                known = key in ode_modifier\n                if not known:\n                    ode_modifier[key] = {"factors": [], "reactants": []}\n                ode_modifier[key]["factors"].append(fact)\n                ode_modifier[key]["reactants"].append(rdep)\n'},
    {'name': 'init-ode-entry-looked-up-once', 'file': INIT, 'old': '                if ode_modifier.get(key):\n                    ode_modifier[key]["factors"].append(fact)\n                    ode_modifier[key]["reactants"].append(rdep)\n                else:\n                    ode_modifier[key] = {\n                        "factors": [fact],\n                        "reactants": [rdep],\n                    }\n', 'new': '                entry = ode_modifier.get(key)\n                if entry is None:\n                    entry = {"factors": [], "reactants": []}\n                    ode_modifier[key] = entry\n                entry["factors"].append(fact)\n                entry["reactants"].append(rdep)\n'},
    {'name': 'render-int-keys-by-loop', 'file': RENDER, 'old': '        rate_modifier = {int(key): value for key, value in rate_modifier.items()}\n', 'new': '        converted = {}\n        for key, value in rate_modifier.items():\n            converted[int(key)] = value\n        rate_modifier = converted\n'},
    {'name': 'reindex-by-position', 'file': NETWORK, 'old': 'for idx, reac in enumerate(self.reaction_list):\n            reac.idxfromfile = idx', 'new': 'for idx in range(len(self.reaction_list)):\n            self.reaction_list[idx].idxfromfile = idx'},
    {'name': 'reindex-through-helper', 'edits': [{'file': NETWORK, 'old': '        for idx, reac in enumerate(self.reaction_list):\n            reac.idxfromfile = idx\n', 'new': '        self._number_reactions()\n\n    def _number_reactions(self) -> None:\n        for idx, reac in enumerate(self.reaction_list):\n            reac.idxfromfile = idx\n'}]},
    {'name': 'index-default-named-constant', 'edits': [{'file': 'naunet/reactions/reaction.py', 'old': 'class Reaction', 'new': 'NO_INDEX = -1\n\n\nclass Reaction'}, {'file': 'naunet/reactions/reaction.py', 'old': '        idxfromfile: int = -1,\n', 'new': '        idxfromfile: int = NO_INDEX,\n'}]},
    {'name': 'config-writer-str-keys-by-loop', 'file': CONF, 'old': '        chemistry["rate_modifier"] = {\n            str(key): value for key, value in self._ratemodifier.items()\n        }\n', 'new': '        ratemod = {}\n        for key, value in self._ratemodifier.items():\n            ratemod[str(key)] = value\n        chemistry["rate_modifier"] = ratemod\n'},
    {'name': 'ode-modifier-walked-by-key', 'file': T, 'old': '        for sname, expr in ode_modifier.items():\n            spec = Species(sname, **species_kwargs)\n            sidx = species.index(spec)\n            for fact, dep in zip(expr["factors"], expr["reactants"]):\n', 'new': '        for sname in ode_modifier:\n            expr = ode_modifier[sname]\n            spec = Species(sname, **species_kwargs)\n            sidx = species.index(spec)\n            for fact, dep in zip(expr["factors"], expr["reactants"]):\n'},
    {'name': 'rate-modifier-walked-by-key', 'file': T, 'old': '            for key, value in rate_modifier.items():\n                if key == reac.idxfromfile:\n', 'new': '            for key in rate_modifier:\n                value = rate_modifier[key]\n                if key == reac.idxfromfile:\n'},
]


# ------------------------------------------------------------------ R11  species names are cut at separators, never by a character class that lacks a name character

def _r11_name_tokenizers(ctx):
    """A species name may contain letters, digits, `+` and `-` (charges, the c- / l- isomer labels), `#` `@` `*`.  Where the command line
    splits a list of species with a regular expression that MATCHES names (re.findall over a character class), the class must contain
    the sign characters -- otherwise `H-` is read as `H`, `c-C3H2` as `c` and `C3H2`, silently."""
    import re._parser as sre
    pkg = package(ctx.tree)
    n = 0
    for f in (INIT, "naunet/console/commands/render.py", "naunet/console/commands/extend.py", "naunet/console/commands/example.py"):
        if f not in pkg.modules:
            continue
        for c in ast.walk(pkg.modules[f]):
            if not (isinstance(c, ast.Call) and isinstance(c.func, ast.Attribute) and c.func.attr in ("findall", "finditer", "compile", "match", "fullmatch", "search") and c.args
                    and isinstance(c.args[0], ast.Constant) and isinstance(c.args[0].value, str)):
                continue
            pat = c.args[0].value
            try:
                tree = sre.parse(pat)
            except Exception:
                continue
            for op, av in tree:
                if str(op) not in ("MAX_REPEAT", "MIN_REPEAT") or len(av[2]) != 1 or str(av[2][0][0]) != "IN":
                    continue
                items = av[2][0][1]
                if any(str(o) == "NEGATE" for o, _ in items):
                    continue                      # a separator class ([^,;]+): names are cut at separators, which is the safe way
                wordy = any(str(o) == "CATEGORY" and "WORD" in str(a) for o, a in items) or any(str(o) == "RANGE" and chr(a[0]).isalpha() for o, a in items)
                if not wordy:
                    continue
                lits = {chr(a) for o, a in items if str(o) == "LITERAL"}
                n += 1
                missing = [ch for ch in "+-" if ch not in lits]
                ctx.check(not missing, "R11", f"{f.rsplit('/', 1)[1]}:name tokenizer {pat!r}", (f, c.lineno),
                          "the character class of the name tokenizer contains the sign characters" if not missing else
                          f"species names are matched with the class {pat!r}, which lacks {missing}: an anion `H-`, `C-` or an isomer `c-C3H2` in a dependency / species list is "
                          "cut at the sign and silently becomes another species (`H`, `C`, `c` + `C3H2`)", expected="split at the separators, or a class containing + and -", found=pat)
    ctx.check(True, "R11", "name tokenizers scanned", (INIT, 0), f"{n} name-matching character classes in the command modules")



def _r13_queries_fresh(ctx):
    import ast as _ast
    pkg = package(ctx.tree)
    mod = pkg.modules.get(FILE)
    if mod is None:
        return
    netmeths = set(pkg.cls("Network").methods)
    asked = sorted({c.func.attr for c in _ast.walk(mod) if isinstance(c, _ast.Call) and isinstance(c.func, _ast.Attribute) and isinstance(c.func.value, _ast.Name)
                    and c.func.value.id in ("network", "net") and c.func.attr in netmeths})
    asked += sorted({a.attr for a in _ast.walk(mod) if isinstance(a, _ast.Attribute) and isinstance(a.value, _ast.Name) and a.value.id in ("network", "net")
                     and a.attr in netmeths and a.attr not in asked})
    if not asked:
        return
    from .c14 import _r6 as memo_rule
    ctx.absorb(lambda sub: memo_rule(sub, package(sub.tree)), "R13",
               only=lambda o: o.outcome != "MISSING" and any(o.key.startswith(f"Network.{m_}:") for m_ in asked))
