"""C12 -- KROME Fortran -> C translation (grammar shape, transformer completeness, regex pre-pass, directive state)."""
from __future__ import annotations

import ast
import re

from ..pymodel import package
from .c17 import krome_reset

EXPLANATION = (
    "R1 grammar shape, on the rule graph lark builds from fgrammar/cgrammar (grammars are loaded, no expression is parsed): the left operand of POW "
    "must not derive an un-parenthesised power (right associativity of ** must be forced by the grammar, not left to ambiguity resolution), and an "
    "operand of POW must not be able to absorb a unary sign through a signed number terminal (Fortran: -2.0**2 = -(2.0**2)); R2 every rule and kept "
    "terminal of each grammar has a callback in the transformer used for the other language, every callback other than the listed language-specific "
    "ones is a pure concatenation of its children (nothing is dropped or re-ordered), and the C `power` callback leaves no `**`; R3 the regex pre-pass "
    "of KROMEReaction.rateexpr consists of exactly the reviewed rewritings: the d-exponent pattern requires a digit before `d` and keeps sign and "
    "digits of the exponent, the idx_ suffix patterns admit species names of any length and agree with Species.alias (p -> II, m -> M, neutral -> I); "
    "R4 directive state is reset by initialize() for every class attribute preprocessing mutates (shared with C17.R4); R5 the translation entry "
    "points (KROMEReaction.rateexpr, ExpressionConverter.read/__str__/__format__) are not memoised -- reaction equality ignores the rate string; "
    "R1 also: no alternative that starts with a sign terminal is derivable (through unit productions) from the base operand of POW (-x**2 is -(x**2)); "
    "R2 callbacks in a spelling other than join/replace chains are judged by their output on concrete children of the rule's shapes; "
    "R8 the text reaches the reviewed pre-pass unrewritten: preprocessing returns its line (stripped) or \"\", rate_string is the rate column of the "
    "comma-split line with the one reviewed spelling change dexp -> exp.")
ASSUMPTIONS = [
    "numerical equality of the two expressions over all valuations is not decided",
    "lark's grammar loader represents the grammar text faithfully",
]
ENGINES = ["pymodel"]

CF = "naunet/reactions/converter.py"
KR = "naunet/reactions/kromereaction.py"
PURE_JOIN_OK = {"expression": '" "', "multiply": '""', "func": '""', "variable": '""', "atom": '""'}


def _const_str(node, attrs, depth=0):
    """Static value of a class-level string expression: literals, `+`, f-strings / `sep.join([..])` of such, and names of other
    class-level strings (nothing of the analysed code is run).  None when the expression is anything else."""
    if node is None or depth > 200:
        return None
    if isinstance(node, ast.Constant):
        return node.value if isinstance(node.value, str) else None
    if isinstance(node, ast.Name):
        return _const_str(attrs.get(node.id), attrs, depth + 1)
    if isinstance(node, ast.BinOp) and isinstance(node.op, ast.Add):
        a, b = _const_str(node.left, attrs, depth + 1), _const_str(node.right, attrs, depth + 1)
        return None if a is None or b is None else a + b
    if isinstance(node, ast.JoinedStr):
        parts = [_const_str(v.value, attrs, depth + 1) if isinstance(v, ast.FormattedValue) and v.format_spec is None and v.conversion == -1 else
                 _const_str(v, attrs, depth + 1) for v in node.values]
        return None if any(p is None for p in parts) else "".join(parts)
    if isinstance(node, ast.Call) and isinstance(node.func, ast.Attribute) and node.func.attr == "join" and len(node.args) == 1 and not node.keywords \
            and isinstance(node.args[0], (ast.List, ast.Tuple)):
        sep = _const_str(node.func.value, attrs, depth + 1)
        parts = [_const_str(e, attrs, depth + 1) for e in node.args[0].elts]
        return None if sep is None or any(p is None for p in parts) else sep.join(parts)
    return None


def _grammars(ctx, pkg):
    """{"fgrammar": Fortran grammar text, "cgrammar": C grammar text}: by role, the values of the class-level `grammar` table under
    the keys "fortran" / "c" (the table ExpressionConverter.__init__ reads); the text may be assembled from shared fragments."""
    ci = pkg.cls("ExpressionConverter")
    ctx.saw(CF, "ExpressionConverter")
    out = {}
    table = ci.attrs.get("grammar")
    by_lang = {}
    if isinstance(table, ast.Dict):
        for k, v in zip(table.keys, table.values):
            if isinstance(k, ast.Constant) and isinstance(k.value, str):
                by_lang[k.value.lower()] = v
    for name, lang in (("fgrammar", "fortran"), ("cgrammar", "c")):
        node = by_lang.get(lang, ci.attrs.get(name))
        out[name] = _const_str(node, ci.attrs)
    if not all(out.values()):
        # the text assembled from module-level pieces / by a layout function: constant folding of the module's and the class's
        # assignments in order (sa.consteval: values written in the source combined by str / tuple operations, nothing is run)
        from .. import consteval
        funcs = {}
        env = consteval.run(pkg.modules[ci.file].body, funcs=funcs)
        env = consteval.run(ci.node.body, env, funcs=funcs)
        table = env.get("grammar")
        for name, lang in (("fgrammar", "fortran"), ("cgrammar", "c")):
            if not out[name]:
                v = None
                if isinstance(table, dict):
                    v = next((x for k, x in table.items() if isinstance(k, str) and k.lower() == lang), None)
                v = v if isinstance(v, str) else env.get(name)
                out[name] = v if isinstance(v, str) else None
    return ci, out


def _rules(text):
    from lark import Lark
    p = Lark(text, start="expression", parser="earley")
    rules = {}
    for r in p.rules:
        rules.setdefault(r.origin.name.value if hasattr(r.origin.name, "value") else str(r.origin.name), []).append([(s.name, s.is_term) for s in r.expansion])
    terms = {t.name: t for t in p.terminals}
    return rules, terms


def _unit_closure(rules, start):
    seen = {start}
    todo = [start]
    while todo:
        a = todo.pop()
        for exp in rules.get(a, []):
            if len(exp) == 1 and not exp[0][1] and exp[0][0] not in seen:
                seen.add(exp[0][0])
                todo.append(exp[0][0])
    return seen


def check(ctx):
    pkg = package(ctx.tree)
    _MODULE["mod"] = pkg.modules.get(CF)
    ci, gr = _grammars(ctx, pkg)
    _r1(ctx, gr)
    _r2(ctx, pkg, ci, gr)
    _r3(ctx, pkg)
    krome_reset(ctx, pkg, "R4")
    _r5(ctx, pkg)
    _r6(ctx, pkg, ci)
    # the statement `k[i] = ...` carries the translation of reaction i's OWN rate string, not a copy of another coefficient
    # or a substitute (shared with C06.R1 / C05.R5)
    from .c06 import _r1 as assignment_rule
    ctx.absorb(assignment_rule, "R7")
    _r7_own_expression(ctx, pkg)
    _r8(ctx, pkg)


TL = "naunet/templateloader.py"


def _r7_own_expression(ctx, pkg):
    """Positive half of R7: a list that feeds the `k[i] = ...` statements (rate expressions, guards) is not overwritten element-wise
    with anything but reaction i's own rateexpr().  (The shape of the statements themselves is the absorbed rule.)"""
    from ..valueflow import Flow, simp, show, walk
    fn = pkg.method("TemplateLoader", "_assign_rates")
    fl = Flow(fn, TL, resolver=lambda name: pkg.resolve("TemplateLoader", name)[1] if name.startswith("_") and not name.startswith("__") else None)
    rets = [simp(f.value) for f in fl.facts if f.kind == "return" and f.value is not None]
    returned = {r[1] for r in rets if r[0] == "acc"}
    feeding = set()
    for part in rets + [x for f in fl.facts if f.target in returned for x in ([simp(f.value)] if f.value is not None else []) + [simp(l.iter) for l in f.loops]]:
        feeding |= {x[1] for x in walk(part) if isinstance(x, tuple) and len(x) == 2 and x[0] == "acc"}
    feeding -= returned
    R = ("param", "reactions")
    n = 0
    for f in fl.facts:
        if f.kind in ("store", "augstore") and f.target in feeding:
            n += 1
            v, i = simp(f.value), simp(f.index) if f.index is not None else None
            own = f.kind == "store" and v[0] == "meth" and v[2] == "rateexpr" and v[1][0] == "elem" and v[1][1] == R and i == ("idx", R, v[1][2])
            # positive evidence for a violation: the value written is understood and is NOT a rate expression at all (a constant, a
            # reference to another coefficient, another list's element); a rateexpr() call in a pairing this rule does not follow is
            # not judged
            foreign = not any(isinstance(x, tuple) and len(x) >= 3 and x[0] == "meth" and x[2] == "rateexpr" for x in walk(v)) and not any(isinstance(x, tuple) and x and x[0] == "unknown" for x in walk(v))
            if own or foreign:
                ctx.check(own, "R7", f"_assign_rates:{f.target}[..] overwritten", (TL, f.line),
                          f"`{f.target}[i]` is assigned reaction i's own rateexpr()" if own else
                          f"element `{f.target}[{show(i)[:30]}]` of a list the statements are built from is overwritten with {show(v)[:60]}: the statement of that reaction no longer "
                          "carries the translation of its own rate string (a copied coefficient is read before it is assigned, or outside its own temperature window)",
                          expected="statement i carries reactions[i].rateexpr(..)", found=show(v)[:100])
            else:
                ctx.unrec("R7", f"_assign_rates:{f.target}[..] overwritten", (TL, f.line), f"cannot see that `{f.target}[{show(i)[:30]}] = {show(v)[:60]}` stores the rate expression of the reaction at that position")
    ctx.stats["assign_rates_element_writes"] = n
    # ... and no text-rewriting operation stands between reac.rateexpr(..) and the statement it is pasted into: the value may be
    # named, zipped, enumerated, selected by if/else and formatted into the statement, nothing else
    def mod_helper(name):
        if (TL, name) in pkg.functions:
            return pkg.functions[(TL, name)]
        cands = [f_ for (_, n_), f_ in pkg.functions.items() if n_ == name]
        return cands[0] if len(cands) == 1 else None
    fl2 = Flow(fn, TL, resolver=lambda name: pkg.resolve("TemplateLoader", name)[1] if name.startswith("_") and not name.startswith("__") else None,
               func_resolver=mod_helper)
    REWRITERS = {"sub", "subn", "replace", "translate", "strip", "lstrip", "rstrip", "lower", "upper", "format", "removeprefix", "removesuffix", "expandtabs"}
    hits = []

    def is_rate(x, bound):
        if x in bound:
            return True
        if x[0] == "meth" and x[2] == "rateexpr":
            return True
        if x[0] in ("phi", "ifexp"):
            return is_rate(x[2], bound) and is_rate(x[3], bound)
        return False

    def rate_seq(x, bound):
        if x[0] in ("phi", "ifexp"):
            return rate_seq(x[2], bound) and rate_seq(x[3], bound)
        if x[0] == "copy":
            return rate_seq(x[1], bound)
        return x[0] == "comp" and x[1] == "list" and is_rate(x[2], bound | gens_bound(x[3], bound))

    def gens_bound(gens, bound):
        new = set()
        for tg, it, ifs in gens:
            if tg is None:
                continue
            if rate_seq(it, bound | new) and tg[0] == "bv":
                new.add(tg)
            z = it[2][0] if it[0] == "call" and it[1] == ("global", "enumerate") and it[2] else it
            t2 = tg[1][1] if it is not z and tg[0] == "tuple" and len(tg[1]) == 2 else tg
            if z[0] == "call" and z[1] == ("global", "zip") and t2[0] == "tuple" and len(t2[1]) == len(z[2]):
                for a, b_ in zip(z[2], t2[1]):
                    if b_[0] == "bv" and rate_seq(a, bound | new):
                        new.add(b_)
        return new

    def visit(x, bound):
        if not isinstance(x, tuple) or not x:
            return
        k = x[0]
        if k == "comp":
            b2 = bound | gens_bound(x[3], bound)
            for tg, it, ifs in x[3]:
                visit(it, bound)
                for c in ifs:
                    visit(c, b2)
            visit(x[2], b2)
            return
        if k == "meth" and x[2] in REWRITERS and (is_rate(x[1], bound) or (x[2] in ("sub", "subn") and x[3] and is_rate(x[3][-1], bound))):
            hits.append(x)              # (the rate text is the SUBJECT of the operation; `"{} = {};".format(k, rate)` pastes it)
        elif k == "call" and x[1][0] == "attr" and x[1][1] == ("global", "re") and x[1][2] in ("sub", "subn") and any(is_rate(a, bound) for a in x[2]):
            hits.append(x)
        elif k in ("sub", "slice") and is_rate(x[1], bound):
            hits.append(x)
        for y in x[1:]:
            if isinstance(y, tuple):
                for z in (y if y and isinstance(y[0], tuple) else (y,)):
                    visit(z, bound)
    for f in fl2.facts:
        for part in ([f.value] if f.value is not None else []) + [l.iter for l in f.loops]:
            visit(simp(part), frozenset())
    seen = set()
    for h in hits:
        if h in seen:
            continue
        seen.add(h)
        ctx.bad("R7", f"_assign_rates:rate text rewritten:{show(h)[:60]}", (TL, fn.lineno),
                f"the text returned by rateexpr() is rewritten ({show(h)[:90]}) before it is pasted into the statement: the statement does not carry the translation of the "
                "reaction's rate string but a text derived from it by string surgery", expected="k[i] = <reactions[i].rateexpr(..)>;", found=show(h)[:160])
    if not hits:
        ctx.ok("R7", "_assign_rates:rate text pasted as returned", (TL, fn.lineno), "no rewriting operation is applied to the text rateexpr() returns")


_TEXT_REWRITERS = {"sub", "subn", "replace", "translate", "lower", "upper", "casefold", "swapcase", "title", "capitalize", "format", "removeprefix", "removesuffix", "expandtabs",
                   "zfill", "center", "ljust", "rjust"}


def _text_from(v, src):
    """How the string value `v` (sa.valueflow IR) derives from the string `src`:  ("same", []) -- it is `src`, at most with surrounding
    whitespace stripped;  ("rewritten", [operation, ..]) -- it is `src` put through text-rewriting operations (regex substitution,
    replace, translate, case change ..), innermost first;  ("unknown", [sub-value]) -- anything else."""
    from ..valueflow import walk
    ops = []
    for _ in range(60):
        if v == src:
            return ("rewritten" if ops else "same"), ops[::-1]
        if v[0] == "meth" and v[2] in ("strip", "lstrip", "rstrip") and not v[3] and not v[4]:
            v = v[1]
            continue
        if v[0] == "meth" and v[2] in _TEXT_REWRITERS and any(x == src for x in walk(v[1])):
            ops.append(v)
            v = v[1]
            continue
        if v[0] == "meth" and v[2] in ("sub", "subn") and v[3] and any(x == src for x in walk(v[3][-1])):        # re.sub(p, r, text) / compiled.sub(r, text)
            ops.append(v)
            v = v[3][-1]
            continue
        if v[0] == "call" and v[1] == ("global", "str") and len(v[2]) == 1:
            v = v[2][0]
            continue
        break
    return "unknown", [v]


def _r8(ctx, pkg):
    """The text the translator is given is the text of the file: between the line handed to KROMEReaction.preprocessing and
    `self.rate_string` (where R3's reviewed pre-pass starts) nothing rewrites it -- preprocessing returns the line it was given
    (stripped) or "" for a directive, and _parse_string stores the `rate` field of the comma-split line with the one reviewed
    spelling change dexp -> exp.  A rewriting of the whole line (number literals re-spelt, case folded ..) changes what the rate
    expressions denote before the reviewed translation sees them."""
    from ..valueflow import Flow, simp, show
    helpers = lambda name: pkg.resolve("KROMEReaction", name)[1] if name.startswith("_") and not name.startswith("__") else None
    funcs = lambda name: pkg.functions.get((KR, name))
    # ---- preprocessing
    _, pre = pkg.resolve("KROMEReaction", "preprocessing")
    if pre is None:
        ctx.missing("R8", "KROMEReaction.preprocessing", (KR, 0), "method not found")
    else:
        params = [a.arg for a in pre.args.args]
        if len(params) != 2:
            ctx.unrec("R8", "preprocessing:returns the line", (KR, pre.lineno), f"expected preprocessing(cls, line), found {params}")
        else:
            src = ("param", params[1])
            rets = [(f.line, simp(f.value)) for f in Flow(pre, KR, resolver=helpers, func_resolver=funcs).facts if f.kind == "return" and f.value is not None]
            verdicts = []
            for line, v in rets:
                arms = [v]
                while any(a[0] in ("phi", "ifexp") for a in arms):
                    arms = [b for a in arms for b in ((a[2], a[3]) if a[0] in ("phi", "ifexp") else (a,))]
                for a in arms:
                    if a == ("const", ""):
                        continue
                    verdicts.append((line,) + _text_from(a, src))
            n_line = sum(1 for _, k, _ in verdicts if k == "same")
            for line, kind, ops in verdicts:
                if kind == "rewritten":
                    ctx.bad("R8", f"preprocessing:line rewritten:{show(ops[0])[:50]}", (KR, line),
                            f"preprocessing does not hand back the line it was given but the line put through {show(ops[0])[:90]}: the rate expression (and every other field) is re-spelt for the "
                            "whole line before the reviewed pre-pass of rateexpr sees it -- a literal such as 1d0 can reach the translator as the C integer 1 (1d0/3d0 -> 1/3 = 0)",
                            expected="return line.strip()  (\"\" for a directive line)", found=show(ops[-1])[:160])
                elif kind == "unknown":
                    ctx.unrec("R8", "preprocessing:returns the line", (KR, line), f"cannot see that preprocessing returns its line unchanged: {show(ops[0])[:100]}")
            if not any(k != "same" for _, k, _ in verdicts):
                if n_line:
                    ctx.ok("R8", "preprocessing:returns the line", (KR, pre.lineno), "a line that is not a directive is handed back as it was read (stripped)")
                else:
                    ctx.unrec("R8", "preprocessing:returns the line", (KR, pre.lineno), "no exit of preprocessing returns the line")
    # ---- _parse_string: rate_string
    _, ps = pkg.resolve("KROMEReaction", "_parse_string")
    if ps is None:
        ctx.missing("R8", "KROMEReaction._parse_string", (KR, 0), "method not found")
        return
    params = [a.arg for a in ps.args.args]
    stores = [(f.line, simp(f.value)) for f in Flow(ps, KR, resolver=helpers, func_resolver=funcs).facts if f.kind == "attrstore" and f.target == "rate_string" and f.value is not None]
    if len(params) == 2 and not stores:
        # the body of the reader extracted into helper procedures of the class: read with the helpers put back
        try:
            ps_x = pkg.expanded("KROMEReaction", "_parse_string", keep=("_create_species",))
            stores = [(f.line, simp(f.value)) for f in Flow(ps_x, KR, resolver=helpers, func_resolver=funcs).facts if f.kind == "attrstore" and f.target == "rate_string" and f.value is not None]
        except RecursionError:
            pass
    if len(params) == 2 and not stores:
        # the columns are handed to reader methods (a table of readers, a generator of (keyword, value) pairs): the store and the
        # split are judged where they are written -- the stored text is the reader's parameter with the reviewed spelling change,
        # and whatever is split at the commas is a parameter as it came (the pairing of columns and readers is not followed)
        from ..valueflow import walk
        ci = pkg.cls("KROMEReaction")
        key = "_parse_string:rate_string is the rate field"
        seen_store = seen_split = 0
        verdict = []
        for mname, m in ci.methods.items():
            if mname in ("rateexpr", "preprocessing", "initialize", "finalize"):
                continue
            ps_ = [("param", a.arg) for a in m.args.args[1:]]
            for f in Flow(m, KR, resolver=helpers, func_resolver=funcs).facts:
                vals = [simp(f.value)] if f.value is not None else []
                if f.kind == "attrstore" and f.target == "rate_string" and vals and vals[0] != ("const", None):
                    seen_store += 1
                    v, reps = vals[0], []
                    while v[0] == "meth" and v[2] == "replace" and len(v[3]) == 2 and not v[4] and all(a[0] == "const" for a in v[3]):
                        reps.append((v[3][0][1], v[3][1][1]))
                        v = v[1]
                    how = [_text_from(v, p_) for p_ in ps_]
                    if any(h[0] == "same" for h in how) and set(reps) <= {("dexp", "exp")}:
                        verdict.append(("ok", f.line, ""))
                    elif any(h[0] == "rewritten" for h in how) or (any(h[0] == "same" for h in how) and reps):
                        verdict.append(("bad", f.line, show(vals[0])[:120]))
                    else:
                        verdict.append(("unknown", f.line, show(vals[0])[:120]))
                for x in (y for v_ in vals + [simp(l.iter) for l in f.loops] for y in walk(v_)):
                    if isinstance(x, tuple) and len(x) == 5 and x[0] == "meth" and x[2] == "split" and x[3] == (("const", ","),) and any(y in ps_ for y in walk(x[1])):
                        how = [_text_from(x[1], p_) for p_ in ps_]
                        if any(h[0] == "same" for h in how):
                            seen_split += 1
                        elif any(h[0] == "rewritten" for h in how):
                            verdict.append(("bad", f.line, show(x[1])[:120]))
        for kind, line, what in verdict:
            if kind == "bad":
                ctx.bad("R8", f"{key}:{what[:40]}", (KR, line), f"the text stored in rate_string / split into columns is rewritten first ({what}): the translator does not see the file's expression",
                        expected="rate_string = <column>.replace('dexp', 'exp') of the line as read", found=what)
            elif kind == "unknown":
                ctx.unrec("R8", key, (KR, line), f"cannot see that rate_string is stored from the reader's parameter: {what}")
        if verdict and all(k == "ok" for k, _, _ in verdict) and seen_store and seen_split:
            ctx.ok("R8", key, (KR, ps.lineno), "rate_string is stored by a column reader from its parameter (dexp spelt exp); the line is split as it was read")
        elif not verdict or not seen_split:
            ctx.unrec("R8", key, (KR, ps.lineno), "cannot see where the line is split and where rate_string is stored")
        return
    if len(params) != 2 or not stores:
        ctx.unrec("R8", "_parse_string:rate_string is the rate field", (KR, ps.lineno), "cannot see where _parse_string(self, line) stores rate_string")
        return
    src = ("param", params[1])
    for line, v in stores:
        reps, fops = [], []
        for _ in range(40):
            if v[0] == "meth" and v[2] == "replace" and len(v[3]) == 2 and not v[4] and all(a[0] == "const" for a in v[3]):
                reps.append((v[3][0][1], v[3][1][1]))
                v = v[1]
            elif v[0] == "meth" and v[2] in ("strip", "lstrip", "rstrip") and not v[3] and not v[4]:
                v = v[1]
            elif v[0] == "meth" and v[2] in _TEXT_REWRITERS and v[1][0] in ("meth", "elem", "item", "sub"):
                fops.append(v)                  # (another rewriting of the field itself: case folding, translate, a computed replace ..)
                v = v[1]
            elif v[0] == "meth" and v[2] in ("sub", "subn") and v[1] == ("global", "re") and len(v[3]) >= 3:
                fops.append(v)
                v = v[3][2]
            else:
                break
        field = v[1] if v[0] in ("elem", "item", "sub") else None
        whole = None
        if field is not None and field[0] == "meth" and field[2] == "split" and not field[4]:
            whole = _text_from(field[1], src)
        direct = _text_from(v, src)
        key = "_parse_string:rate_string is the rate field"
        if fops and whole and whole[0] in ("same", "rewritten"):
            direct = ("rewritten", fops[::-1])
        if direct[0] == "rewritten" or (whole and whole[0] == "rewritten"):
            op = (direct[1] if direct[0] == "rewritten" else whole[1])[0]
            ctx.bad("R8", f"{key}:{show(op)[:40]}", (KR, line), f"the line is put through {show(op)[:90]} before its rate field is stored: the translator does not see the file's expression",
                    expected="rate_string = <rate field of line.split(',')>.replace('dexp', 'exp')", found=show(op)[:160])
        elif whole is None or whole[0] != "same":
            ctx.unrec("R8", key, (KR, line), f"cannot see that rate_string is a field of the comma-split line: {show(v)[:100]}")
        elif sorted(reps) != [("dexp", "exp")] and reps:
            extra = [r for r in reps if r != ("dexp", "exp")]
            ctx.bad("R8", f"{key}:replace{extra[0]}", (KR, line), f"the rate field is rewritten by .replace{extra[0]} before it is stored: not one of the reviewed rewritings (dexp -> exp)",
                    expected="only .replace('dexp', 'exp')", found=str(reps))
        else:
            ctx.ok("R8", key, (KR, line), "rate_string is the rate field of the line as read (dexp spelt exp)")


def _r6(ctx, pkg, ci):
    """The grammars are written for Lark's default Earley parser with its dynamic lexer: terminals overlap on purpose (NUMBER is a
    SIGNED number, WORD/NUMBER/UNDER chain into names) and only Earley lets the grammar decide where a token ends.  R1's rule-graph
    argument is about that parser; a greedy (LALR / standard-lexer) construction tokenises `y+2` after a name as one atom."""
    n = 0
    encl = {id(c): f for f in ast.walk(ci.node) if isinstance(f, ast.FunctionDef) for c in ast.walk(f) if isinstance(c, ast.Call)}

    def values(v, fn, depth=0):
        """the constants an option expression can take: a literal; a local bound once in the enclosing function; a lookup
        `self.TABLE.get(key, default)` / `self.TABLE[key]` in a class-level dict of literals (every value of the table, and the
        default); None when it cannot be told"""
        if isinstance(v, ast.Constant):
            return {v.value}
        if depth > 4:
            return None
        if isinstance(v, ast.Name) and fn is not None:
            defs = [x.value for x in ast.walk(fn) if isinstance(x, ast.Assign) and len(x.targets) == 1 and isinstance(x.targets[0], ast.Name) and x.targets[0].id == v.id]
            stores = [x for x in ast.walk(fn) if isinstance(x, ast.Name) and x.id == v.id and isinstance(x.ctx, (ast.Store, ast.Del))]
            return values(defs[0], fn, depth + 1) if len(defs) == 1 and len(stores) == 1 else None
        if isinstance(v, ast.IfExp):
            a, b = values(v.body, fn, depth + 1), values(v.orelse, fn, depth + 1)
            return None if a is None or b is None else a | b
        tbl, extra = None, set()
        if isinstance(v, ast.Call) and isinstance(v.func, ast.Attribute) and v.func.attr == "get" and 1 <= len(v.args) <= 2 and not v.keywords:
            tbl = v.func.value
            d = values(v.args[1], fn, depth + 1) if len(v.args) == 2 else {None}
            if d is None:
                return None
            extra = d
        elif isinstance(v, ast.Subscript):
            tbl = v.value
        if isinstance(tbl, ast.Attribute) and isinstance(tbl.value, ast.Name) and tbl.value.id in ("self", "cls", "ExpressionConverter") and isinstance(ci.attrs.get(tbl.attr), ast.Dict) \
                and all(isinstance(x, ast.Constant) for x in ci.attrs[tbl.attr].values):
            return {x.value for x in ci.attrs[tbl.attr].values} | extra
        return None
    for c in ast.walk(ci.node):
        if isinstance(c, ast.Call) and ast.unparse(c.func) == "Lark":
            n += 1
            kw = {k.arg: k.value for k in c.keywords}
            bad, unknown = [], []
            for name in ("parser", "lexer"):
                v = kw.get(name)
                if v is None:
                    continue
                vals = values(v, encl.get(id(c)))
                if vals is None:
                    unknown.append(f"{name}={ast.unparse(v)}")
                elif not vals <= {"earley", "dynamic", "dynamic_complete"}:
                    bad.append(f"{name}={ast.unparse(v)}" + ("" if isinstance(v, ast.Constant) else f" (one of {sorted(map(str, vals))})"))
            amb = kw.get("ambiguity")
            if amb is not None and not (isinstance(amb, ast.Constant) and amb.value == "resolve"):
                (bad if isinstance(amb, ast.Constant) else unknown).append(f"ambiguity={ast.unparse(amb)}")
            if unknown and not bad:
                ctx.unrec("R6", "Lark(..): Earley with the dynamic lexer", (CF, c.lineno), f"the parser options are not literals: {unknown}")
                continue
            ctx.check(not bad, "R6", "Lark(..): Earley with the dynamic lexer", (CF, c.lineno),
                      "the parser is Lark's default (Earley, dynamic lexer)" if not bad else
                      f"the parser is constructed with {bad}: with a greedy lexer the overlapping terminals of these grammars (signed NUMBER inside names) are cut differently, "
                      "`x**y+2*z` becomes pow(x, y+2) * z",
                      expected="Lark(grammar, start='expression')", found=ast.unparse(c)[:120])
    ctx.floor("R6", "Lark constructions", n, 1)


def _r5(ctx, pkg):
    """The translation is a function of the reaction's own rate string: it is not memoised on the reaction (whose
    __hash__/__eq__ ignore the rate string) nor on the converter.  Rule shared with C05.R4."""
    from .c05 import CACHES
    n = 0
    for cls, meths in (("KROMEReaction", ("rateexpr",)), ("ExpressionConverter", ("read", "__str__", "__format__"))):
        ci = pkg.cls(cls)
        for m in meths:
            fn = ci.methods.get(m)
            if fn is None:
                ctx.missing("R5", f"{cls}.{m}", (ci.file, ci.node.lineno), "method vanished")
                continue
            n += 1
            decs = [ast.unparse(d) for d in fn.decorator_list]
            bad = [d for d in decs if any(c in d for c in CACHES)]
            ctx.check(not bad, "R5", f"{cls}.{m}:not-memoised", (ci.file, fn.lineno), "translated afresh for every reaction" if not bad else
                      f"memoised ({bad[0]}): the cache key is the reaction/converter object, whose equality ignores the rate string -- a reaction equal to an earlier one "
                      "(same reactants, products, temperature range) gets that reaction's C expression", found=", ".join(decs))
    ctx.floor("R5", "translation entry points", n, 4)


def _r1(ctx, gr):
    text = gr.get("fgrammar")
    if not text:
        ctx.missing("R1", "fgrammar", (CF, 0), "Fortran grammar string not found")
        return
    try:
        rules, terms = _rules(text)
    except Exception as ex:
        ctx.unrec("R1", "fgrammar", (CF, 0), f"lark cannot load the grammar: {type(ex).__name__}: {str(ex)[:100]}")
        return
    ctx.stats["fortran_rules"] = sum(len(v) for v in rules.values())
    pw = [exp for exp in rules.get("power", []) if any(n == "POW" for n, t in exp)]
    if not pw:
        ctx.missing("R1", "power rule", (CF, 0), "no rule with the POW terminal")
        return
    for exp in pw:
        i = [n for n, t in exp].index("POW")
        left, right = exp[i - 1], exp[i + 1]
        lc = _unit_closure(rules, left[0])
        ctx.check("power" not in lc, "R1", "fgrammar:power left operand", (CF, 0),
                  "the left operand of ** cannot itself be an un-parenthesised power (a**b**c parses as a**(b**c) only)" if "power" not in lc else
                  f"`power: {' '.join(n for n, _ in exp)}` with `{left[0]}` deriving `power` without parentheses: a**b**c also parses as (a**b)**c, and the translator "
                  "emits pow(pow(a, b), c) -- Fortran's ** is right-associative",
                  expected="power: base POW (power | atom) with base excluding power", found=f"{left[0]} =>* {sorted(lc)}")
        # a sign-prefixed alternative as the BASE of **: `-x**2` then (also) parses with the sign inside the base, pow(-x, 2), where
        # Fortran evaluates -(x**2).  Decided on the rule graph: from the left operand through unit productions to an expansion of
        # two or more symbols that starts with a terminal matching a bare "-" / "+"
        import re as _re

        def is_sign(term_name):
            t = terms.get(term_name)
            try:
                rx = t.pattern.to_regexp()
                return bool(_re.fullmatch(rx, "-") or _re.fullmatch(rx, "+"))
            except Exception:
                return False
        prefixed = sorted((r, " ".join(n for n, _ in e)) for r in lc for e in rules.get(r, []) if len(e) >= 2 and e[0][1] and is_sign(e[0][0]))
        ctx.check(not prefixed, "R1", "fgrammar:sign-prefixed base of POW", (CF, 0),
                  "no alternative that starts with a sign can be the base of ** (a sign in front of x**y applies to the power)" if not prefixed else
                  f"the base of ** (`{left[0]}`) derives `{prefixed[0][0]}: {prefixed[0][1]}`, an operand that starts with a sign: `-x**2` is accepted and translated to pow(-x, 2) "
                  "while Fortran evaluates -(x**2) -- the sign is lost for even exponents, NaN for fractional ones",
                  expected="a unary sign rule ABOVE power (sign applied to the whole x**y)", found=f"{left[0]} =>* {prefixed[0][0]}: {prefixed[0][1]}" if prefixed else None)
        # signed numbers as operands
        signed = [n for n, t in terms.items() if n == "NUMBER" and "SIGNED_NUMBER" in text]
        reach = set()
        for side in (left, right):
            reach |= _unit_closure(rules, side[0])
        sci = any(any(n == "NUMBER" for n, t in e) for r in reach for e in rules.get(r, []))
        unary = any(len(e) >= 2 and e[0][0] in ("MINUS", "PLUS") and e[0][1] for e in rules.get("atom", []) + rules.get("multiply", []) + rules.get("expression", []))
        bad = bool(signed) and sci and not unary
        ctx.check(not bad, "R1", "fgrammar:signed number under POW", (CF, 0),
                  "a leading sign is parsed by a unary rule, not absorbed into the base of **" if not bad else
                  "NUMBER is a SIGNED number, the grammar has no unary-minus rule, and `atom -> scientific -> NUMBER` is an operand of POW: `exp(-2.0**2)` is translated to "
                  "exp(pow(-2.0, 2)) = exp(4) while Fortran evaluates -(2.0**2)",
                  expected="unsigned number terminal plus a unary-minus rule above power", found="%import common.SIGNED_NUMBER -> NUMBER; scientific: NUMBER ..; atom: scientific | power ..")


_MODULE = {}          # "mod": the ast of converter.py (set by check): where callback factories and translation tables may live


def _from_factory(call):
    """`name = make(" ", prefix="x")` with the module-level `def make(sep, prefix=""): def cb(self, children): return <expr>; return cb`
    (or `return lambda self, children: <expr>`): the callback `cb` with the factory's parameters replaced by the (literal) arguments
    of this call -- a closure over constants is the function written out."""
    import copy
    mod = _MODULE.get("mod")
    if mod is None or not (isinstance(call, ast.Call) and isinstance(call.func, ast.Name)) or any(isinstance(a, ast.Starred) for a in call.args) or any(k.arg is None for k in call.keywords):
        return None
    fds = [st for st in mod.body if isinstance(st, ast.FunctionDef) and st.name == call.func.id]
    if len(fds) != 1 or fds[0].decorator_list or fds[0].args.vararg or fds[0].args.kwarg or fds[0].args.posonlyargs:
        return None
    fd = fds[0]
    body = [st for st in fd.body if not (isinstance(st, ast.Expr) and isinstance(st.value, ast.Constant))]
    if len(body) == 2 and isinstance(body[0], ast.FunctionDef) and isinstance(body[1], ast.Return) and isinstance(body[1].value, ast.Name) and body[1].value.id == body[0].name \
            and not body[0].decorator_list:
        inner = body[0]
    elif len(body) == 1 and isinstance(body[0], ast.Return) and isinstance(body[0].value, ast.Lambda):
        inner = body[0].value
    else:
        return None
    names = [a.arg for a in fd.args.args] + [a.arg for a in fd.args.kwonlyargs]
    bound = dict(zip([a.arg for a in fd.args.args], call.args))
    if len(call.args) > len(fd.args.args):
        return None
    for k in call.keywords:
        if k.arg not in names or k.arg in bound:
            return None
        bound[k.arg] = k.value
    pos = fd.args.args
    for a, d in list(zip(pos[len(pos) - len(fd.args.defaults):], fd.args.defaults)) + [(a, d) for a, d in zip(fd.args.kwonlyargs, fd.args.kw_defaults) if d is not None]:
        bound.setdefault(a.arg, d)
    if set(bound) != set(names) or not all(isinstance(v, ast.Constant) for v in bound.values()):
        return None
    own = {a.arg for a in inner.args.args}
    if any(isinstance(n, ast.Name) and isinstance(n.ctx, (ast.Store, ast.Del)) and n.id in bound for n in ast.walk(inner)) \
            or any(isinstance(n, (ast.Nonlocal, ast.Global)) for n in ast.walk(inner)):
        return None

    class Sub(ast.NodeTransformer):
        def visit_Name(self, n):
            if isinstance(n.ctx, ast.Load) and n.id in bound and n.id not in own:
                return ast.copy_location(copy.deepcopy(bound[n.id]), n)
            return n
    new = Sub().visit(copy.deepcopy(inner))
    if isinstance(new, ast.FunctionDef):
        new.name = call.func.id
    return ast.fix_missing_locations(ast.copy_location(new, call))


def _callbacks(cls_node):
    """name -> callback; a `def f(self, x): return <expr>` is presented as the lambda it is equivalent to.  Every target of a
    chained assignment (`a = b = f`) is bound; a name bound to another function of the same class body (`atom = _concat`) is that
    function; a name bound to the result of a module-level callback factory called with literals is the callback it returns."""
    out = {}

    def present(s):
        body = [x for x in s.body if not (isinstance(x, ast.Expr) and isinstance(x.value, ast.Constant))]
        if len(body) == 1 and isinstance(body[0], ast.Return) and body[0].value is not None and not s.decorator_list:
            return ast.copy_location(ast.Lambda(args=s.args, body=body[0].value), s)
        return s
    for s in cls_node.body:
        if isinstance(s, ast.Assign):
            val = s.value
            if isinstance(val, ast.Name) and val.id in out:
                val = out[val.id]
            made = _from_factory(val) if isinstance(val, ast.Call) else None
            if made is not None:
                val = present(made) if isinstance(made, ast.FunctionDef) else made
            for t in s.targets:
                if isinstance(t, ast.Name):
                    out[t.id] = val
        elif isinstance(s, ast.FunctionDef):
            out[s.name] = present(s)
    return out


def _class_consts(ci, order):
    """{("attr", self, name): IR} of the class-level constants the transformer class reads through self (classes in MRO `order`,
    the most derived first): strings, numbers, displays of such and `str.maketrans("ab", "xy")` tables -- what a callback that
    says `self._prefix` / `self._table` computes with.  Names bound to functions are callbacks, not constants."""
    from ..valueflow import simp
    from ..ratemodel import _ev_literal
    SELF = ("param", "self")
    out = {}
    mod = _MODULE.get("mod")
    rebound = set()
    if mod is not None:
        stores = [n.id for n in ast.walk(mod) if isinstance(n, ast.Name) and isinstance(n.ctx, (ast.Store, ast.Del))]
        rebound = {x for x in stores if stores.count(x) > 1}
    for scope, c in ([("module", None)] if mod is not None else []) + [("class", c) for c in reversed(order)]:
        for st in (mod.body if scope == "module" else ci.nested[c].body):
            if not (isinstance(st, ast.Assign) and all(isinstance(t, ast.Name) for t in st.targets)):
                continue
            if scope == "module" and any(t.id in rebound for t in st.targets):
                continue
            v = st.value
            pure = all(isinstance(n, (ast.Constant, ast.Tuple, ast.List, ast.Dict, ast.Load, ast.Call, ast.Attribute, ast.Name)) for n in ast.walk(v)) \
                and all(ast.unparse(n.func) == "str.maketrans" and not n.keywords for n in ast.walk(v) if isinstance(n, ast.Call)) \
                and all(n.id == "str" for n in ast.walk(v) if isinstance(n, ast.Name))
            for t in st.targets:
                key = ("global", t.id) if scope == "module" else ("attr", SELF, t.id)        # (a module-level table is read by its bare name)
                if pure:
                    out[key] = simp(_ev_literal(v))
                else:
                    out.pop(key, None)
    return out


def _callback_returns(ci, cls_name, name):
    """IR (sa.valueflow) of every value the transformer class `cls_name` (callbacks inherited through its bases) returns for
    callback `name`, as a function of the children parameter; private helper methods of the transformer classes are inlined.
    -> (callback node | None, children parameter name | None, [IR, ...])"""
    from ..valueflow import Flow, simp
    order = []
    todo = [cls_name]
    while todo:
        c = todo.pop(0)
        if c in order or c not in ci.nested:
            continue
        order.append(c)
        todo.extend(ast.unparse(b).split(".")[-1] for b in ci.nested[c].bases)
    cb = None
    for c in order:
        cbs = _callbacks(ci.nested[c])
        if name in cbs:
            cb = cbs[name]
            break
    if cb is None:
        return None, None, []
    if isinstance(cb, ast.Lambda):
        fn = ast.FunctionDef(name=name, args=cb.args, body=[ast.Return(value=cb.body)], decorator_list=[], returns=None, type_comment=None)
        fn.type_params = []
        ast.fix_missing_locations(ast.copy_location(fn, cb))
    elif isinstance(cb, ast.FunctionDef):
        fn = cb
    else:
        return cb, None, []
    arg = fn.args.args[1].arg if len(fn.args.args) > 1 else None

    def resolver(n):
        for c in order:
            g = _callbacks(ci.nested[c]).get(n)
            if g is None:
                continue
            if isinstance(g, ast.Lambda):
                f2 = ast.FunctionDef(name=n, args=g.args, body=[ast.Return(value=g.body)], decorator_list=[], returns=None, type_comment=None)
                f2.type_params = []
                g = ast.fix_missing_locations(ast.copy_location(f2, g))
            return g if isinstance(g, ast.FunctionDef) and g is not fn else None
        return None
    from ..valueflow import subst
    cc = _class_consts(ci, order)
    fl = Flow(fn, CF, resolver=resolver)
    rets = [f for f in fl.facts if f.kind == "return" and f.value is not None]
    # (the conditions each return is made under, for a judgement on concrete children)
    _callback_returns.guards = [[(simp(subst(simp(g[0]), cc)), g[1]) for g in f.guards] for f in rets]
    return cb, arg, [simp(subst(simp(f.value), cc)) for f in rets]


def _decompose(v, arg):
    """`prefix + sep.join(children).replace(a1, b1)...replace(an, bn) + suffix`  ->  (prefix, sep, [(a1, b1), ...], suffix); None when
    the value is not of that shape (whatever the spelling: f-string, +, format, chained or stepwise replace, a joining helper)."""
    pre = post = ""
    if v[0] == "fstr":
        parts = list(v[1])
        if parts and parts[0][0] == "const":
            pre = parts.pop(0)[1]
        if parts and parts[-1][0] == "const":
            post = parts.pop()[1]
        if len(parts) != 1 or parts[0][0] != "fmt" or parts[0][2] is not None or parts[0][3] != -1:
            return None
        v = parts[0][1]
    reps = []
    while True:
        if v[0] == "meth" and v[2] == "replace" and len(v[3]) == 2 and not v[4] and all(a[0] == "const" and isinstance(a[1], str) for a in v[3]):
            reps.insert(0, (v[3][0][1], v[3][1][1]))
            v = v[1]
            continue
        # x.translate(str.maketrans("abc", "xyz")): every a -> x, b -> y, c -> z at once.  That is the chain of single-character
        # replacements in any order provided no replacement produces a character a later one consumes ("abc" and "xyz" disjoint)
        if v[0] == "meth" and v[2] == "translate" and len(v[3]) == 1 and not v[4]:
            t = v[3][0]
            if t[0] == "meth" and t[1] == ("global", "str") and t[2] == "maketrans" and len(t[3]) == 2 and not t[4] \
                    and all(a[0] == "const" and isinstance(a[1], str) for a in t[3]) and len(t[3][0][1]) == len(t[3][1][1]) \
                    and len(set(t[3][0][1])) == len(t[3][0][1]) and not (set(t[3][0][1]) & set(t[3][1][1])):
                reps = list(zip(t[3][0][1], t[3][1][1])) + reps
                v = v[1]
                continue
        break
    if v[0] == "join" and v[1][0] == "const" and isinstance(v[1][1], str) and v[2] == ("param", arg):
        return pre, v[1][1], reps, post
    return None


def _selects_children(v, arg):
    """does the value pick / re-order individual children (children[i], children[a:b], reversed(children))?"""
    from ..valueflow import walk
    for x in walk(v):
        if isinstance(x, tuple) and len(x) >= 2 and x[0] in ("item", "sub", "slice") and x[1] == ("param", arg):
            return True
        if isinstance(x, tuple) and len(x) == 4 and x[0] == "call" and x[1] in (("global", "reversed"), ("global", "sorted")) and x[2] and x[2][0] == ("param", arg):
            return True
    return False


class _NoValue(Exception):
    pass


def _eval_ir(v, env):
    """Value of a reconstructed callback result for CONCRETE children (env: parameter -> list of strings): only string / list
    operations whose meaning is fixed (literals, f-strings, join, +, indexing / slicing by literals, replace, translate through a
    literal maketrans table, strip, len).  Anything else raises _NoValue -- the caller then does not judge."""
    k = v[0]
    if k == "const":
        return v[1]
    if k == "param":
        if v[1] in env:
            return env[v[1]]
        raise _NoValue(v[1])
    if k == "fstr":
        out = []
        for pt in v[1]:
            if pt[0] == "const":
                out.append(pt[1])
            elif pt[0] == "fmt" and pt[2] is None and pt[3] in (-1, 115):
                x = _eval_ir(pt[1], env)
                if not isinstance(x, str):
                    raise _NoValue("format of a non-string")
                out.append(x)
            else:
                raise _NoValue("format spec")
        return "".join(out)
    if k == "fmt" and v[2] is None and v[3] in (-1, 115):
        return _eval_ir(v[1], env)
    if k == "join":
        sep, seq = _eval_ir(v[1], env), _eval_ir(v[2], env)
        if isinstance(sep, str) and isinstance(seq, (list, tuple)) and all(isinstance(x, str) for x in seq):
            return sep.join(seq)
        raise _NoValue("join")
    if k in ("list", "tuple"):
        out = []
        for e in v[1]:
            if e[0] == "star":
                out.extend(_eval_ir(e[1], env))
            else:
                out.append(_eval_ir(e, env))
        return out
    if k == "binop" and v[1] in ("Add", "+"):
        a, b = _eval_ir(v[2], env), _eval_ir(v[3], env)
        if type(a) is type(b) and isinstance(a, (str, list)):
            return a + b
        raise _NoValue("+")
    if k in ("item", "sub"):
        base = _eval_ir(v[1], env)
        i = v[2]
        if isinstance(i, tuple) and i and i[0] == "slice":
            lo, hi, st = [(None if x is None or x == ("const", None) else _eval_ir(x, env)) for x in i[1:4]]
            return base[slice(lo, hi, st)]
        i = i if isinstance(i, int) else _eval_ir(i, env)
        if isinstance(i, int) and isinstance(base, (list, tuple, str)) and -len(base) <= i < len(base):
            return base[i]
        raise _NoValue("index")
    if k == "unop" and v[1] in ("USub", "-"):
        x = _eval_ir(v[2], env)
        if isinstance(x, int):
            return -x
        raise _NoValue("unary")
    if k == "call" and v[1] in (("global", "len"), ("global", "str"), ("global", "list"), ("global", "tuple")) and len(v[2]) == 1 and not v[3]:
        x = _eval_ir(v[2][0], env)
        return {"len": len, "str": lambda y: y if isinstance(y, str) else (_ for _ in ()).throw(_NoValue("str()")), "list": list, "tuple": list}[v[1][1]](x)
    if k == "meth" and not v[4]:
        if v[1] == ("global", "str") and v[2] == "maketrans":
            args = [_eval_ir(a, env) for a in v[3]]
            if all(isinstance(a, str) for a in args) and len(args) in (2, 3):
                return str.maketrans(*args)
            if len(args) == 1 and isinstance(args[0], dict):
                return str.maketrans(args[0])
            raise _NoValue("maketrans")
        obj = _eval_ir(v[1], env)
        args = [_eval_ir(a, env) for a in v[3]]
        if isinstance(obj, str) and v[2] in ("replace", "strip", "lstrip", "rstrip", "translate", "join", "format") and v[2] != "format":
            if v[2] == "join":
                args = [list(args[0])]
            try:
                return getattr(obj, v[2])(*args)
            except Exception as ex:
                raise _NoValue(str(ex))
    if k == "dict":
        return {_eval_ir(a, env): _eval_ir(b, env) for a, b in v[1]}
    if k == "cmp" and len(v[1]) == 1 and len(v[2]) == 2:
        import operator as _op
        a, b = _eval_ir(v[2][0], env), _eval_ir(v[2][1], env)
        f = {"Eq": _op.eq, "NotEq": _op.ne, "Lt": _op.lt, "LtE": _op.le, "Gt": _op.gt, "GtE": _op.ge, "In": lambda x, y: x in y, "NotIn": lambda x, y: x not in y}.get(v[1][0])
        if f is None:
            raise _NoValue(v[1][0])
        try:
            return bool(f(a, b))
        except TypeError as ex:
            raise _NoValue(str(ex))
    if k == "bool":
        vals = [bool(_eval_ir(x, env)) for x in v[2]]
        return all(vals) if v[1] == "And" else any(vals)
    if k == "unop" and v[1] == "Not":
        return not _eval_ir(v[2], env)
    raise _NoValue(k)


def _class_is_plain(ci, cls_name):
    """the transformer class and its bases are ordinary nested classes whose callbacks are exactly what their bodies bind (no
    __getattr__ / __default__ hook, no base this module cannot see): a callback that is not bound there does not exist"""
    todo, seen = [cls_name], set()
    while todo:
        c = todo.pop()
        if c in seen:
            continue
        seen.add(c)
        if c == "Transformer":
            continue
        node = ci.nested.get(c)
        if node is None or node.decorator_list or node.keywords:
            return False
        for st in node.body:
            if isinstance(st, ast.FunctionDef) and st.name in ("__getattr__", "__getattribute__", "__default__", "__default_token__", "__init_subclass__", "__class_getitem__"):
                return False
            if not isinstance(st, (ast.FunctionDef, ast.Assign, ast.AnnAssign, ast.Expr, ast.Pass)) or (isinstance(st, ast.Expr) and not isinstance(st.value, ast.Constant)):
                return False
        todo.extend(ast.unparse(b).split(".")[-1] for b in node.bases)
    return True


def _callback_is(ctx, ci, name, want, key, good, wrong, samples=()):
    """The C callback `name` returns, on every path, prefix + sep.join(children) + replacements + suffix as `want` says
    (want = (prefix, sep, replacements as a set, suffix))."""
    from ..valueflow import show
    cb, arg, rets = _callback_returns(ci, "CExpression", name)
    where = (CF, getattr(cb, "lineno", 0))
    src = " ".join(ast.unparse(cb).split())[:140] if cb is not None else "missing"
    if cb is None:
        if _class_is_plain(ci, "CExpression"):
            ctx.bad("R2", key, where, wrong, expected=_want_text(want), found="missing")
        else:
            ctx.unrec("R2", key, where, f"no callback `{name}` is bound in the class bodies, and the transformer classes are not plain classes: cannot tell whether the rule is handled")
        return
    if not rets:
        ctx.unrec("R2", key, where, f"cannot reconstruct what the callback `{name}` returns: {src}")
        return

    def reference(children):
        out = want[0] + want[1].join(children)
        for a, b in want[2]:
            out = out.replace(a, b)
        return out + want[3]
    verdicts = []
    guards = getattr(_callback_returns, "guards", [])
    for n_, v in enumerate(rets):
        d = _decompose(v, arg)
        if d is not None and (d[0], d[1], frozenset(d[2]), d[3]) == (want[0], want[1], frozenset(want[2]), want[3]) and len(d[2]) == len(want[2]):
            verdicts.append("ok")
            continue
        # any other spelling (children picked by position, other order of the replacements, a constant ..): judged by what it
        # produces for concrete children of the shapes the grammar rule has, for the samples this return is reached with (its
        # guards evaluated on the sample) -- wrong only when an output differs
        outs, undecided = [], False
        for smp in samples:
            env = {arg: list(smp)}
            try:
                if not all(bool(_eval_ir(c, env)) == pol for c, pol in (guards[n_] if n_ < len(guards) else [])):
                    continue
                outs.append((_eval_ir(v, env), reference(list(smp))))
            except (_NoValue, IndexError, TypeError, ValueError, KeyError):
                undecided = True
        if any(isinstance(a, str) and a != b for a, b in outs):
            verdicts.append("wrong")
        elif outs and not undecided and all(isinstance(a, str) for a, b in outs):
            verdicts.append("ok")
        else:
            verdicts.append("unknown")
    if "wrong" in verdicts:
        ctx.bad("R2", key, where, wrong, expected=_want_text(want), found=src)
    elif "unknown" in verdicts:
        ctx.unrec("R2", key, where, f"the value returned by `{name}` is not recognised as a concatenation of its children: " + "; ".join(show(v)[:80] for v in rets))
    else:
        ctx.ok("R2", key, where, good)


def _want_text(want):
    pre, sep, reps, post = want
    return (f"{pre!r} + " if pre else "") + f"{sep!r}.join(children)" + "".join(f".replace({a!r}, {b!r})" for a, b in reps) + (f" + {post!r}" if post else "")


def _children_used(cb):
    """Which children of its argument a callback returns: -> (set of constant indexes, form)
    form: 'single' ((x,) = x; return x.value -- exactly one child or an error), 'join' (all joined), 'indexed', 'unrecognised'"""
    if cb is None:
        return set(), "unrecognised"
    if isinstance(cb, ast.Lambda):
        arg = cb.args.args[1].arg if len(cb.args.args) > 1 else None
        body = ast.unparse(cb.body)
        if arg and re.fullmatch(r"""['"]{2}\.join\(%s\)""" % arg, body.replace(" ", "")):
            return set(), "join"
        nodes_ = [cb.body]
    else:
        arg = cb.args.args[1].arg if len(cb.args.args) > 1 else None
        nodes_ = cb.body
        st = [x for x in cb.body if not (isinstance(x, ast.Expr) and isinstance(x.value, ast.Constant))]
        # (the one-element unpacking is what guarantees "exactly one child or an error"; what follows -- the return, possibly through a
        # local -- hands that child on)
        if len(st) >= 2 and isinstance(st[0], ast.Assign) and len(st[0].targets) == 1 and isinstance(st[0].targets[0], (ast.Tuple, ast.List)) and len(st[0].targets[0].elts) == 1 \
                and not isinstance(st[0].targets[0].elts[0], ast.Starred) and isinstance(st[0].value, ast.Name) and st[0].value.id == arg and isinstance(st[-1], ast.Return) \
                and all(isinstance(x, (ast.Assign, ast.AnnAssign, ast.Return)) for x in st[1:]):
            return {0}, "single"
        if len(st) == 1 and isinstance(st[0], ast.Return) and arg and re.fullmatch(r"""['"]{2}\.join\(%s\)""" % arg, ast.unparse(st[0].value).replace(" ", "")):
            return set(), "join"
    used = set()
    whole = False
    for top in nodes_:
        for n in ast.walk(top):
            if isinstance(n, ast.Subscript) and isinstance(n.value, ast.Name) and n.value.id == arg:
                try:
                    used.add(int(ast.literal_eval(n.slice)))
                except Exception:
                    return set(), "unrecognised"
            elif isinstance(n, ast.Call) and ast.unparse(n.func).endswith(".join") and any(isinstance(a, ast.Name) and a.id == arg for a in n.args):
                whole = True
    if whole:
        return set(), "join"
    if used:
        return used, "indexed"
    return set(), "unrecognised"


def _r2(ctx, pkg, ci, gr):
    base = _callbacks(ci.nested["Expression"]) if "Expression" in ci.nested else {}
    tr = {"c": {**base, **_callbacks(ci.nested.get("CExpression", ast.ClassDef(body=[])))},
          "fortran": {**base, **_callbacks(ci.nested.get("FExpression", ast.ClassDef(body=[])))}}
    n = 0
    for gname, other in (("fgrammar", "c"), ("cgrammar", "fortran")):
        text = gr.get(gname)
        if not text:
            continue
        rule_names = re.findall(r"^\s*([a-z_]+)\s*:", text, re.M)
        plain = _class_is_plain(ci, "CExpression" if other == "c" else "FExpression")
        for r in rule_names:
            n += 1
            if r in tr[other] or plain:
                ctx.check(r in tr[other], "R2", f"{gname}:{r} has a {other} callback", (CF, 0), f"rule `{r}` of {gname} is handled by the {other} transformer")
            else:
                ctx.unrec("R2", f"{gname}:{r} has a {other} callback", (CF, 0), f"no callback `{r}` is bound in the class bodies of the {other} transformer, which is not a plain class: cannot tell")
    ctx.floor("R2", "grammar rules", n, 16)
    # purity of the shared callbacks as seen by the C transformer (decided on the value the callback returns, not on its spelling)
    # concrete children of the shapes each rule has (the callbacks see already-transformed children: strings)
    SAMPLES = {"expression": (["a"], ["a", "+", "b*c"], ["a", "-", "b", "+", "c d"]), "multiply": (["a"], ["a", " * ", "b"], ["x", "/", "(a/b)", " * ", "c"]),
               "func": (["exp", "(", "x", ")"], ["f", "(", "x", ", ", "y z", ")"]), "variable": (["T"], ["T", "gas"], ["k", "_", "1", "b"]),
               "atom": (["x"], ["(", "a + b", ")"], ["(", "a", ")"], ["1.e0"]), "power": (["x", "**", "y"], ["(a + b)", "**", "2.e0"]),
               "listvar": (["n", "(", "IDX_H", ")"], ["n", "(", "IDX_HeII", ")"]), "index": (["_", "H"], ["_", "He", "II"], ["_", "C", "_", "1"])}
    for name, sep in PURE_JOIN_OK.items():
        _callback_is(ctx, ci, name, ("", ast.literal_eval(sep), [], ""), f"CExpression.{name} is a pure join", f"`{name}` concatenates all of its children in order",
                     f"the C callback `{name}` is not the plain concatenation of its children: tokens (e.g. parentheses) can be dropped or re-ordered, changing the value of the expression "
                     "(x/(a/b) -> x/a/b)", samples=SAMPLES[name])
    # number literals: the callback must hand over every token of the literal, and every exponent letter the grammar
    # accepts must be one C understands (the callbacks copy the letter)
    for gname, other in (("fgrammar", "c"), ("cgrammar", "fortran")):
        text = gr.get(gname)
        if not text:
            continue
        try:
            rules, terms = _rules(text)
        except Exception:
            continue
        exps = rules.get("scientific", [])
        if not exps:
            ctx.missing("R2", f"{gname}:scientific", (CF, 0), "no `scientific` rule in the grammar")
            continue
        maxlen = max(len(e) for e in exps)
        cb = tr[other].get("scientific")
        used, form = _children_used(cb)
        k = f"{gname}:scientific -> {other} callback keeps every token"
        if form == "unrecognised":
            ctx.unrec("R2", k, (CF, getattr(cb, "lineno", 0)), "cannot tell which children the `scientific` callback keeps")
        else:
            dropped = form == "indexed" and any(len({i if i >= 0 else L + i for i in used if -L <= i < L}) < L for L in {len(e) for e in exps})
            ctx.check(not dropped, "R2", k, (CF, getattr(cb, "lineno", 0)),
                      f"a literal is returned whole ({form})" if not dropped else
                      f"the callback picks children {sorted(used)} of a literal that can have {maxlen} tokens (NUMBER letter SIGN NUMBER): the others -- the sign of the exponent -- are dropped",
                      expected="one token returned whole, or all children joined", found=" ".join(ast.unparse(cb).split())[:140] if cb is not None else "missing")
        if other == "c":
            letters = set()
            for e in exps:
                for nme, is_t in e:
                    if is_t and nme not in ("NUMBER", "SIGN") and nme in terms:
                        pat = getattr(terms[nme].pattern, "value", "")
                        letters.add(pat)
            bad = sorted(x for x in letters if x not in ("e", "E"))
            ctx.check(not bad, "R2", f"{gname}:exponent letters", (CF, 0), "the exponent letters of the grammar are C's (e/E)" if not bad else
                      f"the grammar accepts the exponent letter(s) {bad}, which no callback turns into C's `e`", expected="['E', 'e']", found=str(sorted(letters)))
    _callback_is(ctx, ci, "power", ("pow(", "", [("**", ", ")], ")"), "CExpression.power", "a**b becomes pow(a, b): no `**` survives in C output",
                 "the C callback `power` does not turn `a**b` into pow(a, b): `**` (not a C operator) survives or the operands are altered", samples=SAMPLES["power"])
    # the three single-character replacements do not feed each other ( '(' ')' 'n' are not produced by any of them ): any order
    _callback_is(ctx, ci, "listvar", ("", "", [("(", "["), (")", "]"), ("n", "y")], ""), "CExpression.listvar", "n(idx_X) becomes y[IDX_X]",
                 "the C callback `listvar` does not turn n(idx_X) into y[IDX_X]", samples=SAMPLES["listvar"])
    _callback_is(ctx, ci, "index", ("IDX", "", [], ""), "CExpression.index", "idx_X becomes IDX_X", "the C callback `index` does not turn idx_X into IDX_X", samples=SAMPLES["index"])


def _prepass(ctx, pkg, fn):
    """The text handed to the Fortran parser, as a pipeline over self.rate_string, read off the reconstructed value (sa.valueflow;
    module-level helper functions inlined, rewrite tables unrolled) -- whatever the spelling: re.sub(p, r, s), re.compile(p).sub(r, s),
    chained or stepwise, in the method or in a helper.
    -> (converter IR | None, [(pattern | None, replacement | None, line)], [(old, new, line)], problem | None)"""
    from ..valueflow import Flow, simp, show
    SELF = ("param", "self")
    mod = pkg.modules[KR]

    def line_of(text, default):
        for n in ast.walk(mod):
            if isinstance(n, ast.Constant) and n.value == text:
                return n.lineno
        return default

    def cls_helper(name):
        return pkg.resolve("KROMEReaction", name)[1] if name.startswith("_") and not name.startswith("__") else None
    fl = Flow(fn, KR, resolver=cls_helper, func_resolver=lambda name: pkg.functions.get((KR, name)))
    reads = [f for f in fl.facts if f.kind == "call" and f.value is not None and simp(f.value)[0] == "meth" and simp(f.value)[2] == "read" and len(simp(f.value)[3]) == 1]
    if len(reads) != 1:
        return None, [], [], f"expected one <converter>.read(text) call, found {len(reads)}"
    rd = simp(reads[0].value)
    conv, x = rd[1], rd[3][0]
    subs, repl = [], []
    is_re = lambda o: o in (("global", "re"),)

    def module_value(v):
        """a module-level name bound once (`_pattern = re.compile(r"..")`) is the value it is bound to"""
        if v[0] == "global":
            defs = [st for st in mod.body if isinstance(st, ast.Assign) and any(isinstance(t, ast.Name) and t.id == v[1] for t in st.targets)]
            stores = [n for n in ast.walk(mod) if isinstance(n, ast.Name) and n.id == v[1] and isinstance(n.ctx, (ast.Store, ast.Del))]
            if len(defs) == 1 and len(stores) == 1:
                from ..ratemodel import _ev_literal
                return simp(_ev_literal(defs[0].value))
        return v

    def compiled(o):
        """pattern text of `re.compile("..")` (written in place or bound to a module-level name); None otherwise"""
        o = module_value(o)
        if o[0] == "meth" and is_re(o[1]) and o[2] == "compile" and len(o[3]) >= 1 and not o[4] and o[3][0][0] == "const" and isinstance(o[3][0][1], str):
            return o[3][0][1] if len(o[3]) == 1 else None
        return None
    const = lambda a: a[1] if a[0] == "const" and isinstance(a[1], str) else None

    def replacement(a):
        """the replacement argument of a substitution: a literal template, or a FUNCTION of the match -- then the template it is
        equal to when it only re-assembles groups and literal text, else ("computed", what it does, re-prints a number?)"""
        if const(a) is not None or a[0] not in ("global", "lambda", "attr"):
            return const(a)
        callee = None
        if a[0] == "global":
            callee = pkg.functions.get((KR, a[1]))
        elif a[0] == "attr" and a[1] in (SELF, ("param", "cls")):
            callee = cls_helper(a[2]) or pkg.resolve("KROMEReaction", a[2])[1]
        if a[0] == "lambda":
            m_, vals = (a[1][0] if len(a[1]) == 1 else None), [a[2]]
        elif callee is not None:
            ps = [p_.arg for p_ in callee.args.args]
            if a[0] == "attr" and not any(ast.unparse(d) == "staticmethod" for d in callee.decorator_list):
                ps = ps[1:]
            m_ = ("param", ps[0]) if len(ps) == 1 else None
            vals = [simp(f.value) for f in Flow(callee, KR).facts if f.kind == "return" and f.value is not None]
        else:
            return None
        if m_ is None or len(vals) != 1:
            return ("computed", show(a)[:60], False)

        def template(v):
            if v[0] == "const" and isinstance(v[1], str):
                return v[1] if "\\" not in v[1] else None
            if v[0] == "fstr":
                ps_ = [template(p_) for p_ in v[1]]
                return None if any(p_ is None for p_ in ps_) else "".join(ps_)
            if v[0] == "fmt":
                return template(v[1]) if v[2] is None and v[3] == -1 else None
            g = None
            if v[0] == "meth" and v[1] == m_ and v[2] == "group" and len(v[3]) == 1 and not v[4] and v[3][0][0] == "const":
                g = v[3][0][1]
            elif v[0] == "sub" and v[1] == m_ and v[2][0] == "const":
                g = v[2][1]
            elif v[0] == "item" and v[1] == ("meth", m_, "groups", (), ()) and isinstance(v[2], int) and v[2] >= 0:
                g = v[2] + 1
            return f"\\{g}" if type(g) is int and 0 < g < 10 else None
        t = template(vals[0])
        if t is not None:
            return t
        from ..valueflow import walk
        reprints = any(isinstance(y, tuple) and ((len(y) == 4 and y[0] == "call" and y[1] in (("global", "float"), ("global", "int"), ("global", "round"), ("global", "repr"), ("global", "Decimal")))
                                                 or (len(y) == 4 and y[0] == "fmt" and y[2] is not None)) for y in walk(vals[0]))
        return ("computed", show(vals[0])[:80], reprints)
    for _ in range(40):
        if x == ("attr", SELF, "rate_string"):
            return conv, list(reversed(subs)), list(reversed(repl)), None
        if x[0] == "meth" and x[2] == "sub" and is_re(x[1]) and len(x[3]) == 3 and not x[4]:
            pat, rep = const(x[3][0]), replacement(x[3][1])
            if pat is None:
                pat = compiled(x[3][0])
            subs.append((pat, rep, line_of(pat, reads[0].line)))
            x = x[3][2]
        elif x[0] == "meth" and x[2] == "sub" and is_re(x[1]) is False and len(x[3]) == 2 and not x[4] and \
                (compiled(x[1]) is not None or (module_value(x[1])[0] == "meth" and is_re(module_value(x[1])[1]) and module_value(x[1])[2] == "compile")):
            pat, rep = compiled(x[1]), replacement(x[3][0])
            subs.append((pat, rep, line_of(pat, reads[0].line)))
            x = x[3][1]
        elif x[0] == "meth" and x[2] == "replace" and len(x[3]) == 2 and not x[4] and const(x[3][0]) is not None and const(x[3][1]) is not None:
            repl.append((const(x[3][0]), const(x[3][1]), reads[0].line))
            x = x[1]
        else:
            break
    return conv, list(reversed(subs)), list(reversed(repl)), f"the parsed text is not a chain of re.sub / str.replace over self.rate_string: {show(x)[:100]}"


def _r3(ctx, pkg):
    import re._parser as sp
    # the method with the private stages it may have been split into put back (statement helpers as statements: the
    # <converter>.read(text) call of a helper is a call of rateexpr)
    fn = pkg.expanded("KROMEReaction", "rateexpr")
    ctx.saw(KR, "KROMEReaction.rateexpr")
    conv, subs, repl, problem = _prepass(ctx, pkg, fn)
    if problem:
        ctx.unrec("R3", "pre-pass", (KR, fn.lineno), problem)
        return
    ctx.floor("R3", "regex rewritings", len(subs), 4, (KR, fn.lineno))
    seen_d = 0
    for pat, rep, line in subs:
        if isinstance(rep, tuple) and rep[0] == "computed":
            # the replacement is a function of the match that does more than re-assemble its groups
            if rep[2]:
                ctx.bad("R3", f"computed rewriting {pat!r}", (KR, line),
                        f"the text matched by {pat!r} is not rewritten by a reviewed template but RE-GENERATED by a function ({rep[1]}): a number literal that goes through float()/"
                        "a format specification comes out with another spelling -- integral-valued reals lose their decimal point (1.d0 -> 1, so 1.d0/2.d0 becomes the C integer "
                        "division 1/2 = 0), long mantissas are rounded", expected=r"(\d\.?)d(\-?\d) -> \1e\2 (the literal's own digits, only the exponent letter changed)",
                        found=f"{pat} -> {rep[1]}")
            else:
                ctx.unrec("R3", f"computed rewriting {pat!r}", (KR, line), f"the replacement of {pat!r} is computed by a function that is not understood: {rep[1]}")
            continue
        if pat is None:
            ctx.unrec("R3", f"re.sub@{line}", (KR, line), "pattern is not a literal")
            continue
        if pat.startswith("(idx_"):
            # suffix patterns: group 1 must admit names of any length
            p = sp.parse(pat)
            g = [a for op, a in p if op is sp.SUBPATTERN]
            anylen = False
            if g:
                inner = g[0][3]
                for op, a in inner:
                    if op is sp.MAX_REPEAT and a[1] == sp.MAXREPEAT:
                        anylen = True
            suffix = pat[len(pat.rstrip("pm)\\")):] if False else pat.split(")")[-1] if not pat.endswith("\\)") else ")"
            ctx.check(anylen, "R3", f"idx suffix pattern {pat!r}", (KR, line),
                      "the species name before the charge suffix may have any length" if anylen else
                      f"`{pat}` admits at most one character between `idx_` and the suffix: n(idx_Hep) is not rewritten to y[IDX_HeII] (and n(idx_E) becomes y[IDX_EI], which is not the "
                      "electron's alias), so the reference does not resolve to the species' abundance variable",
                      expected="(idx_\\w+?)<suffix> with a boundary", found=pat)
            continue
        if "d" in pat and rep is not None and "e" in rep:
            seen_d += 1
            p = sp.parse(pat)
            # shape: (digit .?) d (-? digit)
            ok = pat == r"(\d\.?)d(\-?\d)" and rep == r"\1e\2"
            if not ok:
                # semantic check: group1 must contain a DIGIT category, 'd' literal, group2 keeps sign and a digit, replacement \1e\2
                try:
                    items = list(p)
                    g1, lit, g2 = items[0], items[1], items[2]
                    has_digit = lambda sub: any(op is sp.IN and any(x == (sp.CATEGORY, sp.CATEGORY_DIGIT) for x in a) for op, a in sub[1][3])
                    ok = len(items) == 3 and g1[0] is sp.SUBPATTERN and g2[0] is sp.SUBPATTERN and lit == (sp.LITERAL, ord("d")) and has_digit(g1) and has_digit(g2) and rep == r"\1e\2"
                except Exception:
                    ok = False
            if not ok and isinstance(rep, str):
                # another spelling of the pattern: judged by what it does to Fortran literals (and to text it must leave alone), against
                # the reviewed rewriting -- the regex engine applied to literals written in the source, nothing of naunet is run
                SAMPLES_D = ["1.d0", "2.5d-3", "1d10", "3.0d1*x", "k(idx_d)", "exp(-1.d0/T)", "1.2d-9*T32**(1d0/3d0)", "dexp(2d0)", "(Tgas/1d4)**(-3d0/2d0)", "user_d2", "4.d-10", "1.00d+00"]
                try:
                    got = [re.sub(pat, rep, t) for t in SAMPLES_D]
                    ref = [re.sub(r"(\d\.?)d(\-?\d)", r"\1e\2", t) for t in SAMPLES_D]
                    ok = got == ref
                except re.error:
                    ctx.unrec("R3", "d-exponent pattern", (KR, line), f"the pattern {pat!r} / replacement {rep!r} does not compile")
                    continue
            ctx.check(ok, "R3", "d-exponent pattern", (KR, line), "<digits>d<exp> becomes <digits>e<exp>, sign and digits of the exponent kept", expected=r"(\d\.?)d(\-?\d) -> \1e\2", found=f"{pat} -> {rep}")
            continue
        ctx.bad("R3", f"unreviewed rewriting {pat!r}", (KR, line),
                f"re.sub({pat!r}, {rep!r}) rewrites the rate text before it is parsed and is not one of the reviewed rewritings (d-exponent, idx_ suffixes): it can change the value of "
                "numbers it was not meant for (2.5d03 -> 2.53) or turn reals into integers (1d0/3d0 -> 1/3)",
                expected="only the d-exponent and idx_ suffix rewritings")
    ctx.check(seen_d == 1, "R3", "d-exponent rewriting present once", (KR, fn.lineno), "Fortran d-exponents are converted exactly once", found=str(seen_d))
    ok_rep = sorted((a, b) for a, b, _ in repl) == [("Hnuclei", "nH")]
    ctx.check(ok_rep, "R3", "literal replacements", (KR, fn.lineno), "the only literal replacement is Hnuclei -> nH (the registered density symbol)", found=str([(a, b) for a, b, _ in repl]))
    # the converted text is what is returned: the value is the converter that read the text, printed with the C transformer
    from ..valueflow import Flow, simp
    rets = [simp(f.value) for f in Flow(fn, KR).facts if f.kind == "return" and f.value is not None]
    printed = [r for r in rets if r[0] == "fstr" and len(r[1]) == 1 and r[1][0][0] == "fmt" and r[1][0][2] == "c"]      # f"{x:c}" == format(x, "c")
    ok_conv = len(rets) == 1 and len(printed) == 1 and printed[0][1][0][1] == conv
    if ok_conv or (len(rets) == 1 and printed):
        ctx.check(ok_conv, "R3", "conversion", (KR, fn.lineno),
                  "the rewritten text is parsed with the Fortran grammar and printed with the C transformer (unparsable text raises)" if ok_conv else
                  "the converter that is printed is not the one that read the rewritten text")
    else:
        ctx.unrec("R3", "conversion", (KR, fn.lineno), "cannot see that rateexpr returns the C rendering (format spec 'c') of the converter that read the text")


MUTANTS = [
    {"name": "rate-text-post-processed", "file": "naunet/templateloader.py", "old": "        rateassign = [\n", "new": "        rateexprs = [rx.replace(\"pow(\", \"powf(\") for rx in rateexprs]\n        rateassign = [\n", "rules": ["R7"]},
    {"name": "repeated-expression-copied", "file": "naunet/templateloader.py", "old": "        rateassign = [\n", "new": "        first_use = {}\n        for ridx, rx in enumerate(rateexprs):\n            prev = first_use.setdefault(rx, ridx)\n            if prev != ridx:\n                rateexprs[ridx] = f\"{rate_sym}[{prev}]\"\n        rateassign = [\n", "rules": ["R7"]},
    {"name": "lark-lalr", "file": CF, "old": 'self._parser = Lark(grammar, start="expression")', "new": 'self._parser = Lark(grammar, start="expression", parser="lalr")', "rules": ["R6"]},
    {"name": "krome-rateexpr-lru-cache", "file": KR, "old": "    def rateexpr(self, grain: Grain = None) -> str:", "new": "    @__import__('functools').lru_cache(maxsize=None)\n    def rateexpr(self, grain: Grain = None) -> str:", "rules": ["R5"]},
    {"name": "scientific-mantissa-e-last", "file": CF, "old": "            (s,) = s\n            return s.value", "new": "            if len(s) == 1:\n                return s[0].value\n            return f\"{s[0]}e{s[-1]}\"", "rules": ["R2"]},
    {"name": "fortran-grammar-D-exponent", "edits": [
        {"file": CF, "old": "        scientific: NUMBER ((E1 | E2) SIGN? NUMBER)?\n        atom: scientific\n            | power\n            | variable\n            | listvar\n            | func\n            | LPAREN expression RPAREN\n        PLUS", "new": "        scientific: NUMBER ((E1 | E2 | D1) SIGN? NUMBER)?\n        atom: scientific\n            | power\n            | variable\n            | listvar\n            | func\n            | LPAREN expression RPAREN\n        PLUS"},
        {"file": CF, "old": '        POW: "**"\n', "new": '        POW: "**"\n        D1: "D"\n'}], "rules": ["R2"]},
    {"name": "c-power-callback-deleted", "file": CF, "old": "        power = lambda self, p: f\"pow({''.join(p).replace('**', ', ')})\"\n", "new": "", "rules": ["R2"]},
    {"name": "c-atom-drops-parentheses", "file": CF, "old": "    class CExpression(Expression):\n", "new": "    class CExpression(Expression):\n        def atom(self, a):\n            if len(a) == 3 and \" \" not in a[1]:\n                return a[1]\n            return \"\".join(a)\n\n", "rules": ["R2"]},
    {"name": "krome-user-vars-not-reset", "file": KR, "old": "        cls._user_vars = []\n\n    @classmethod\n    def preprocessing", "new": "\n    @classmethod\n    def preprocessing", "rules": ["R4"]},
    {"name": "strip-d0", "file": KR, "old": '        rate = re.sub(r"(\\d\\.?)d(\\-?\\d)", r"\\1e\\2", self.rate_string)\n', "new": '        rate = re.sub(r"(\\d\\.?)d0", r"\\1", self.rate_string)\n        rate = re.sub(r"(\\d\\.?)d(\\-?\\d)", r"\\1e\\2", rate)\n', "rules": ["R3"]},
    {"name": "d-exponent-drops-sign", "file": KR, "old": 'r"(\\d\\.?)d(\\-?\\d)", r"\\1e\\2"', "new": 'r"(\\d\\.?)d\\-?(\\d)", r"\\1e\\2"', "rules": ["R3"]},
    {"name": "expression-join-without-space", "file": CF, "old": '        expression = lambda self, e: " ".join(e)', "new": '        expression = lambda self, e: "".join(e[::-1])', "rules": ["R2"]},
    {"name": "listvar-keeps-parentheses", "file": CF, "old": '            .replace("(", "[")\n            .replace(")", "]")\n            .replace("n", "y")', "new": '            .replace("n", "y")', "rules": ["R2"]},
    {"name": "listvar-translate-table-wrong-target", "file": CF, "old": '        listvar = (\n            lambda self, l: "".join(l)\n            .replace("(", "[")\n            .replace(")", "]")\n            .replace("n", "y")\n        )\n', "new": '        _lv = str.maketrans("()n", "[]x")\n\n        def listvar(self, l):\n            return "".join(l).translate(self._lv)\n', "rules": ["R2"]},
    {"name": "d-exponent-reprinted-through-float", "edits": [
        {"file": KR, "old": '        rate = re.sub(r"(\\d\\.?)d(\\-?\\d)", r"\\1e\\2", self.rate_string)\n', "new": '        rate = re.sub(r"(\\d+\\.?\\d*)d(\\-?\\d+)", lambda m: "%g" % float(m.group(1) + "e" + m.group(2)), self.rate_string)\n'}], "rules": ["R3"]},
    {"name": "rewrite-table-with-unreviewed-row", "edits": [
        {"file": KR, "old": '        rate = re.sub(r"(\\d\\.?)d(\\-?\\d)", r"\\1e\\2", self.rate_string)\n        rate = re.sub(r"(idx_.?)p", r"\\1II", rate)\n        rate = re.sub(r"(idx_.?)m", r"\\1M", rate)\n        rate = re.sub(r"(idx_.?)\\)", r"\\1I)", rate)\n', "new": '        rate = self.rate_string\n        for pattern, replacement in self._rewrites:\n            rate = re.sub(pattern, replacement, rate)\n'},
        {"file": KR, "old": '    def rateexpr(self, grain: Grain = None) -> str:', "new": '    _rewrites = (\n        (r"(\\d\\.?)d(\\-?\\d)", r"\\1e\\2"),\n        (r"\\.0+e", r"e"),\n        (r"(idx_.?)p", r"\\1II"),\n        (r"(idx_.?)m", r"\\1M"),\n        (r"(idx_.?)\\)", r"\\1I)"),\n    )\n\n    def rateexpr(self, grain: Grain = None) -> str:'}], "rules": ["R3"]},
]
BENIGN = [
    {"name": "grammar-assembled-from-fragments", "file": CF, "old": '    fgrammar = r"""\n        expression: multiply ((PLUS | MINUS) multiply)*\n',
     "new": '    _sum_rule = r"""\n        expression: multiply ((PLUS | MINUS) multiply)*\n"""\n    fgrammar = _sum_rule + r"""'},
    {"name": "prepass-compiled-pattern-and-chained-replace", "file": KR,
     "old": '        rate = re.sub(r"(idx_.?)\\)", r"\\1I)", rate)\n        rate = rate.replace("Hnuclei", "nH")\n        self._kromerateconverter.read(rate)\n',
     "new": '        closing = re.compile(r"(idx_.?)\\)")\n        conv = self._kromerateconverter\n        conv.read(closing.sub(r"\\1I)", rate).replace("Hnuclei", "nH"))\n'},
    {"name": "c-power-by-concatenation-and-helper", "edits": [
        {"file": CF, "old": "        power = lambda self, p: f\"pow({''.join(p).replace('**', ', ')})\"\n", "new": "        def power(self, parts):\n            arguments = self._glue(parts).replace(\"**\", \", \")\n            return \"pow(\" + arguments + \")\"\n"},
        {"file": CF, "old": "    class Expression(Transformer):\n", "new": "    class Expression(Transformer):\n        @staticmethod\n        def _glue(children):\n            return \"\".join(children)\n\n"}]},
    {"name": "c-listvar-stepwise-other-order", "file": CF, "old": '            .replace("(", "[")\n            .replace(")", "]")\n            .replace("n", "y")', "new": '            .replace("n", "y")\n            .replace(")", "]")\n            .replace("(", "[")'},
    {"name": "atom-as-def", "file": CF, "old": '        atom = lambda self, a: "".join(a)', "new": '        def atom(self, parts):\n            text = "".join(parts)\n            return text'},
    {"name": "callback-arg-renamed", "file": CF, "old": '        atom = lambda self, a: "".join(a)', "new": '        atom = lambda self, parts: "".join(parts)'},
    {"name": "listvar-translate-table", "file": CF, "old": '        listvar = (\n            lambda self, l: "".join(l)\n            .replace("(", "[")\n            .replace(")", "]")\n            .replace("n", "y")\n        )\n', "new": '        _lv = str.maketrans("()n", "[]y")\n\n        def listvar(self, l):\n            return "".join(l).translate(self._lv)\n'},
    {"name": "join-callbacks-share-one-method", "file": CF, "old": '        multiply = lambda self, m: "".join(m)\n        power = lambda self, p: "".join(p)\n        func = lambda self, f: "".join(f)\n', "new": '        def _concat(self, children):\n            return "".join(children)\n\n        multiply = power = func = _concat\n'},
    {"name": "index-prefix-class-constant", "file": CF, "old": '        index = lambda self, i: f"IDX{\'\'.join(i)}"\n', "new": '        _index_prefix = "IDX"\n\n        def index(self, i):\n            return self._index_prefix + "".join(i)\n'},
    {"name": "rewrites-as-class-table-and-staged-helpers", "edits": [
        {"file": KR, "old": '        rate = re.sub(r"(\\d\\.?)d(\\-?\\d)", r"\\1e\\2", self.rate_string)\n        rate = re.sub(r"(idx_.?)p", r"\\1II", rate)\n        rate = re.sub(r"(idx_.?)m", r"\\1M", rate)\n        rate = re.sub(r"(idx_.?)\\)", r"\\1I)", rate)\n' + '        rate = rate.replace("Hnuclei", "nH")\n        self._kromerateconverter.read(rate)\n        rate = f"{self._kromerateconverter:c}"\n        return rate\n',
         "new": '        return self._to_c(self._prepared(self.rate_string))\n\n    def _prepared(self, text):\n        for pattern, replacement in self._rewrites:\n            text = pattern.sub(replacement, text)\n        return text.replace("Hnuclei", "nH")\n\n    def _to_c(self, text):\n        self._kromerateconverter.read(text)\n        return format(self._kromerateconverter, "c")\n'},
        {"file": KR, "old": '    def rateexpr(self, grain: Grain = None) -> str:', "new": '    _rewrites = (\n        (re.compile(r"(\\d\\.?)d(\\-?\\d)"), r"\\1e\\2"),\n        (re.compile(r"(idx_.?)p"), r"\\1II"),\n        (re.compile(r"(idx_.?)m"), r"\\1M"),\n        (re.compile(r"(idx_.?)\\)"), r"\\1I)"),\n    )\n\n    def rateexpr(self, grain: Grain = None) -> str:'}]},
    {"name": "d-exponent-replacement-as-function-of-the-groups", "file": KR, "old": '        rate = re.sub(r"(\\d\\.?)d(\\-?\\d)", r"\\1e\\2", self.rate_string)\n', "new": '        rate = re.sub(r"(\\d\\.?)d(\\-?\\d)", lambda m: m.group(1) + "e" + m.group(2), self.rate_string)\n'},
]


# ---------------------------------------------------------------- second catalogue: other spellings of callbacks / grammar text; sign rule; text identity
_POWER_C = "        power = lambda self, p: f\"pow({''.join(p).replace('**', ', ')})\"\n"
_ATOM = '        atom = lambda self, a: "".join(a)'
_LISTVAR_C = '        listvar = (\n            lambda self, l: "".join(l)\n            .replace("(", "[")\n            .replace(")", "]")\n            .replace("n", "y")\n        )\n'
_FACTORY = ('def _joined(separator="", prefix=""):\n    def callback(self, children):\n        return prefix + separator.join(children)\n\n    return callback\n\n\n'
            'class ExpressionConverter:\n')
_SIGNED_RULE = "        scientific: NUMBER ((E1 | E2) SIGN? NUMBER)?\n        atom: scientific\n            | power\n            | variable\n            | listvar\n            | func\n            | LPAREN expression RPAREN\n        PLUS"
MUTANTS += [
    {"name": "fortran-atom-with-a-leading-sign", "edits": [
        {"file": CF, "old": _SIGNED_RULE, "new": _SIGNED_RULE.replace("        atom: scientific\n", "        negated: MINUS (variable | func | LPAREN expression RPAREN)\n        atom: scientific\n            | negated\n")},
        {"file": CF, "old": _ATOM, "new": _ATOM + '\n        negated = lambda self, a: "".join(a)'}], "rules": ["R1"]},
    {"name": "c-power-operands-by-position-swapped", "file": CF, "old": _POWER_C, "new": '        power = lambda self, p: f"pow({p[2]}, {p[0]})"\n', "rules": ["R2"]},
    {"name": "preprocessing-respells-literals-for-the-whole-line", "file": KR, "old": "        else:\n            return line.strip()\n", "new": "        else:\n            return re.sub(r\"(\\d)[dD]0\\b\", r\"\\1\", line.strip())\n", "rules": ["R8"]},
    {"name": "rate-field-case-folded", "file": KR, "old": '                    self.rate_string = value.replace("dexp", "exp")', "new": '                    self.rate_string = value.lower().replace("dexp", "exp")', "rules": ["R8"]},
]
BENIGN += [
    {"name": "c-power-operands-by-position", "file": CF, "old": _POWER_C, "new": '        power = lambda self, p: f"pow({p[0]}, {p[2]})"\n'},
    {"name": "atom-single-child-shortcut", "file": CF, "old": _ATOM, "new": '        def atom(self, a):\n            if len(a) == 1:\n                return a[0]\n            return "".join(a)'},
    {"name": "join-callbacks-from-a-module-level-factory", "edits": [
        {"file": CF, "old": "class ExpressionConverter:\n", "new": _FACTORY},
        {"file": CF, "old": '        expression = lambda self, e: " ".join(e)\n        multiply = lambda self, m: "".join(m)\n', "new": '        expression = _joined(" ")\n        multiply = _joined()\n'},
        {"file": CF, "old": "        index = lambda self, i: f\"IDX{''.join(i)}\"\n", "new": '        index = _joined(prefix="IDX")\n'}]},
    {"name": "listvar-table-at-module-level", "edits": [
        {"file": CF, "old": "class ExpressionConverter:\n", "new": '_TO_C = str.maketrans("()n", "[]y")\n\n\nclass ExpressionConverter:\n'},
        {"file": CF, "old": _LISTVAR_C, "new": '        def listvar(self, l):\n            return "".join(l).translate(_TO_C)\n', "count": 1}]},
    {"name": "grammar-pieces-at-module-level-through-a-layout-function", "edits": [
        {"file": CF, "old": "class ExpressionConverter:\n", "new": '_SUM = "expression: multiply ((PLUS | MINUS) multiply)*"\n\n\ndef _block(*lines):\n    return "\\n".join(lines) + "\\n"\n\n\nclass ExpressionConverter:\n'},
        {"file": CF, "old": '    fgrammar = r"""\n        expression: multiply ((PLUS | MINUS) multiply)*\n', "new": '    fgrammar = _block(_SUM) + r"""'}]},
    {"name": "preprocessing-strips-into-a-local", "file": KR, "old": "        else:\n            return line.strip()\n", "new": "        else:\n            stripped = line.strip()\n            return stripped\n"},
]


# ---------------------------------------------------------------- third catalogue: the per-file reset as the entry of a `with` block (R4, shared with C17)
_NF = "naunet/network.py"
_RESET_OLD = ("        rclass = supported_reaction_class.get(format)\n        if rclass:\n            rclass.initialize()\n        else:\n            raise RuntimeError(f\"Unknown format: {format}\")\n\n"
              "        with open(filename, \"r\") as networkfile:\n")
_RESET_NEW = "        rclass = supported_reaction_class.get(format)\n        with _Reading(rclass, format), open(filename, \"r\") as networkfile:\n"


def _reading_cm(enter):
    return ("class _Reading:\n    def __init__(self, rclass, format):\n        self._rclass = rclass\n        self._format = format\n\n    def __enter__(self):\n"
            "        if not self._rclass:\n            raise RuntimeError(f\"Unknown format: {self._format}\")\n" + enter +
            "\n    def __exit__(self, exc_type, exc_value, traceback):\n        return False\n\n\ndef define_reaction(name: str):\n")


MUTANTS += [
    {"name": "reset-in-a-context-manager-skipped-for-one-format", "edits": [
        {"file": _NF, "old": _RESET_OLD, "new": _RESET_NEW},
        {"file": _NF, "old": "def define_reaction(name: str):\n", "new": _reading_cm("        if self._format != \"krome\":\n            self._rclass.initialize()\n")}], "rules": ["R4"]},
]
BENIGN += [
    {"name": "reset-in-a-context-manager", "edits": [
        {"file": _NF, "old": _RESET_OLD, "new": _RESET_NEW},
        {"file": _NF, "old": "def define_reaction(name: str):\n", "new": _reading_cm("        self._rclass.initialize()\n")}]},
]
