"""C07 -- reaction files of all six formats are decoded faithfully (structural clauses)."""
from __future__ import annotations

import ast
import re

from ..pymodel import package
from ..ratemodel import model as ratemodel, SELF
from ..valueflow import Flow, as_map, match, V, show, simp, walk

EXPLANATION = (
    "R1 blank / comment lines add nothing: the value whose truthiness decides 'no reaction' in _reaction_factory has passed through str.strip; "
    "every _parse_string guards against blank input; the base Reaction.preprocessing is the identity (it drops no line: data lines of UCLCHEM / "
    "Leeds / native files may begin with the surface prefix '#'), only KROME -- whose own syntax defines '#', '//' and '@' lines -- filters by "
    "prefix; R2 marker tokens never become species: reactant/product lists go through _create_species with a None filter (C01.R6), the default "
    "pseudo-element list contains the databases' marker tokens, UCLCHEM's keyword list contains every key of reactant2type plus NAN; R3 arity: "
    "every destructuring of a split line has as many targets as the format has fields and the starred part is consumed by slices of matching "
    "total length; R4 fixed widths: KIDA slices are contiguous [:34], [34:90], [90:] with 34 = 3*11+1, 56 = 5*11+1 as naunet's own KIDA writer "
    "lays them out (decided on the constant bounds after slices of slices are composed); every attribute of a Leeds record is decoded from its published columns of the "
    "125-column record, whatever the way the line is cut (parsers are read in their folded form, pymodel.folded: helpers put back, class-level tables in place, static loops "
    "over zip / enumerate / accumulate of literal tables unrolled); R5 every "
    "numeric attribute is read from the field position the format's layout (DESIGN Appendix C) gives it and converted with int/float; R6 code "
    "tables map each external code to the ReactionType value the format definition gives it (Appendix B); R7 temperature-window fields are decoded as written "
    "(shared with C06.R4: KROME operator tokens / d-exponents / no-bound spellings or a number extractor that admits every exponent spelling; float(field) "
    "without a silent fallback in the fixed formats).")
ASSUMPTIONS = [
    "that an arbitrary well-formed line is decoded to the right values is a statement about all inputs of a parser: not decided",
    "record layouts and code tables are those of DESIGN.md Appendices B and C",
]
ENGINES = ["pymodel", "valueflow", "ratemodel"]

NET = "naunet/network.py"
R = "naunet/reactions/reaction.py"

# Appendix B (by ReactionType value)
CODES = {
    ("KIDAReaction", "formula2type"): {1: 101, 2: 102, 3: 100, 4: 110, 5: 111, 6: 103},
    ("UMISTReaction", "code2type"): {**{c: 100 for c in ("AD", "CD", "CE", "DR", "IN", "MN", "NN", "RA", "REA", "RR")}, "CP": 101, "CR": 120, "PH": 102},
    ("LEEDSReaction", "rtype2type"): {1: 100, 2: 101, 3: 120, 4: 102, 5: 130, 6: 220, 7: 200, 8: 201, 9: 202, 10: 203, 11: 301, 12: 302, 13: 300, 14: 204, 20: 221},
    ("UCLCHEMReaction", "reactant2type"): {"CRP": 101, "PHOTON": 102, "CRPHOT": 120, "FREEZE": 200, "DESOH2": 210, "DESCR": 202, "DEUVCR": 203, "THERM": 201, "DIFF": 310, "CHEMDES": 204},
}
# Appendix C: attribute -> (field position, converter) in the split record
LAYOUT = {
    "UMISTReaction": {"sep": ":", "n": 14, "fields": {"idxfromfile": (0, "int"), "code": (1, None), "alpha": (9, "float"), "beta": (10, "float"), "gamma": (11, "float"),
                                                     "temp_min": (12, "float"), "temp_max": (13, "float")}, "reactants": (2, 4), "products": (4, 8)},
    "UCLCHEMReaction": {"sep": ",", "n": 12, "fields": {"alpha": (7, "float"), "beta": (8, "float"), "gamma": (9, "float"), "temp_min": (10, "float"), "temp_max": (11, "float")},
                        "reactants": (0, 3), "products": (3, 7)},
}
KIDA_TAIL = {"alpha": (0, "float"), "beta": (1, "float"), "gamma": (2, "float"), "itype": (6, "int"), "temp_min": (7, "float"), "temp_max": (8, "float"),
             "formula": (9, "int"), "idxfromfile": (10, "int")}
LEEDS_LABELS = ["idx", "reac", "prod", "a", "b", "c", "lt", "ht", "type"]
LEEDS_WIDTHS = [5, 30, 50, 8, 9, 10, 5, 5, 3]
LEEDS_ATTR = {"idx": "idxfromfile", "reac": "reactants", "prod": "products", "a": "alpha", "b": "beta", "c": "gamma", "lt": "temp_min", "ht": "temp_max", "type": "rtype"}
MARKERS = {"CR", "CRP", "PHOTON", "Photon", "CRPHOT"}
KEEP = ("_create_species",)        # helpers the rules treat as primitives when a parser is read in its folded form


def _parser(pkg, cls):
    """_parse_string of a format class in the form the rules read (pymodel.folded): the private helpers it was split into put back,
    class-level tables written in place, static loops over literal tables unrolled, table-driven setattr / getattr resolved"""
    pkg.method(cls, "_parse_string")           # the anchor itself must exist
    return pkg.folded(cls, "_parse_string", keep=KEEP)


def check(ctx):
    pkg = package(ctx.tree)
    rm = ratemodel(ctx.tree)
    _r1(ctx, pkg)
    _r2(ctx, pkg)
    # marker tokens never become species: the whole pseudo-element discipline of C01.R6 (lists filled through _create_species with a
    # None filter; _create_species refuses exactly the configured pseudo-elements -- whole-name membership, not a prefix or pattern)
    from .c01 import _r6 as pseudo_rule
    ctx.absorb(pseudo_rule, "R2", only=lambda o: o.outcome != "MISSING")
    _split_formats(ctx, pkg)
    _kida(ctx, pkg)
    _leeds(ctx, pkg)
    _r6(ctx, rm, pkg)
    # temperature-window fields are decoded as written (shared with C06.R4): KROME window syntax, float(field) everywhere
    from .c06 import _r4 as window_rules
    ctx.absorb(window_rules, "R7", only=lambda o: o.outcome != "MISSING")
    # a record is decoded from the record and the network's own tables only: no cache or memo shared across files / networks
    # of the process stands between them (shared with C17.R3)
    from .c17 import discovered_state, krome_reset
    ctx.absorb(lambda sub: discovered_state(sub, package(sub.tree), "R8"), "R8", only=lambda o: o.outcome != "MISSING")
    # the column layout a KROME file is decoded with is that file's own: directive state is reset before EVERY file (shared with C12.R4 / C17.R4)
    krome_reset(ctx, pkg, "R9")
    _r10(ctx, pkg)
    _r11(ctx, pkg)
    # a reaction read from a file takes part in the equations: nothing filters reactions between the list and the ODE terms
    # (shared with C01.R2/R3)


# ------------------------------------------------------------------ R10  prefixes are removed as prefixes

def _r10(ctx, pkg):
    """str.strip / lstrip / rstrip take a SET of characters.  Called with a word (`line.lstrip("@format:")`) they also eat the
    beginning of what follows (`r,r,p` -> `,r,p`).  In the modules that decode records no strip call has a multi-character
    literal other than whitespace / quote / bracket sets; and the KROME column list is the directive line minus the directive."""
    n = 0
    for f in pkg.files:
        if not (f.startswith("naunet/reactions/") or f in ("naunet/network.py", "naunet/species.py", "naunet/component.py", "naunet/chemistrydata/__init__.py")):
            continue
        for c in ast.walk(pkg.modules[f]):
            if isinstance(c, ast.Call) and isinstance(c.func, ast.Attribute) and c.func.attr in ("strip", "lstrip", "rstrip") and c.args \
                    and isinstance(c.args[0], ast.Constant) and isinstance(c.args[0].value, str):
                n += 1
                lit = c.args[0].value
                wordy = len(lit) >= 2 and sum(ch.isalnum() for ch in lit) >= 2
                ctx.check(not wordy, "R10", f"{f.rsplit('/', 1)[1]}:{c.func.attr}({lit!r})", (f, c.lineno),
                          "a character set (punctuation / whitespace)" if not wordy else
                          f"`.{c.func.attr}({lit!r})` removes any run of the CHARACTERS {sorted(set(lit))}, not the prefix {lit!r}: text that merely starts with one of these letters "
                          "loses its beginning (a KROME column list `r,r,p,...` after `@format:` becomes `,r,p,...`)",
                          expected="replace(prefix, '', 1) / slicing / removeprefix", found=ast.unparse(c)[:80])
    fn = pkg.folded("KROMEReaction", "preprocessing") if pkg.cls("KROMEReaction").methods.get("preprocessing") else None      # class-level directive constants in place
    st = [a for a in ast.walk(fn) if isinstance(a, ast.Assign) and any(isinstance(t, ast.Attribute) and t.attr == "reacformat" for t in a.targets)] if fn else []
    KF = "naunet/reactions/kromereaction.py"
    if len(st) != 1:
        ctx.unrec("R10", "KROME:@format: column list", (KF, fn.lineno if fn else 0), f"expected one store into reacformat in preprocessing, found {len(st)}")
    else:
        val = st[0].value
        for _ in range(3):
            # a local bound once in the method (`columns = line.replace(..)` ; `cls.reacformat = columns`) is the expression it names
            if not isinstance(val, ast.Name):
                break
            binds = [a for a in ast.walk(fn) if isinstance(a, (ast.Assign, ast.AnnAssign, ast.AugAssign, ast.For, ast.NamedExpr, ast.With)) and any(
                isinstance(x, ast.Name) and x.id == val.id and isinstance(x.ctx, ast.Store) for x in ast.walk(a))]
            if len(binds) != 1 or not isinstance(binds[0], ast.Assign) or len(binds[0].targets) != 1 or not isinstance(binds[0].targets[0], ast.Name) \
                    or any(a.arg == val.id for a in fn.args.args):
                break
            val = binds[0].value
        src = ast.unparse(val)
        ok = re.fullmatch(r"\w+\.replace\('@format:', ''(, 1)?\)(\.strip\(\))?|\w+\[len\('@format:'\):\](\.strip\(\))?|\w+\[8:\](\.strip\(\))?|\w+\.removeprefix\('@format:'\)(\.strip\(\))?", src) is not None
        wrong = re.search(r"\.[lr]?strip\('[^']*\w\w[^']*'\)|\[\s*(?!8:)\d+:\]", src) is not None     # a word used as a character set / another offset
        if ok or wrong:
            ctx.check(ok, "R10", "KROME:@format: column list", (KF, st[0].lineno),
                      "the column list is the directive line without the literal prefix `@format:`", expected="line.replace('@format:', '')", found=src[:80])
        else:
            ctx.unrec("R10", "KROME:@format: column list", (KF, st[0].lineno), f"cannot see that the column list is the directive line minus `@format:`: {src[:80]}")
    ctx.floor("R10", "strip calls with a literal argument", n, 0)


# ------------------------------------------------------------------ R11  the record a parser decodes is the caller's line, untouched

# well-formed data lines of the six formats (the repository's own test data / bundled examples, plus multiply deuterated names)
SAMPLES = [
    ("kida", "C          CH                     H          C2                                            2.400e-10  0.000e+00  0.000e+00 2.00e+00 1.00e+02 logn  4     10    300  3  4894 1  1\n"),
    ("kida", "C2D2       H+                     C2D2+      H                                             1.000e-09  0.000e+00  0.000e+00 2.00e+00 0.00e+00 logn  3     10    280  3   612 1  1\n"),
    ("kida", "CH2D2      NH2D2+                 CH2D2+     NH2D2                                         4.670E-10  5.000E-01  3.040E+04 2.00e+00 0.00e+00 logn  4     10    800  3  6599 1  1\n"),
    ("krome", "1,C,CH,,H,C2,,,,10,280,6.590e-11\n"),
    ("krome", "2,H,C2D2,,C,CH2D2,,,,>1.d1,.LE.8d2,4.67e-10*(T32)**(-5.000e-01)*exp(-3.040e+04*invT)\n"),
    # (a surface species: `#` is naunet's default surface prefix, and Network.write(format="krome") emits such names inside data lines)
    ("krome", "3,CO,,,#CO,,,,,NONE,NONE,1.0e-17\n"),
    ("leeds", " 4956 C         CH                  C2        H                                       6.59E-11     0.00       0.0    541000  1\n"),
    ("leeds", "   12 GC2D2     GH                  GC2D3                                             1.00E+00     0.00       0.0    0    0 14\n"),
    ("uclchem", "C,CH,NAN,C2,H,NAN,NAN,6.59e-11,0.0,0.0,10,300\n"),
    ("uclchem", "#CH4,DESOH2,NAN,CH4,NAN,NAN,NAN,1.0,0.0,960.0,0.0,10000.0\n"),
    ("uclchem", "#C2D2,THERM,NAN,C2D2,NAN,NAN,NAN,1.0,0.0,2587.0,0.0,10000.0\n"),
    ("umist", '5173:NN:C:CH:C2:H:::1:6.59e-11:0.00:0.0:10:300:L:C:"10.1111/j.1365-2966.2004.07656.x"::\n'),
    ("umist", "12:IN:C2D2:NH2D2+:C2D3+:NHD2:::1:1.00e-09:-0.50:0.0:10:41000:L:C:::\n"),
    ("naunet", "1,C,CH,,C2,H,,,,6.59e-11,0.0,0.0,10.0,300.0,100,kida\n"),
    ("naunet", "7,#CH4,,,CH4,,,,,1.0,0.0,960.0,-1.0,-1.0,201,uclchem\n"),
    ("naunet", "8,C2D2,H+,,C2D2+,H,,,,1.0E-09,0.0,0.0,-1.0,-1.0,100,unknown\n"),
]


class _Unknown(Exception):
    """the concrete evaluator met a construct it does not evaluate"""


_STR_METHODS = {"strip", "lstrip", "rstrip", "startswith", "endswith", "upper", "lower", "casefold", "replace", "split", "rsplit", "splitlines", "isspace", "isdigit",
                "isalpha", "isalnum", "find", "rfind", "index", "count", "partition", "rpartition", "removeprefix", "removesuffix", "expandtabs", "join", "translate",
                "title", "swapcase", "capitalize", "ljust", "rjust", "center", "zfill", "format", "isupper", "islower", "__contains__", "__eq__", "__ne__", "__len__", "__getitem__"}
_RE_METHODS = {"sub", "subn", "match", "search", "fullmatch", "findall", "split"}
_MATCH_METHODS = {"group", "groups", "start", "end", "span"}
_FUNCS = {"len": len, "str": str, "bool": bool, "tuple": tuple, "list": list, "any": any, "all": all, "repr": repr, "sorted": sorted, "set": set, "frozenset": frozenset,
          "min": min, "max": max, "int": int, "float": float}


def _ceval(v, env, consts=None):
    """VALUE of the IR term `v` for concrete values of its free terms: env maps IR terms (("param", "line"), an ("elem", ..) ..) to python
    values; `consts(term)` -> python value | raises _Unknown for ("global", name) / ("attr", self, name) terms.  Only pure operations on
    strings / tuples / compiled regular expressions are evaluated; anything else raises _Unknown.  Used to exhibit a CONCRETE well-formed
    line that a piece of code drops or rewrites (positive evidence), never to argue that code is right."""
    E = lambda x: _ceval(x, env, consts)
    if v in env:
        return env[v]
    if not isinstance(v, tuple) or not v:
        raise _Unknown(repr(v))
    k = v[0]
    if k == "const":
        return v[1]
    if k in ("tuple", "list", "set"):
        out = []
        for e in v[1]:
            if e[0] == "star":
                out.extend(E(e[1]))
            else:
                out.append(E(e))
        return tuple(out) if k == "tuple" else out if k == "list" else set(out)
    if k == "unop":
        x = E(v[2])
        return (not x) if v[1] == "Not" else -x if v[1] == "USub" and isinstance(x, (int, float)) else (_ for _ in ()).throw(_Unknown(show(v)))
    if k == "bool":
        r = None
        for x in v[2]:
            r = E(x)
            if (v[1] == "And" and not r) or (v[1] == "Or" and r):
                return r
        return r
    if k in ("phi", "ifexp"):
        return E(v[2]) if E(v[1]) else E(v[3])
    if k == "cmp":
        ops, xs = v[1], v[2]
        left = E(xs[0])
        for op, rx in zip(ops, xs[1:]):
            right = E(rx)
            try:
                r = {"Eq": lambda: left == right, "NotEq": lambda: left != right, "In": lambda: left in right, "NotIn": lambda: left not in right,
                     "Is": lambda: left is right or (left == right and right is None), "IsNot": lambda: not (left is right), "Lt": lambda: left < right, "LtE": lambda: left <= right,
                     "Gt": lambda: left > right, "GtE": lambda: left >= right}[op]()
            except (TypeError, KeyError):
                raise _Unknown(show(v))
            if not r:
                return False
            left = right
        return True
    if k == "sub":
        base = E(v[1])
        if v[2][0] == "slice":
            lo, hi, st = (None if x == ("const", None) else E(x) for x in v[2][1:4])
            idx = slice(lo, hi, st)
        else:
            idx = E(v[2])
        if not isinstance(base, (str, tuple, list, dict)):
            raise _Unknown(show(v))
        try:
            return base[idx]
        except (IndexError, KeyError, TypeError):
            raise _Unknown(show(v))
    if k == "item" and isinstance(v[2], int):
        base = E(v[1])
        try:
            return base[v[2]]
        except Exception:
            raise _Unknown(show(v))
    if k == "binop" and v[1] in ("Add", "Mult", "Mod"):
        a, b = E(v[2]), E(v[3])
        if v[1] == "Add" and type(a) is type(b) and isinstance(a, (str, tuple, list, int)):
            return a + b
        raise _Unknown(show(v))
    if k == "fstr":
        out = ""
        for p_ in v[1]:
            if p_[0] == "const":
                out += p_[1]
            elif p_[0] == "fmt" and not p_[2] and not p_[3]:
                out += format(E(p_[1]))
            else:
                raise _Unknown(show(v))
        return out
    if k == "call" and v[1][0] == "global" and not v[3]:
        f = v[1][1]
        if f == "isinstance" and len(v[2]) == 2:
            x = E(v[2][0])
            t = v[2][1]
            if t[0] == "global" and t[1] in ("str", "tuple", "list"):
                return isinstance(x, {"str": str, "tuple": tuple, "list": list}[t[1]])
            if t[0] == "global" and t[1][:1].isupper() and isinstance(x, (str, tuple, list, type(None))):
                return False            # a builtin value is not an instance of a class of the package
            raise _Unknown(show(v))
        if f in _FUNCS:
            args = [E(a) for a in v[2]]
            try:
                return _FUNCS[f](*args)
            except Exception:
                raise _Unknown(show(v))
        raise _Unknown(show(v))
    if k == "meth":
        name, args, kws = v[2], v[3], v[4]
        if v[1] == ("global", "re") and name in _RE_METHODS | {"compile", "escape"} and not kws:
            vals = [E(a) for a in args]
            try:
                return getattr(re, name)(*vals)
            except Exception:
                raise _Unknown(show(v))
        obj = E(v[1])
        vals = [E(a) for a in args]
        kv = {k_: E(x) for k_, x in kws}
        ok = (isinstance(obj, str) and name in _STR_METHODS) or (isinstance(obj, re.Pattern) and name in _RE_METHODS) or (isinstance(obj, re.Match) and name in _MATCH_METHODS) \
            or (isinstance(obj, (tuple, list)) and name in ("index", "count", "__contains__")) or (isinstance(obj, dict) and name in ("get", "keys", "values", "items", "__contains__"))
        if not ok:
            raise _Unknown(show(v))
        try:
            return getattr(obj, name)(*vals, **kv)
        except Exception:
            raise _Unknown(show(v))
    if k in ("global", "attr") and consts is not None:
        return consts(v)
    raise _Unknown(show(v))


def _const_resolver(pkg, file, cls=None):
    """python values of the names a function of `file` (a method of `cls`) reads: module-level literal tables / constants bound once and
    never mutated (pymodel.module_tables), class-level constants incl. re.compile(<literals>) (pymodel.class_constants)"""
    def lit(node):
        if isinstance(node, ast.Call) and ast.unparse(node.func) == "re.compile" and not node.keywords:
            try:
                return re.compile(*[ast.literal_eval(a) for a in node.args])
            except Exception:
                raise _Unknown(ast.unparse(node))
        try:
            return ast.literal_eval(node)
        except Exception:
            raise _Unknown(ast.unparse(node)[:60])

    def module_const(name):
        tabs = pkg.module_tables(file)
        if name in tabs:
            return lit(tabs[name])
        mod = pkg.modules.get(file)
        binds = [st for st in (mod.body if mod else []) if isinstance(st, ast.Assign) and any(isinstance(t, ast.Name) and t.id == name for t in st.targets)]
        stores = [x for x in ast.walk(mod) if isinstance(x, ast.Name) and x.id == name and isinstance(x.ctx, (ast.Store, ast.Del))] if mod else []
        globs = [x for x in ast.walk(mod) if isinstance(x, ast.Global) and name in x.names] if mod else []
        if len(binds) == 1 and len(stores) == 1 and not globs and len(binds[0].targets) == 1:
            return lit(binds[0].value)
        raise _Unknown(name)

    def consts(t):
        if t[0] == "global":
            return module_const(t[1])
        if t[0] == "attr" and cls is not None and (t[1] in (SELF, ("param", "cls")) or (t[1][0] == "global" and t[1][1] in pkg.mro(cls))):
            cc = pkg.class_constants(cls)
            if t[2] in cc:
                return lit(cc[t[2]])
        raise _Unknown(show(t))
    return consts


def _subst(v, m):
    """IR term v with the sub-terms in m replaced"""
    if v in m:
        return m[v]
    if isinstance(v, tuple):
        return tuple(_subst(x, m) if isinstance(x, tuple) else x for x in v)
    return v


def _same_record(got, line):
    """the text handed on is the line (the line terminator / trailing blanks aside, which no parser reads)"""
    return isinstance(got, str) and got.rstrip() == line.rstrip() and (got[:1].isspace() == line[:1].isspace())


def _r11(ctx, pkg):
    """Identity flow from the file to the parser.  Every data line of a file reaches `_add_reaction` (nothing in the reading loop
    skips lines by their text: data lines of UCLCHEM / native files begin with the surface prefix '#'), and the text each hop hands on
    -- add_reaction_from_file -> _add_reaction -> _reaction_factory, <Format>.__init__ -> Reaction.__init__ -> _parse_string -- is the
    text it was given (a rewrite of the WHOLE line also rewrites species names: `C2D2` looks like a Fortran double).  Decided by
    evaluating the reconstructed guards / arguments on well-formed sample lines of every format (SAMPLES): a sample that is skipped or
    comes out changed is a concrete counterexample; code the evaluator cannot follow is UNRECOGNISED, never a violation."""
    from ..valueflow import strip_transparent
    # ---- hop 1: the reading loop
    pkg.method("Network", "add_reaction_from_file")
    fn = pkg.folded("Network", "add_reaction_from_file")
    ctx.saw(NET, "Network.add_reaction_from_file")
    fl = Flow(fn, NET, resolver=lambda name: pkg.resolve("Network", name)[1] if name not in ("_add_reaction", "add_reaction") else None,
              func_resolver=lambda name: pkg.functions.get((NET, name)) if name != "_reaction_factory" else None)
    consts = _const_resolver(pkg, NET, "Network")
    fmt_param = ("param", fn.args.args[2].arg) if len(fn.args.args) >= 3 else ("param", "format")
    sites = []           # (argument IR, loops, guards, line)
    seen = set()
    cands = [(f.value, f.loops, f.guards, f.line) for f in fl.facts if f.value is not None] + [(v, loops, guards, line) for lst in fl.assigns.values() for v, loops, guards, line, seq in lst]
    for val, loops, guards, line in cands:
        for x in walk(simp(val)):
            if isinstance(x, tuple) and len(x) == 5 and x[0] == "meth" and x[2] in ("_add_reaction", "add_reaction") and x[1] == SELF and loops and (x, line) not in seen:
                seen.add((x, line))
                sites.append((x, loops, guards, line))
    key = "Network.add_reaction_from_file:every line is handed on"
    if not sites:
        ctx.unrec("R11", key, (NET, fn.lineno), "cannot find the call of self._add_reaction(..) inside the loop over the lines of the file")
    else:
        verdicts = []        # per sample: True (handed on unchanged), ("skipped" | "changed", detail), None (not decided)
        for fmt, sample in SAMPLES:
            res = None
            for call, loops, guards, line in sites:
                args = list(call[3]) + [v_ for _, v_ in call[4]]
                elems = {x for a in args for x in walk(a) if isinstance(x, tuple) and len(x) == 3 and x[0] == "elem"}
                if len(args) != 1 or len(elems) != 1:
                    continue
                el = next(iter(elems))
                # a loop over a filtered / re-written sequence of lines is not read here
                src = strip_transparent(simp(el[1]))
                while src[0] == "call" and src[1] in (("global", "enumerate"), ("global", "iter"), ("global", "list"), ("global", "tuple")) and src[2]:
                    src = strip_transparent(simp(src[2][0]))
                if not (src[0] == "with" or (src[0] == "meth" and src[2] in ("readlines",) and not src[3]) or src[0] in ("param", "attr")):
                    continue
                env = {el: sample, fmt_param: fmt}
                try:
                    reached = True
                    for g, pol in guards:
                        g = simp(g)
                        if not any(x == el for x in walk(g)):
                            continue            # not a test of the line's text
                        if bool(_ceval(g, env, consts)) != pol:
                            reached = False
                            why = show(_subst(g, {el: ("param", "line")}))[:100]
                            break
                    if not reached:
                        res = res or ("skipped", why, line)
                        continue
                    got = _ceval(args[0], env, consts)
                except _Unknown:
                    res = None
                    break
                if isinstance(got, (tuple, list)) and len(got) == 2 and _same_record(got[0], sample) and got[1] == fmt:
                    res = True
                    break
                res = ("changed", repr(got)[:100], line)
            verdicts.append((fmt, sample, res))
        wrong = [(f_, s_, r_) for f_, s_, r_ in verdicts if isinstance(r_, tuple)]
        if wrong:
            f_, s_, (what, detail, line) = wrong[0]
            ctx.bad("R11", key, (NET, line),
                    (f"the reading loop skips well-formed data lines by their text (test: {detail}): " if what == "skipped" else f"the reading loop hands on a rewritten line ({detail}): ")
                    + f"the {f_} line {s_.strip()[:60]!r} adds no reaction / another reaction -- the network no longer has one reaction per data line",
                    expected="self._add_reaction((line, format)) for every line", found=f"{len(wrong)} of {len(SAMPLES)} sample lines {what}")
        elif any(r_ is None for _, _, r_ in verdicts):
            ctx.unrec("R11", key, (NET, sites[0][3]), "cannot follow the tests / the argument between the line read from the file and self._add_reaction(..)")
        else:
            ctx.ok("R11", key, (NET, sites[0][3]), "every well-formed sample line of every format reaches self._add_reaction((line, format)) unchanged")
    # ---- hop 2: _add_reaction -> _reaction_factory
    pkg.method("Network", "_add_reaction")
    afn = pkg.folded("Network", "_add_reaction")
    # (a helper that turns the (line, format) pair into an instance -- `reaction = self._as_reaction(reaction)` -- is read as the value it returns)
    afl = Flow(afn, NET, resolver=lambda name: pkg.resolve("Network", name)[1] if name.startswith("_") and not name.startswith("__") else None)
    rp = ("param", afn.args.args[1].arg) if len(afn.args.args) >= 2 else None
    calls = {x for val in [f.value for f in afl.facts if f.value is not None] + [v for lst in afl.assigns.values() for v, *_ in lst] for x in walk(simp(val))
             if isinstance(x, tuple) and len(x) == 4 and x[0] == "call" and x[1] == ("global", "_reaction_factory")}
    key = "Network._add_reaction:the factory gets the caller's line"
    if len(calls) != 1 or rp is None:
        ctx.unrec("R11", key, (NET, afn.lineno), f"expected one call _reaction_factory(..) in _add_reaction, found {len(calls)}")
    else:
        call = next(iter(calls))
        _hop(ctx, key, (NET, afn.lineno), lambda fmt, s: _factory_args(call, {rp: (s, fmt)}, _const_resolver(pkg, NET, "Network"), pkg), "_reaction_factory(*reaction)")
    # ---- hop 3: _reaction_factory -> <Format>(react_string=..): what is constructed from is the pre-processing of the caller's line
    ffn = pkg.func(NET, "_reaction_factory")
    ffl = Flow(ffn, NET)
    rs = ("param", ffn.args.args[0].arg) if ffn.args.args else None
    made = set()
    for f in ffl.facts:
        if f.kind == "return" and f.value is not None:
            for x in walk(simp(f.value)):
                if isinstance(x, tuple) and len(x) == 4 and x[0] == "call" and (dict(x[3]).get("react_string") is not None or (len(x[2]) == 1 and not x[3] and any(y == ("global", "supported_reaction_class") for y in walk(x[1])))):
                    made.add(dict(x[3]).get("react_string") or x[2][0])
    key = "_reaction_factory:the parser gets the caller's line"
    if len(made) != 1 or rs is None:
        ctx.unrec("R11", key, (NET, ffn.lineno), f"expected one construction <Format>(react_string=..) in _reaction_factory, found {len(made)}")
    else:
        arg = simp(next(iter(made)))
        # <cls>.preprocessing(x) of the formats that inherit it is x (R1 decides that); KROME's own keeps data lines stripped
        pres = {x: x[3][0] for x in walk(arg) if isinstance(x, tuple) and len(x) == 5 and x[0] == "meth" and x[2] == "preprocessing" and len(x[3]) == 1 and not x[4]}
        arg = _subst(arg, pres)
        fc = _const_resolver(pkg, NET)
        _hop(ctx, key, (NET, ffn.lineno), lambda fmt, s: _ceval(arg, {rs: s}, fc), "initializer(react_string=initializer.preprocessing(react_string))")
    # ---- hop 4: <Format>.__init__ -> Reaction.__init__(react_string=..)
    for cls in sorted(pkg.subclasses("Reaction")):
        ci = pkg.cls(cls)
        if "__init__" not in ci.methods or "_parse_string" not in ci.methods:
            continue
        ifn = pkg.folded(cls, "__init__")
        ifl = Flow(ifn, ci.file, resolver=lambda name, c_=cls: pkg.resolve(c_, name)[1] if name not in ("_parse_string", "__init__") else None)
        ps = [("param", a.arg) for a in ifn.args.args[1:]]
        sup = [f.value for f in ifl.facts if f.kind == "call" and f.target == "__init__" and f.value[0] == "meth" and f.value[1][0] == "call" and f.value[1][1] == ("global", "super")]
        key = f"{cls}.__init__:the base constructor gets the caller's line"
        passed = [dict(c[4]).get("react_string") for c in sup]
        if len(sup) != 1 or passed[0] is None or len(ps) != 1:
            ctx.unrec("R11", key, (ci.file, ifn.lineno), "expected one call super().__init__(react_string=<the line>) in a constructor of one parameter")
            continue
        arg = simp(passed[0])
        _hop(ctx, key, (ci.file, ifn.lineno), lambda fmt, s, a_=arg, p_=ps[0], c_=_const_resolver(pkg, ci.file, cls): _ceval(a_, {p_: s}, c_), "super().__init__(react_string=react_string)")
    # ---- hop 5: Reaction.__init__ -> self._parse_string(..)
    pkg.method("Reaction", "__init__")
    bfn = pkg.folded("Reaction", "__init__", keep=KEEP + ("_parse_string",))
    bfl = Flow(bfn, R, resolver=lambda name: pkg.resolve("Reaction", name)[1] if name not in ("_parse_string", "_create_species", "__init__") else None)
    rsp = ("param", "react_string")
    calls = [f for f in bfl.facts if f.kind == "call" and f.target == "_parse_string" and f.value[0] == "meth" and f.value[1] == SELF]
    key = "Reaction.__init__:_parse_string gets the caller's line"
    if len(calls) != 1 or len(calls[0].value[3]) + len(calls[0].value[4]) != 1 or not any(a.arg == "react_string" for a in bfn.args.args):
        ctx.unrec("R11", key, (R, bfn.lineno), f"expected one call self._parse_string(<the line>) in Reaction.__init__, found {len(calls)}")
    else:
        c = calls[0]
        arg = simp((list(c.value[3]) + [v_ for _, v_ in c.value[4]])[0])
        unread = [g for g, _ in c.guards if any(x == rsp for x in walk(simp(g)))]
        bc = _const_resolver(pkg, R, "Reaction")

        def through(fmt, s):
            for g, pol in c.guards:
                if any(x == rsp for x in walk(simp(g))) and bool(_ceval(simp(g), {rsp: s}, bc)) != pol:
                    return None            # the line is not parsed at all
            return _ceval(arg, {rsp: s}, bc)
        _hop(ctx, key, (R, c.line), through, "self._parse_string(react_string)")


def _factory_args(call, env, consts, pkg):
    vals = []
    for a in call[2]:
        if a[0] == "star":
            vals.extend(_ceval(a[1], env, consts))
        else:
            vals.append(_ceval(a, env, consts))
    kw = {k_: _ceval(v_, env, consts) for k_, v_ in call[3]}
    fac = pkg.func(NET, "_reaction_factory")
    names = [a.arg for a in fac.args.args]
    for n_, v_ in zip(names, vals):
        kw[n_] = v_
    return kw.get(names[0]) if names else None


def _hop(ctx, key, where, through, expected):
    """`through(format, line)` is the text one hop hands on for a sample line: it must be the line"""
    wrong, unknown = [], 0
    for fmt, s in SAMPLES:
        try:
            got = through(fmt, s)
        except _Unknown:
            unknown += 1
            continue
        if not _same_record(got, s):
            wrong.append((fmt, s, got))
    if wrong:
        fmt, s, got = wrong[0]
        diff = next((i for i, (a, b) in enumerate(zip(s, got)) if a != b), min(len(s), len(got))) if isinstance(got, str) else 0
        ctx.bad("R11", key, where,
                f"the text handed on is not the text received: the well-formed {fmt} line {s.strip()[:50]!r} arrives as "
                + (f"..{got[max(0, diff - 12):diff + 12]!r}.. instead of ..{s[max(0, diff - 12):diff + 12]!r}.." if isinstance(got, str) else repr(got)[:60])
                + " -- a rewrite applied to the whole record also rewrites the species columns (the reaction names other reactants / products)",
                expected=expected, found=f"{len(wrong)} of {len(SAMPLES)} sample lines changed")
    elif unknown:
        ctx.unrec("R11", key, where, "cannot follow what is computed from the line before it is handed on")
    else:
        ctx.ok("R11", key, where, "every sample line is handed on as it was received")


# ------------------------------------------------------------------ R1

def _r1(ctx, pkg):
    fn = pkg.func(NET, "_reaction_factory")
    ctx.saw(NET, "_reaction_factory")
    fl = Flow(fn, NET)
    # the construction by role: a returned call of the class looked up in the format table (or any call given `react_string=`),
    # with the line as its one argument -- positional or keyword; a conditional return is one return per arm
    from types import SimpleNamespace

    def arms(v, guards):
        v = simp(v)
        if v[0] in ("phi", "ifexp"):
            return arms(v[2], tuple(guards) + ((v[1], True),)) + arms(v[3], tuple(guards) + ((v[1], False),))
        return [(v, tuple(guards))]

    def line_of(v):
        if v[0] != "call":
            return None
        kws = dict(v[3])
        if "react_string" in kws:
            return kws["react_string"]
        if len(v[2]) == 1 and not v[3] and any(x == ("global", "supported_reaction_class") for x in walk(v[1])):
            return v[2][0]
        return None
    made = [SimpleNamespace(value=v, guards=g, line=f.line, arg=simp(line_of(v))) for f in fl.facts if f.kind == "return" and f.value
            for v, g in arms(f.value, f.guards) if line_of(v) is not None]
    if len(made) != 1:
        ctx.unrec("R1", "_reaction_factory", (NET, fn.lineno), f"expected one `return initializer(react_string=..)`, found {len(made)}")
    else:
        f = made[0]
        arg = f.arg
        stripped = False
        for g, pol in f.guards:
            for x in walk(simp(g)):
                if isinstance(x, tuple) and len(x) >= 3 and x[0] == "meth" and x[2] == "strip" and x[1] == arg and pol:
                    stripped = True
        # or the argument itself is already stripped
        if arg[0] == "meth" and arg[2] == "strip" and any(simp(g) == arg and p for g, p in f.guards):
            stripped = True
        # the line is tested through something this rule cannot read (a helper, a regular expression): not a verdict
        base_ = arg[1] if arg[0] == "meth" and arg[2] == "strip" else arg
        hidden = [g for g, pol in f.guards for x in walk(simp(g)) if isinstance(x, tuple) and x and x[0] in ("call", "meth") and not (x[0] == "meth" and x[2] in ("strip", "preprocessing"))
                  and any(y == base_ for a_ in (x[2] if x[0] == "call" else x[3]) for y in walk(a_))]
        if not stripped and hidden:
            ctx.unrec("R1", "_reaction_factory:blank-line test", (NET, f.line), "the emptiness of the pre-processed line is tested through " + show(simp(hidden[0]))[:80])
        elif stripped:
            ctx.ok("R1", "_reaction_factory:blank-line test", (NET, f.line), "a reaction is created only when the pre-processed line is non-blank after strip()")
        else:
            # not the usual spelling: decide on concrete blank lines -- does one of them pass every test on the way to the constructor?
            passed, unknown = [], False
            for blank in ("", " ", "\n", "  \t\r\n"):
                try:
                    if all(bool(_ceval(simp(g), {base_: blank})) == pol for g, pol in f.guards):
                        passed.append(blank)
                except _Unknown:
                    unknown = True
            if passed:
                ctx.bad("R1", "_reaction_factory:blank-line test", (NET, f.line),
                        f"the emptiness test lets the blank line {passed[0]!r} through: a line holding only blanks / the terminator is truthy and becomes a reaction",
                        expected="if react_string and react_string.strip():", found="; ".join(show(simp(g))[:100] for g, _ in f.guards))
            elif unknown:
                ctx.unrec("R1", "_reaction_factory:blank-line test", (NET, f.line), "cannot decide the tests between the pre-processed line and the constructor on a blank line: "
                          + "; ".join(show(simp(g))[:60] for g, _ in f.guards)[:160])
            else:
                ctx.ok("R1", "_reaction_factory:blank-line test", (NET, f.line), "no blank line passes the tests on the way to the constructor")
        pre = any(isinstance(x, tuple) and len(x) >= 3 and x[0] == "meth" and x[2] == "preprocessing" for x in walk(arg))
        if not pre and sum(isinstance(c, ast.Attribute) and c.attr == "preprocessing" for c in ast.walk(pkg.modules[NET])) > 0:
            ctx.unrec("R1", "_reaction_factory:preprocessing", (NET, f.line), "the pre-processing is not applied where the parser is constructed but elsewhere in the module")
        else:
            ctx.check(pre, "R1", "_reaction_factory:preprocessing", (NET, f.line), "the line handed to the parser is the class's preprocessing of the raw line")
    # base preprocessing is the identity
    pkg.method("Reaction", "preprocessing")
    base = pkg.folded("Reaction", "preprocessing")
    ctx.saw(R, "Reaction.preprocessing")
    bfl = Flow(base, R)
    rets = [f for f in bfl.facts if f.kind == "return"]
    LINE_ = ("param", base.args.args[-1].arg) if base.args.args else ("param", "line")
    same = lambda v: v in (LINE_, ("meth", LINE_, "strip", (), ()), ("meth", LINE_, "rstrip", (), ()), ("call", ("global", "str"), (LINE_,), ()))
    ident = bool(rets) and all(same(simp(f.value)) for f in rets)         # every path returns the line (whatever the tests on the way)
    drops = any(simp(f.value)[0] == "const" for f in rets) or not rets
    if not ident and not drops:
        ctx.unrec("R1", "Reaction.preprocessing:identity", (R, base.lineno), "cannot see that the base pre-processing returns the line it is given: "
                  + "; ".join(show(simp(f.value))[:60] for f in rets)[:160])
    else:
      ctx.check(ident, "R1", "Reaction.preprocessing:identity", (R, base.lineno),
              "the base pre-processing keeps every line" if ident else
              "the base pre-processing drops lines by content: data lines of formats that inherit it (UCLCHEM/Leeds/native rows beginning with the surface "
              "prefix '#', KIDA rows) vanish from the network",
              expected="return line", found="; ".join(f"{show(simp(f.value))[:40]} if {[show(simp(g))[:50] for g, _ in f.guards]}" for f in rets))
    # which classes override it
    over = sorted(c for c in pkg.subclasses("Reaction") if "preprocessing" in pkg.classes[c].methods)
    extra = [c for c in over if c != "KROMEReaction"]
    if extra:
        # another format pre-processes its lines: a violation only when a well-formed line of that format is seen to be dropped / changed
        for c in extra:
            ofn = pkg.folded(c, "preprocessing")
            ofl = Flow(ofn, pkg.cls(c).file)
            oline = ("param", ofn.args.args[-1].arg) if ofn.args.args else None
            fmt_ = pkg.cls(c).attrs.get("format")
            fmt_ = ast.literal_eval(fmt_) if fmt_ is not None and isinstance(fmt_, ast.Constant) else None
            orets = [f for f in ofl.facts if f.kind == "return"]
            verdict = None
            for fm, sample in [x for x in SAMPLES if fmt_ is None or x[0] == fmt_]:
                try:
                    vals = [_ceval(simp(f.value), {oline: sample}, _const_resolver(pkg, pkg.cls(c).file, c)) for f in orets
                            if all(bool(_ceval(simp(g), {oline: sample}, _const_resolver(pkg, pkg.cls(c).file, c))) == pol for g, pol in f.guards)]
                except _Unknown:
                    verdict = verdict or "unknown"
                    continue
                if len(vals) != 1:
                    verdict = verdict or "unknown"
                elif not _same_record(vals[0], sample):
                    verdict = ("bad", sample, vals[0])
                    break
            if isinstance(verdict, tuple):
                ctx.bad("R1", f"preprocessing overrides:{c}", (pkg.cls(c).file, ofn.lineno), f"{c}.preprocessing drops / rewrites the well-formed line {verdict[1].strip()[:50]!r}",
                        expected="the line", found=repr(verdict[2])[:60])
            elif verdict == "unknown" or not orets:
                ctx.unrec("R1", f"preprocessing overrides:{c}", (pkg.cls(c).file, ofn.lineno), f"{c} pre-processes its lines in a way this rule cannot follow")
            else:
                ctx.ok("R1", f"preprocessing overrides:{c}", (pkg.cls(c).file, ofn.lineno), f"{c}.preprocessing keeps every sample line of its format")
    else:
        ctx.check(over == ["KROMEReaction"], "R1", "preprocessing overrides", (R, base.lineno),
                  "only KROME (whose syntax defines comment and directive lines) filters lines", expected="['KROMEReaction']", found=str(over))
    pkg.method("KROMEReaction", "preprocessing")
    k = pkg.folded("KROMEReaction", "preprocessing")          # class-level prefix tables written in place, loops over them unrolled
    kfl = Flow(k, "naunet/reactions/kromereaction.py")
    # by paths, whatever the arrangement of the returns: exactly one path keeps the line (returns line.strip()); it is the path on
    # which the line starts with none of the comment / directive prefixes; every other path returns ""
    K = "naunet/reactions/kromereaction.py"
    rets = [f for f in kfl.facts if f.kind == "return"]
    keeps = [f for f in rets if simp(f.value) != ("const", "")]
    LINE = ("param", k.args.args[-1].arg) if k.args.args else ("param", "line")
    if len(keeps) != 1 or simp(keeps[0].value) != ("meth", LINE, "strip", (), ()) or keeps[0].loops:
        if any(simp(f.value)[0] not in ("const", "meth", "param") for f in keeps) or not keeps:
            ctx.unrec("R1", "KROMEReaction.preprocessing", (K, k.lineno), "cannot see which lines are kept: expected one `return line.strip()` and `return \"\"` elsewhere")
        else:
            # several paths keep a line (or keep it in another spelling): decide on concrete lines of a KROME file
            kc = _const_resolver(pkg, K, "KROMEReaction")
            wrong, unknown = None, False
            tests = [(s_, s_.strip()) for fm, s_ in SAMPLES if fm == "krome"] + [(d, "") for d in ("#comment\n", "//comment\n", "@format:idx,R,R,P,P,Tmin,Tmax,rate\n", "@var: x = 1\n", "@common: a,b\n")]
            for text, want_ in tests:
                try:
                    vals = [_ceval(simp(f.value), {LINE: text}, kc) for f in rets if not f.loops and all(bool(_ceval(simp(g), {LINE: text}, kc)) == pol for g, pol in f.guards)]
                except _Unknown:
                    unknown = True
                    continue
                if len(vals) != 1:
                    unknown = True
                elif (vals[0] or "") != want_:
                    wrong = wrong or (text, vals[0])
            if wrong:
                ctx.bad("R1", "KROMEReaction.preprocessing", (K, k.lineno), "KROME keeps every non-comment, non-directive line stripped and nothing else",
                        expected="line.strip() for data lines, '' for comment / directive lines", found=f"{wrong[0].strip()[:40]!r} -> {wrong[1]!r}")
            elif unknown:
                ctx.unrec("R1", "KROMEReaction.preprocessing", (K, k.lineno), "cannot see which lines are kept: expected one `return line.strip()` and `return \"\"` elsewhere")
            else:
                ctx.ok("R1", "KROMEReaction.preprocessing", (K, k.lineno), "data lines are kept stripped, comment / directive lines give '' (decided on sample lines)")
    else:
        pref, foreign = set(), []
        for g, pol in keeps[0].guards:
            g = simp(g)
            if g[0] == "meth" and g[1] == LINE and g[2] == "startswith" and len(g[3]) == 1 and not g[4] and not pol:
                a = g[3][0]
                lits = [y[1] for y in (a[1] if a[0] == "tuple" else (a,)) if y[0] == "const"]
                if len(lits) == len(a[1] if a[0] == "tuple" else (a,)):
                    pref |= set(lits)
                    continue
            foreign.append((g, pol))
        want = {"#", "//", "@format:", "@var", "@common:"}
        if foreign and not (pref - want):
            ctx.unrec("R1", "KROMEReaction.preprocessing", (K, k.lineno), "the kept line is subject to a condition this rule cannot read: " + "; ".join(show(g)[:60] for g, _ in foreign)[:160])
        else:
            ctx.check(pref == want and not foreign, "R1", "KROMEReaction.preprocessing", (K, k.lineno),
                      "KROME drops exactly comment (#, //) and directive (@format:, @var, @common:) lines and keeps every other line (stripped)",
                      expected=str(sorted(want)), found=str(sorted(pref)) + ("; other conditions: " + "; ".join(show(g)[:50] for g, _ in foreign) if foreign else ""))
    # every parser guards against blank input
    n = 0
    for cls in ("Reaction", "KIDAReaction", "UMISTReaction", "LEEDSReaction", "UCLCHEMReaction", "KROMEReaction"):
        fn = _parser(pkg, cls)
        file = pkg.cls(cls).file
        ctx.saw(file, f"{cls}._parse_string")
        fl = Flow(fn, file)
        st = [f for f in fl.facts if f.kind == "attrstore" and f.target in ("alpha", "reactants", "idxfromfile", "rate_string")]
        ok = bool(st) and all(any(_blank_guard(simp(g), p) for g, p in f.guards) for f in st)
        n += 1
        # a test of the record this rule cannot read (a predicate, a regular expression) is not evidence that blank records are parsed
        unread = sorted({show(simp(g))[:50] for f in st for g, _ in f.guards if not _blank_guard(simp(g), _) and any(x == ("param", "react_string") for x in walk(simp(g)))
                         and any(isinstance(x, tuple) and x and x[0] in ("call", "meth") and not (x[0] == "meth" and x[2] in ("strip", "split")) for x in walk(simp(g)))})
        if not ok and st and unread:
            ctx.unrec("R1", f"{cls}._parse_string:blank-guard", (file, fn.lineno), "the record is tested in a way this rule cannot read: " + "; ".join(unread)[:160])
            continue
        if not st:
            # no plain store of a decoded attribute in sight (decoding moved behind a dispatch table / setattr): nothing to judge
            ctx.unrec("R1", f"{cls}._parse_string:blank-guard", (file, fn.lineno), "cannot find where the parser stores the decoded attributes (alpha / reactants / idxfromfile / rate_string)")
            continue
        if not ok and any(f.loops for f in st if not any(_blank_guard(simp(g), p) for g, p in f.guards)):
            # an unguarded store inside a loop over pieces of the record: a blank record may simply have no pieces
            ctx.unrec("R1", f"{cls}._parse_string:blank-guard", (file, fn.lineno), "attributes are stored inside a loop over pieces of the record without a blank test this rule can read")
            continue
        ctx.check(ok, "R1", f"{cls}._parse_string:blank-guard", (file, fn.lineno), "nothing is parsed from a blank / None record",
                  found="; ".join(sorted({show(simp(g))[:50] for f in st for g, _ in f.guards}))[:160])
    ctx.floor("R1", "parsers", n, 6)


def _blank_guard(g, pol):
    s = show(g)
    if "strip()" in s and "''" in s and (("!=" in s and pol) or ("==" in s and "!=" not in s and not pol)):
        return True
    if pol and g in (("param", "react_string"), ("meth", ("param", "react_string"), "strip", (), ())):
        return True         # `if not react_string[.strip()]: return` ... rest   /   `if react_string[.strip()]: ...`
    if g[0] == "bool" and g[1] == "And":
        return any(_blank_guard(x, pol) for x in g[2]) if pol else False
    if g == ("unop", "Not", ("param", "react_string")) and not pol:
        return True
    return False


# ------------------------------------------------------------------ R2

def _r2(ctx, pkg):
    sp = pkg.cls("Species")
    try:
        lst = set(ast.literal_eval(sp.attrs["default_pseudoelements"]))
    except (KeyError, ValueError, TypeError, SyntaxError):
        lst = None
        ctx.unrec("R2", "Species.default_pseudoelements:markers", ("naunet/species.py", sp.node.lineno), "Species.default_pseudoelements is not a literal list in the class body")
    lst is not None and ctx.check(MARKERS <= lst, "R2", "Species.default_pseudoelements:markers", ("naunet/species.py", sp.node.lineno),
              "the database marker tokens CR, CRP, PHOTON, Photon, CRPHOT are pseudo-elements (filtered by _create_species)", expected=str(sorted(MARKERS)),
              found=str(sorted(MARKERS - lst)) + " missing")
    fn = _parser(pkg, "UCLCHEMReaction")
    fl = Flow(fn, "naunet/reactions/uclchemreaction.py")
    # the keyword list is found by role: it is what the tokens are tested against (`tok not in <list>`) in the comprehensions
    # that create the reactants and the products -- as a filter of its own or as one conjunct of the filter
    def conjuncts(cs):
        out = []
        for c in cs:
            c = simp(c)
            out.extend(conjuncts(c[2]) if c[0] == "bool" and c[1] == "And" else [c])
        return out

    def members(v):
        """elements of a list value written as a literal, a concatenation of lists, list(<iterable>): [elt | ("star", iterable)] or None"""
        v = simp(v)
        if v[0] in ("list", "tuple", "set"):
            out = []
            for e in v[1]:
                if e[0] == "star":
                    sub = members(e[1])
                    out.extend(sub if sub is not None and e[1][0] in ("list", "tuple", "set", "binop", "call") else [("star", keys_of(e[1]))])
                else:
                    out.append(e)
            return out
        if v[0] == "binop" and v[1] in ("Add", "BitOr"):          # list + list, set | set
            a, b = members(v[2]), members(v[3])
            return a + b if a is not None and b is not None else None
        if v[0] == "call" and v[1] in (("global", "list"), ("global", "tuple"), ("global", "sorted"), ("global", "set"), ("global", "frozenset")) and len(v[2]) == 1 and not v[3]:
            inner = members(v[2][0]) if v[2][0][0] in ("list", "tuple", "set", "binop") else None
            return inner if inner is not None else [("star", keys_of(v[2][0]))]
        return None

    def keys_of(d):
        # iterating a dict iterates its keys
        return d[1] if d[0] == "meth" and d[2] == "keys" and not d[3] else d
    WANT = {("star", ("attr", SELF, "reactant2type")), ("const", "NAN")}
    lists = []
    undecided = 0
    for attr in ("reactants", "products"):
        st = [f for f in fl.facts if f.kind == "attrstore" and f.target == attr]
        good = False
        if st:
            m = as_map(simp(st[-1].value))
            if m:
                bv, body, base, ifs = m
                ks = [c[2][1] for c in conjuncts(ifs) if c[0] == "cmp" and c[1] == ("NotIn",) and c[2][0] == bv]
                good = bool(ks)
                lists += ks
                others = [c for c in conjuncts(ifs) if not (c[0] == "meth" and c[2] == "_create_species") and c not in [("cmp", ("NotIn",), (bv, k_)) for k_ in ks]]
                if not good and others:
                    # filtered, but not by `tok not in <list>`: which tokens are removed is not read here
                    ctx.unrec("R2", f"UCLCHEM:{attr}:keyword filter", ("naunet/reactions/uclchemreaction.py", st[-1].line), "the tokens are filtered by a test this rule cannot read: "
                              + "; ".join(show(c)[:60] for c in others)[:160])
                    undecided += 1
                    continue
            elif st:
                ctx.unrec("R2", f"UCLCHEM:{attr}:keyword filter", ("naunet/reactions/uclchemreaction.py", st[-1].line), "the list is not built by a comprehension this rule can read")
                undecided += 1
                continue
        if not st:
            ctx.unrec("R2", f"UCLCHEM:{attr}:keyword filter", ("naunet/reactions/uclchemreaction.py", fn.lineno), f"no plain store into self.{attr} in the UCLCHEM parser")
            undecided += 1
            continue
        if not good:
            # positive evidence of a missing filter: the tokens are seen to come straight from the fields of the split record; a
            # sequence produced by anything else (filter / filterfalse / a helper) may well have been filtered there
            if _Record(LAYOUT["UCLCHEMReaction"]["n"]).run(m[2]) is None:
                ctx.unrec("R2", f"UCLCHEM:{attr}:keyword filter", ("naunet/reactions/uclchemreaction.py", st[-1].line),
                          "cannot see where the tokens the species are created from come from (expected the fields of the split record, filtered by `tok not in <keywords>`): " + show(simp(m[2]))[:100])
                undecided += 1
                continue
        ctx.check(good, "R2", f"UCLCHEM:{attr}:keyword filter", ("naunet/reactions/uclchemreaction.py", st[-1].line),
                  f"tokens of the keyword list are removed before the {attr} are created")
    got = [members(k) for k in lists]
    if lists and any(g is None for g in got):
        ctx.unrec("R2", "UCLCHEM:kwlist", ("naunet/reactions/uclchemreaction.py", fn.lineno), "the keyword list is not a literal / concatenation this rule can read: " + "; ".join(show(simp(k))[:80] for k in lists))
    elif lists:
        # (a side without a readable filter was answered above)
        ok = all(set(g) == WANT for g in got)
        ctx.check(ok, "R2", "UCLCHEM:kwlist", ("naunet/reactions/uclchemreaction.py", fn.lineno), "the keyword list is every key of reactant2type plus the filler NAN",
                  found="; ".join(show(simp(k))[:100] for k in lists))
    # KROME: reactants/products appended only when _create_species(value) is truthy
    kfn = _parser(pkg, "KROMEReaction")
    kfl = Flow(kfn, "naunet/reactions/kromereaction.py")
    # every append whose receiver is self.reactants / self.products -- named directly or through a local that stands for one of the
    # two (`side = self.reactants if key == "r" else self.products`)
    LISTS = {("attr", SELF, "reactants"): "reactants", ("attr", SELF, "products"): "products"}

    def arms(v):
        v = simp(v)
        if v[0] == "sub" and v[1][0] == "dict" and v[1][1] and v[2][0] != "slice":
            # `{"r": self.reactants, "p": self.products}[key]`: one of the values of the display
            return [a for _, val in v[1][1] for a in arms(val)]
        return arms(v[2]) + arms(v[3]) if v[0] in ("phi", "ifexp") else [v]
    sites, blind = [], []
    for f in kfl.facts:
        if f.kind == "call" and f.target in ("append", "extend", "insert") and f.value[0] == "meth" and all(a in LISTS for a in arms(f.value[1])):
            (sites if f.target == "append" and len(f.value[3]) == 1 else blind).append((f, {LISTS[a] for a in arms(f.value[1])}, f.value[3]))
        elif f.kind in ("append", "mutate") and isinstance(f.target, str):
            prev = [v for v, loops, guards, line, seq in kfl.assigns.get(f.target, []) if seq < f.seq]
            if prev and all(a in LISTS for a in arms(prev[-1])):
                (sites if f.kind == "append" and f.op == "append" else blind).append((f, {LISTS[a] for a in arms(prev[-1])}, (f.value,)))
    covered = set().union(*[c for _, c, _ in sites]) if sites else set()
    if blind or covered != {"reactants", "products"}:
        ctx.unrec("R2", "KROME:append only real species", ("naunet/reactions/kromereaction.py", kfn.lineno),
                  f"the reactant / product lists are not (only) filled by append calls this rule can read (appends seen for {sorted(covered)})")
    else:
        good, opaque = True, []
        for f, _, args in sites:
            arg = simp(args[0])
            if not (arg[0] == "meth" and arg[2] == "_create_species") and arg[0] not in ("elem", "sub", "item", "param", "const"):
                opaque.append(arg)          # neither a created species nor a raw token: what is appended is not understood
            good = good and arg[0] == "meth" and arg[2] == "_create_species" and any(pol and any(x == arg for x in walk(simp(g))) for g, pol in f.guards)
        if not good and opaque:
            ctx.unrec("R2", "KROME:append only real species", ("naunet/reactions/kromereaction.py", kfn.lineno), "cannot see what is appended to the reactant / product lists: " + show(opaque[0])[:100])
        else:
            ctx.check(good, "R2", "KROME:append only real species", ("naunet/reactions/kromereaction.py", kfn.lineno),
                      "a token is appended only when _create_species(token) is not None (pseudo-elements are dropped)")


# ------------------------------------------------------------------ R3 / R5 for split formats

def _indirect_stores(fn):
    """text of the first construct of the (folded) parser through which an attribute of self may be set without a plain `self.x = ..`:
    setattr / vars / __dict__ / a call that is handed self, or of a method of self that was not put back in place; '' when there is none"""
    for c in ast.walk(fn):
        if isinstance(c, ast.Call):
            f = c.func
            if isinstance(f, ast.Name) and f.id in ("setattr", "vars"):
                return ast.unparse(c)[:50]
            if isinstance(f, ast.Attribute) and isinstance(f.value, ast.Name) and f.value.id == "self" and f.attr not in KEEP and not f.attr.startswith("__"):
                return ast.unparse(c)[:50]
            if any(isinstance(a, ast.Name) and a.id == "self" for a in c.args):
                return ast.unparse(c)[:50]
        if isinstance(c, ast.Attribute) and c.attr in ("__dict__", "__setattr__"):
            return ast.unparse(c)[:50]
    return ""


def _positions(fl, attrs):
    out = {}
    for f in fl.facts:
        if f.kind == "attrstore" and f.extra.get("obj") == SELF and f.target in attrs and f.target not in out:
            out[f.target] = f
    return out


def _unwrap(v):
    wraps = []
    while True:
        if v[0] == "call" and len(v[2]) == 1 and v[1][0] == "global":
            wraps.append(v[1][1])
            v = v[2][0]
        elif v[0] in ("phi", "ifexp"):
            # UCLCHEM freeze window: the file value is the else arm
            v = v[3]
        else:
            return v, wraps


def _destructurings(fn, fl, min_targets=5):
    """[(Assign node, IR of the destructured value)] for every tuple assignment with at least `min_targets` targets whose right-hand
    side -- written in place or named in a local first -- is a str.split() result (possibly sliced)"""
    out = []
    for a in ast.walk(fn):
        if isinstance(a, ast.Assign) and len(a.targets) == 1 and isinstance(a.targets[0], ast.Tuple) and len(a.targets[0].elts) >= min_targets:
            names = [e.value if isinstance(e, ast.Starred) else e for e in a.targets[0].elts]
            val = None
            for e in names:
                if isinstance(e, ast.Name):
                    for v, loops, guards, line, seq in fl.assigns.get(e.id, []):
                        if line == a.lineno and v[0] == "item":
                            val = simp(v[1])
                    if val is not None:
                        break
            if val is not None and any(isinstance(x, tuple) and len(x) == 5 and x[0] == "meth" and x[2] == "split" for x in walk(val)):
                out.append((a, val))
    return out


class _Record:
    """Positions in a separator-split record (`<line>.split(sep)`, possibly cut to its first N fields) of the values read from it,
    whatever the way it is taken apart: starred destructuring, direct indexing, slices (of slices, negative bounds counted from the
    end of a record of `n` fields), a dict of field names zipped with it, the fields listed one by one."""
    NONE = ("const", None)

    def __init__(self, n):
        self.n = n
        self.from_end = False       # some position was counted from the end of the record
        self.star = None            # the starred target of a destructuring, when one is used

    @staticmethod
    def split(v):
        """(<line>.split(sep) IR, number of leading fields kept | None) when v is the split record"""
        from ..valueflow import strip_transparent
        v = strip_transparent(simp(v))
        b0 = match(("sub", V("sp"), ("slice", _Record.NONE, ("const", V("n")), _Record.NONE)), v)
        sp, total = (strip_transparent(b0["sp"]), b0["n"]) if b0 and isinstance(b0["n"], int) and b0["n"] >= 0 else (v, None)
        if sp[0] == "meth" and sp[2] == "split" and len(sp) == 5:
            return sp, total
        return None

    @staticmethod
    def _int(x):
        """-> (True, int | None) for a constant integer / absent bound"""
        if x == _Record.NONE:
            return True, None
        if x[0] == "const" and isinstance(x[1], int) and not isinstance(x[1], bool):
            return True, x[1]
        if x[0] == "unop" and x[1] == "USub" and x[2][0] == "const" and isinstance(x[2][1], int) and not isinstance(x[2][1], bool):
            return True, -x[2][1]
        return False, None

    @staticmethod
    def keyed(v):
        """`dict(zip(<literal names>, <record>))[<name>]` is <record>[<position of the name>]"""
        from ..valueflow import strip_transparent
        if v[0] == "sub" and v[2][0] == "const":
            d = strip_transparent(simp(v[1]))
            if d[0] == "call" and d[1] == ("global", "dict") and len(d[2]) == 1 and not d[3]:
                z = strip_transparent(d[2][0])
                if z[0] == "call" and z[1] == ("global", "zip") and len(z[2]) == 2 and not z[3] and z[2][0][0] in ("tuple", "list") \
                        and all(e[0] == "const" for e in z[2][0][1]):
                    names = [e[1] for e in z[2][0][1]]
                    if names.count(v[2][1]) == 1:
                        return ("sub", z[2][1], ("const", names.index(v[2][1])))
        return v

    def run(self, v, depth=0):
        """(record value, first field, last field + 1) of a run of consecutive fields, or None"""
        from ..valueflow import strip_transparent
        v = strip_transparent(simp(v))
        if depth > 6:
            return None
        r = self.split(v)
        if r:
            return v, 0, r[1] if r[1] is not None else self.n
        if v[0] == "item" and isinstance(v[2], tuple) and v[2][0] == "star" and self.split(v[1]):
            # the starred part of `a, b, *rest, y, z = record`: what the named targets before and after it leave
            r = self.split(v[1])
            width = r[1] if r[1] is not None else self.n
            self.star, self.from_end = v[2], True
            return strip_transparent(simp(v[1])), v[2][1], width - (v[2][2] - v[2][1] - 1)
        if v[0] in ("list", "tuple") and v[1] and not any(e[0] == "star" for e in v[1]):
            fs = [self.field(_unwrap(e)[0]) for e in v[1]]
            if all(fs) and len({f_[0] for f_ in fs}) == 1 and [f_[1] for f_ in fs] == list(range(fs[0][1], fs[0][1] + len(fs))):
                return fs[0][0], fs[0][1], fs[0][1] + len(fs)
            return None
        if v[0] == "sub" and v[2][0] == "slice" and v[2][3] == self.NONE:
            (ol, lo), (oh, hi) = self._int(v[2][1]), self._int(v[2][2])
            if not (ol and oh):
                return None
            if v[1][0] in ("list", "tuple"):
                return self.run((v[1][0], v[1][1][slice(lo, hi)]), depth + 1)
            base = self.run(v[1], depth + 1)
            if base is None:
                return None
            length = base[2] - base[1]
            if (lo is not None and lo < 0) or (hi is not None and hi < 0):
                self.from_end = True
            a_, b_, _ = slice(lo, hi).indices(max(length, 0))
            return base[0], base[1] + a_, base[1] + max(a_, b_)
        return None

    def field(self, v):
        """(record value, position) of one field, or None"""
        v = self.keyed(simp(v))
        k = x = None
        if v[0] == "item" and isinstance(v[2], int):
            x, k = v[1], v[2]
        elif v[0] == "sub":
            ok, k = self._int(v[2])
            x = v[1] if ok and k is not None else None
        if x is None:
            return None
        base = self.run(x)
        if base is None:
            return None
        if k < 0:
            self.from_end = True
        p = base[1] + k if k >= 0 else base[2] + k
        return (base[0], p) if base[1] <= p < base[2] else None


def _split_formats(ctx, pkg):
    """The separator-split formats by the POSITION in the split record each value is read from (_Record), whatever the way the record
    is taken apart: one starred destructuring (`idx, code, *rps, _, a, .. = line.split(":")[:14]`), direct indexing / slicing of the
    record (`fields[9]`, `fields[2:4]`, `rec[-5:]`), a namedtuple over the fields (read as the plain tuple, pymodel.folded)."""
    for cls, lay in LAYOUT.items():
        file = pkg.cls(cls).file
        fn = _parser(pkg, cls)
        fl = Flow(fn, file)
        n = lay["n"]
        R_ = _Record(n)
        record, scalar = R_.split, R_.field

        def block(v):
            r = R_.run(v)
            return r if r is None or R_.split(v) is None else None          # the whole record is not a run of species fields
        pos = _positions(fl, set(lay["fields"]))
        seen = {}          # attribute -> (record value, position) | (record value, lo, hi, star)
        for attr in lay["fields"]:
            f = pos.get(attr)
            if f is not None:
                v, wraps = _unwrap(simp(f.value))
                seen[attr] = (scalar(v), wraps, f, v)
        for attr in ("reactants", "products"):
            st = [f for f in fl.facts if f.kind == "attrstore" and f.target == attr and f.extra.get("obj") == SELF]
            m = as_map(simp(st[-1].value)) if st else None
            seen[attr] = (block(m[2]) if m else None, None, st[-1] if st else None, m[2] if m else None)
        recs = {x[0][0] for x in seen.values() if x[0]}
        if len(recs) != 1:
            ctx.unrec("R3", f"{cls}:record", (file, fn.lineno), f"cannot identify the one split record the attributes are read from (found {len(recs)}): "
                      + "; ".join(show(r)[:60] for r in sorted(recs, key=repr))[:200])
            continue
        rec = recs.pop()
        sp, total = record(rec)
        src = show(rec)
        star, from_end = R_.star, R_.from_end
        sep_ok = sp[3] == (("const", lay["sep"]),) and not sp[4]
        if not sep_ok and not (len(sp[3]) == 1 and sp[3][0][0] == "const" and not sp[4]):
            ctx.unrec("R3", f"{cls}:separator", (file, fn.lineno), f"cannot see the literal separator the record is split at: {src[-40:]}")
        else:
            ctx.check(sep_ok, "R3", f"{cls}:separator", (file, fn.lineno), f"records are split at '{lay['sep']}'", found=src[-40:])
        if cls == "UMISTReaction":
            # positions counted from the end (the targets after a starred one) are right only when the record has exactly n fields
            if star or from_end or total is not None:
                ctx.check(total == n, "R3", f"{cls}:field-count", (file, fn.lineno), f"the first {n} fields of a record are decoded", expected=f"[:{n}]", found=src[-12:])
            else:
                ctx.ok("R3", f"{cls}:field-count", (file, fn.lineno), "every field is read by its position from the start of the record")
        width = total if total is not None else n
        if star:
            fixed = star[2] - 1
            want_star = lay["products"][1] - lay["reactants"][0]
            ctx.check(width - fixed == want_star, "R3", f"{cls}:arity", (file, fn.lineno),
                      f"{fixed} named fields + {want_star} species fields = {n} fields of the format", expected=f"{n - want_star} named targets", found=f"{fixed} named targets")
        for attr in ("reactants", "products"):
            lo, hi = lay[attr]
            got, _, f, base = seen[attr]
            where = (file, f.line if f is not None else fn.lineno)
            if got is None or got[0] != rec:
                ctx.unrec("R3", f"{cls}:{attr}:slice", where, f"cannot see which fields of the record the {attr} are read from: {show(base)[-60:] if base else 'no store'}")
            else:
                ctx.check(got[1:3] == (lo, hi), "R3", f"{cls}:{attr}:slice", where, f"{attr} are fields {lo}..{hi - 1} of the record", expected=f"fields[{lo}:{hi}]",
                          found=f"fields[{got[1]}:{got[2]}]  ({show(base)[-50:]})")
        for attr, (p, conv) in lay["fields"].items():
            if attr not in seen:
                if _indirect_stores(fn):
                    ctx.unrec("R5", f"{cls}:{attr}", (file, fn.lineno), f"no plain store into self.{attr}; attributes may be set indirectly ({_indirect_stores(fn)})")
                else:
                    ctx.bad("R5", f"{cls}:{attr}", (file, fn.lineno), f"self.{attr} is never assigned from the record")
                continue
            got, wraps, f, v = seen[attr]
            if got is None or got[0] != rec:
                ctx.unrec("R5", f"{cls}:{attr}", (file, f.line), f"cannot see which field of the record self.{attr} is read from: {show(v)[:80]}")
                continue
            k = got[1]
            ctx.check(k == p and (conv is None or conv in wraps), "R5", f"{cls}:{attr}", (file, f.line),
                      f"self.{attr} = {conv or ''}(field {p})", expected=f"field {p} through {conv}", found=f"field {k} through {wraps}")


# ------------------------------------------------------------------ KIDA

def _kida(ctx, pkg):
    """The KIDA record by the COLUMNS each value is cut from, whatever the way the line is cut (line[:rlen] / line[rlen:rlen+plen] /
    line[rlen+plen:], or head, tail = line[:90], line[90:] and head[:34] / head[34:], ...): slices of slices are composed and
    arithmetic on constants folded (_fold_ir), then the constant bounds are compared with the published layout."""
    cls = "KIDAReaction"
    file = pkg.cls(cls).file
    fn = _parser(pkg, cls)
    fl = Flow(fn, file)
    line = ("meth", ("param", "react_string"), "strip", (), ())
    NONE = ("const", None)

    def block(v):
        """(lo, hi | None) when v is <line>[lo:hi].split() with constant bounds, else None"""
        b0 = match(("meth", ("sub", line, ("slice", V("lo"), V("hi"), NONE)), "split", (), ()), v)
        if not b0:
            return None
        lo, hi = b0["lo"], b0["hi"]
        if lo[0] != "const" or hi[0] != "const" or not all(x[1] is None or (isinstance(x[1], int) and x[1] >= 0) for x in (lo, hi)):
            return None
        return (lo[1] or 0, hi[1])
    cols = {}
    for attr in ("reactants", "products"):
        st = [f for f in fl.facts if f.kind == "attrstore" and f.target == attr and f.extra.get("obj") == SELF]
        m = as_map(simp(st[-1].value)) if st else None
        if not m:
            ctx.unrec("R4", f"KIDA:{attr}:columns", (file, st[-1].line if st else fn.lineno), f"the {attr} are not built by a comprehension over a slice of the line")
            continue
        base = _fold_ir(m[2])
        blk = block(base)
        if blk is None or blk[1] is None:
            ctx.unrec("R4", f"KIDA:{attr}:columns", (file, st[-1].line), f"cannot see the constant column block the {attr} are split from (expected <line>[a:b].split()): {show(base)[:90]}")
            continue
        cols[attr] = (blk, st[-1].line, show(base)[:90])
    if len(cols) == 2:
        (rlo, rhi), (plo, phi_) = cols["reactants"][0], cols["products"][0]
        rl, pl = rhi - rlo, phi_ - plo
        ctx.check(rl == 3 * 11 + 1 and pl == 5 * 11 + 1, "R4", "KIDA:widths", (file, fn.lineno),
                  "reactant block = 3 names of 11 columns + 1, product block = 5 names of 11 columns + 1 (as naunet's own KIDA writer lays them out)",
                  expected="rlen = 34, plen = 56", found=f"rlen = {rl}, plen = {pl}")
        for attr, want in (("reactants", (0, rhi)), ("products", (rhi, rhi + pl))):
            blk, ln, found = cols[attr]
            ctx.check(blk == want, "R4", f"KIDA:{attr}:columns", (file, ln),
                      f"{attr} are the blank-separated names in columns {'1-34' if attr == 'reactants' else '35-90'} (the blocks are contiguous from column 1)",
                      expected=f"line[{want[0]}:{want[1]}].split()", found=found)
    # the writer: the padded name lists it lays out, read from the values (whatever method of Reaction builds them): a call
    # _fill_list(<names formatted to a fixed width>, n, ..) -- f"{x:<11}" or x.ljust(11)
    w = pkg.method("Reaction", "__format__")
    fills = set()
    for mname in pkg.cls("Reaction").methods:
        if mname != "__format__" and "_fill_list" not in ast.unparse(pkg.cls("Reaction").methods[mname]):
            continue
        wfl = Flow(pkg.expanded("Reaction", mname), R)
        vals = [v for lst in wfl.assigns.values() for v, *_ in lst] + [f.value for f in wfl.facts if f.value is not None]
        for v in vals:
            for x in walk(simp(v)):
                if isinstance(x, tuple) and len(x) == 4 and x[0] == "call" and x[1] == ("global", "_fill_list") and len(x[2]) >= 2 and x[2][1][0] == "const":
                    m = as_map(x[2][0])
                    body = m[1] if m else None
                    width = None
                    if body is not None and body[0] == "fstr" and len(body[1]) == 1 and body[1][0][0] == "fmt" and isinstance(body[1][0][2], str):
                        mm = re.fullmatch(r"<(\d+)s?", body[1][0][2])
                        width = int(mm.group(1)) if mm else None
                    elif body is not None and body[0] == "meth" and body[2] == "ljust" and len(body[3]) >= 1 and body[3][0][0] == "const":
                        width = body[3][0][1]
                    if width == 11:
                        fills.add((m[2], x[2][1][1]))
    if not fills:
        ctx.unrec("R4", "KIDA:writer-widths", (R, w.lineno), "cannot find the KIDA writer's padded name lists (_fill_list([f'{x:<11}' for x in ..], n, ..))")
    else:
        # (the same padded list may be met twice -- once where a helper builds it, once where the writer with its helpers put back
        # does: what is compared is the set of counts the 11-column lists are filled to)
        ctx.check(sorted({n_ for _, n_ in fills}) == [3, 5], "R4", "KIDA:writer-widths", (R, w.lineno),
                  "the KIDA writer pads 3 reactant and 5 product names to 11 columns each", found=str(sorted({n_ for _, n_ in fills})))
    if len(cols) != 2:
        return
    end = cols["products"][0][1]           # the numeric tail is the text after the product block
    pos = _positions(fl, set(KIDA_TAIL))
    for attr, (p, conv) in KIDA_TAIL.items():
        f = pos.get(attr)
        if f is None:
            if _indirect_stores(fn):
                ctx.unrec("R5", f"KIDA:{attr}", (file, fn.lineno), f"no plain store into self.{attr}; attributes may be set indirectly ({_indirect_stores(fn)})")
            else:
                ctx.bad("R5", f"KIDA:{attr}", (file, fn.lineno), f"self.{attr} is never assigned from the record")
            continue
        v, wraps = _unwrap(simp(f.value))
        if v[0] == "sub" and v[2][0] == "const" and isinstance(v[2][1], int):
            v = ("item", v[1], v[2][1])          # the token list indexed directly
        if v[0] != "item" or not isinstance(v[2], int) or not any(isinstance(x, tuple) and len(x) == 5 and x[0] == "meth" and x[2] == "split" for x in walk(v[1])):
            ctx.unrec("R5", f"KIDA:{attr}", (file, f.line), f"cannot see which token of the record self.{attr} is read from: {show(v)[:80]}")
            continue
        blk = block(_fold_ir(v[1]))
        ok = blk == (end, None) and v[2] in (p, p - 13) and conv in wraps
        ctx.check(ok, "R5", f"KIDA:{attr}", (file, f.line), f"self.{attr} = {conv}(token {p} of the text after column {end})",
                  expected=f"{conv}(line[{end}:].split()[{p}])", found=show(_fold_ir(simp(f.value)))[:100])
    ds = [(a, block(_fold_ir(v))) for a, v in _destructurings(fn, fl, 6)]
    dest = [a for a, blk in ds if blk == (end, None)]
    others = [a for a, blk in ds if blk != (end, None)]
    decided = [o for o in ctx.obs if o.rule == "R5" and o.key.startswith("KIDA:")]
    if not dest and not others and len(decided) == len(KIDA_TAIL) and all(o.outcome == "DISCHARGED" for o in decided) \
            and all(_unwrap(simp(pos[a_].value))[0][0] == "sub" or (_unwrap(simp(pos[a_].value))[0][0] == "item" and _unwrap(simp(pos[a_].value))[0][2] >= 0) for a_ in KIDA_TAIL):
        ctx.ok("R3", "KIDA:arity", (file, fn.lineno), "every token of the numeric tail is read by its position from the start of the tail (no destructuring whose arity could be wrong)")
    elif not dest:
        ctx.unrec("R3", "KIDA:arity", (file, others[0].lineno if others else fn.lineno), f"no destructuring of the blank-separated text after column {end} into named fields")
    elif len(dest) != 1 or any(isinstance(e, ast.Starred) for e in dest[0].targets[0].elts):
        ctx.unrec("R3", "KIDA:arity", (file, dest[0].lineno), "the numeric tail is destructured more than once / with a starred target: the number of tokens it must have is not decided")
    else:
        ctx.check(len(dest[0].targets[0].elts) == 13, "R3", "KIDA:arity", (file, fn.lineno),
                  "the numeric tail of a KIDA record has exactly 13 tokens", found=str(len(dest[0].targets[0].elts)))


# ------------------------------------------------------------------ Leeds

def _leeds(ctx, pkg):
    """The Leeds record by the VALUES the parser computes, whatever the way the line is cut (one loop over parallel label / width
    lists advancing a cursor, a class-level (label, width) table with itertools.accumulate offsets, a dict of named clips read back,
    a table-driven setattr for the float columns ...): on the folded parser (static loops over the literal tables unrolled, cursor
    arithmetic on constants folded) every `self.<attr> = conv(line[a:b])` is compared with the published columns."""
    cls = "LEEDSReaction"
    file = pkg.cls(cls).file
    fn = pkg.method(cls, "_parse_string")
    folded = _parser(pkg, cls)
    _leeds_columns(ctx, Flow(folded, file), fn, file)
    _leeds_prefix(ctx, Flow(folded, file), file)


def _leeds_prefix(ctx, fl, file):
    # species of ice are spelled with the prefix G in this format
    n = 0
    for f in fl.facts:
        if f.kind == "attrstore" and f.target in ("reactants", "products"):
            n += 1
            s = show(simp(f.value))
            if "surface_prefix='G'" not in s and not ("_create_species(" in s and "surface_prefix" not in s and "**" not in s):
                ctx.unrec("R5", f"Leeds:{f.target}:surface prefix", (file, f.line), f"cannot see the call of _create_species the list is built with / the surface prefix it is given: {s[:100]}")
                continue
            ctx.check("surface_prefix='G'" in s, "R5", f"Leeds:{f.target}:surface prefix", (file, f.line), "Leeds names are parsed with the surface prefix 'G'", found=s[:100])
    ctx.floor("R5", "Leeds species stores", n, 2)


def _fold_ir(v):
    """integer arithmetic on constants folded and slices of slices composed (non-negative constant bounds):
    s[a:b][c:d] is s[a+c : min(b, a+d)] -- `head = line[:90]; head[34:]` is line[34:90], `line[a:][:n]` is line[a:a+n]"""
    if not isinstance(v, tuple) or not v:
        return v
    v = tuple(_fold_ir(x) if isinstance(x, tuple) else x for x in v)
    if v[0] == "binop" and v[1] in ("Add", "Sub", "Mult") and v[2][0] == "const" and v[3][0] == "const" and isinstance(v[2][1], int) and isinstance(v[3][1], int) \
            and not isinstance(v[2][1], bool) and not isinstance(v[3][1], bool):
        return ("const", {"Add": v[2][1] + v[3][1], "Sub": v[2][1] - v[3][1], "Mult": v[2][1] * v[3][1]}[v[1]])
    NONE = ("const", None)

    def bound(x):
        """-> (True, int | None) for a constant non-negative / absent bound, else (False, None)"""
        if x == NONE:
            return True, None
        if x[0] == "const" and isinstance(x[1], int) and not isinstance(x[1], bool) and x[1] >= 0:
            return True, x[1]
        return False, None
    if v[0] == "sub" and v[2][0] == "slice" and v[2][3] == NONE and v[1][0] == "sub" and v[1][2][0] == "slice" and v[1][2][3] == NONE:
        (oa, a_), (ob, b_), (oc, c_), (od, d_) = bound(v[1][2][1]), bound(v[1][2][2]), bound(v[2][1]), bound(v[2][2])
        if oa and ob and oc and od:
            lo = (a_ or 0) + (c_ or 0)
            his = [h for h in (b_, None if d_ is None else (a_ or 0) + d_) if h is not None]
            hi = min(his) if his else None
            return ("sub", v[1][1], ("slice", ("const", lo) if lo or v[1][2][1] != NONE or v[2][1] != NONE else NONE, ("const", hi), NONE))
    return v


def _leeds_columns(ctx, fl, fn, file):
    """The record columns each attribute of a Leeds reaction is decoded from (DESIGN Appendix C): `fl` is the flow of the folded
    parser; cursor arithmetic is folded, a dict of named clips read back, and every `self.<attr> = conv(line[a:b]...)` compared
    with the published columns (obligations R4 'Leeds:<attr>:columns')."""
    LINE = ("param", "react_string")

    fold = _fold_ir

    def live(f):
        """False when a guard of the fact compares two different constants (an arm of the unrolled label chain that belongs to another label)"""
        for g, pol in f.guards:
            g = simp(g)
            if g[0] == "cmp" and g[1] == ("Eq",) and g[2][0][0] == "const" and g[2][1][0] == "const" and (g[2][0][1] == g[2][1][1]) != pol:
                return False
        return True
    # named clips: D[<label>] = <slice of the line>, read back as D[<label>]
    named = {}
    for f in fl.facts:
        if f.kind == "store" and f.index is not None and f.index[0] == "const" and not f.loops and live(f):
            named.setdefault((f.target, f.index), []).append(f)

    def resolve(v, seq, depth=0):
        if not isinstance(v, tuple) or not v or depth > 4:
            return v
        if v[0] == "sub" and v[1][0] == "acc" and v[2][0] == "const":
            st = [f for f in named.get((v[1][1], v[2]), []) if f.seq < seq]
            if len(st) == 1 and len(named[(v[1][1], v[2])]) == 1:
                return resolve(st[0].value, seq, depth + 1)
        return tuple(resolve(x, seq, depth) if isinstance(x, tuple) else x for x in v)
    start = 0
    want = {}
    for lab, w in zip(LEEDS_LABELS, LEEDS_WIDTHS):
        want[LEEDS_ATTR[lab]] = (start, start + w)
        start += w
    conv = {"idxfromfile": "int", "rtype": "int", "alpha": "float", "beta": "float", "gamma": "float", "temp_min": "float", "temp_max": "float"}
    n = 0
    for attr, (a, b) in want.items():
        st = [f for f in fl.facts if f.kind == "attrstore" and f.target == attr and f.extra.get("obj") == SELF and live(f)]
        key = f"Leeds:{attr}:columns"
        if len(st) != 1:
            ctx.unrec("R4", key, (file, fn.lineno), f"expected one store into self.{attr}, found {len(st)}")
            continue
        f = st[0]
        v = fold(simp(resolve(simp(f.value), f.seq)))
        cuts = {x for x in walk(v) if isinstance(x, tuple) and len(x) == 3 and x[0] == "sub" and x[1] == LINE and x[2][0] == "slice"}
        if len(cuts) != 1 or any(isinstance(x, tuple) and x and x[0] in ("acc", "carried", "after", "unknown") for x in walk(v)):
            cond = [x for x in walk(v) if isinstance(x, tuple) and x and x[0] == "phi"]
            if len(cuts) >= 1 and cond and not any(isinstance(x, tuple) and x and x[0] in ("acc", "carried", "after", "unknown") for x in walk(v)):
                ctx.bad("R4", key, (file, f.line), f"the columns self.{attr} is cut from depend on a condition ({show(cond[0][1])[:60]}): the column cursor does not advance once per field",
                        expected=f"line[{a}:{b}]", found=show(v)[:120])
            else:
                ctx.unrec("R4", key, (file, f.line), f"cannot reduce the value of self.{attr} to one slice of the record: {show(v)[:120]}")
            continue
        cut = cuts.pop()
        lo, hi = cut[2][1], cut[2][2]
        got = (lo[1] if lo[0] == "const" and lo[1] is not None else 0 if lo == ("const", None) else None, hi[1] if hi[0] == "const" else None)
        if got[0] is None or not isinstance(got[1], int):
            ctx.unrec("R4", key, (file, f.line), f"the slice bounds of self.{attr} are not constants after unrolling: {show(cut)[:100]}")
            continue
        n += 1
        if attr == "rtype":
            a += 1          # the first character of the type field is not part of the code (clip[1:], composed into the slice by _fold_ir)
        okc = got == (a, b)
        # conversion: numeric attributes through int / float of the clip
        shape = True
        if attr in conv:
            shape = v == ("call", ("global", conv[attr]), (cut,), ())
        ctx.check(okc and shape, "R4", key, (file, f.line), f"self.{attr} is decoded from columns {a + 1}-{b} of the 125-column record" + ("" if shape else f" through {conv.get(attr)}()"),
                  expected=f"{conv.get(attr, '')}(line[{a}:{b}])", found=show(v)[:120])
    if not any(o.rule == "R4" and o.key.startswith("Leeds:") and o.outcome in ("UNRECOGNISED", "VIOLATION") for o in ctx.obs):
        ctx.floor("R4", "Leeds attributes with decided columns", n, 9, (file, fn.lineno))


# ------------------------------------------------------------------ R6

def _r6(ctx, rm, pkg):
    n = 0
    for (cls, attr), ref in CODES.items():
        table = rm.code_table(cls, attr)
        file = pkg.cls(cls).file
        for code in sorted(set(table) | set(ref), key=str):
            n += 1
            got = table.get(code, (None, None))[1]
            ctx.check(got == ref.get(code), "R6", f"{cls}.{attr}[{code!r}]", (file, 0),
                      f"code {code!r} denotes reaction type {ref.get(code)}", expected=str(ref.get(code)), found=f"{table.get(code, ('absent',))[0]} = {got}")
    ctx.floor("R6", "code table entries", n, 44)
    # UCLCHEM: unmarked reactions default to two-body
    fn = _parser(pkg, "UCLCHEMReaction")
    UCF = "naunet/reactions/uclchemreaction.py"
    fl = Flow(fn, UCF)
    st = [f for f in fl.facts if f.kind == "attrstore" and f.target == "reaction_type" and f.extra.get("obj") == SELF]
    v = simp(st[0].value) if st else None
    if len(st) == 2 and v[0] == "sub" and v[2][0] != "slice" and any(g == ("except", "KeyError") and pol for g, pol in st[1].guards) \
            and [g_ for g_ in st[1].guards if g_[0] != ("except", "KeyError")] == list(st[0].guards):
        # `try: t = D[k]` / `except KeyError: t = d`  is  `t = D.get(k, d)`
        v = ("meth", v[1], "get", (v[2], simp(st[1].value)), ())
        st = st[:1]
    tab = v[1] if v is not None and v[0] == "meth" and v[2] == "get" and len(v[3]) == 2 and not v[4] else None
    if len(st) != 1 or tab != ("attr", SELF, "reactant2type"):
        ctx.unrec("R6", "UCLCHEM:default type", (UCF, fn.lineno), "the reaction type is not looked up as self.reactant2type.get(<marker token>, <default>)")
    else:
        tok, dflt = v[3]
        # the marker is the second token of the record, however the record is taken apart (_Record)
        got = _Record(LAYOUT["UCLCHEMReaction"]["n"]).field(tok)
        pos = got[1] if got else None
        if pos is None:
            ctx.unrec("R6", "UCLCHEM:default type", (UCF, st[0].line), f"cannot see which token of the record is the marker: {show(tok)[:80]}")
        else:
            ctx.check(pos == 1 and show(dflt).endswith("ReactionType.UCLCHEM_MA"), "R6", "UCLCHEM:default type", (UCF, st[0].line),
                      "the marker is the second token; records without a marker are two-body reactions", expected="reactant2type.get(<token 1>, ReactionType.UCLCHEM_MA)",
                      found=f"token {pos}, default {show(dflt)[:60]}")


K = "naunet/reactions/kidareaction.py"
U = "naunet/reactions/umistreaction.py"
UC = "naunet/reactions/uclchemreaction.py"
L = "naunet/reactions/leedsreaction.py"
MUTANTS = [
    {"name": "krome-format-lstrip", "file": "naunet/reactions/kromereaction.py", "old": 'cls.reacformat = line.replace("@format:", "")', "new": 'cls.reacformat = line.lstrip("@format:").strip()', "rules": ["R10"]},
    {"name": "initialize-skipped-for-continued-file", "edits": [
        {"file": NET, "old": "    def add_reaction_from_file(self, filename: str | Path, format: str) -> None:", "new": "    def add_reaction_from_file(self, filename: str | Path, format: str, continued: bool = False) -> None:"},
        {"file": NET, "old": "        if rclass:\n            rclass.initialize()\n        else:\n            raise RuntimeError(f\"Unknown format: {format}\")", "new": "        if not rclass:\n            raise RuntimeError(f\"Unknown format: {format}\")\n        elif not continued:\n            rclass.initialize()"}], "rules": ["R9"]},
    {"name": "pseudo-element-filter-cached-on-class", "edits": [
        {"file": "naunet/component.py", "old": "class Component:\n", "new": "class Component:\n    _pseudo_names = None\n"},
        {"file": "naunet/component.py", "old": "        if species_name and species_name not in Species.known_pseudoelements():", "new": "        if Component._pseudo_names is None:\n            Component._pseudo_names = frozenset(Species.known_pseudoelements())\n        if species_name and species_name not in Component._pseudo_names:"}], "rules": ["R8"]},
    {"name": "kida-rlen", "file": K, "old": "rlen = 34", "new": "rlen = 33", "rules": ["R4"]},
    {"name": "kida-tail-one-late", "file": K, "old": "                rlen + plen :\n", "new": "                rlen + plen + 1 :\n", "rules": ["R5"]},
    {"name": "umist-product-slice", "file": U, "old": "for p in rps[2:6]", "new": "for p in rps[2:5]", "rules": ["R3"]},
    {"name": "umist-13-fields", "file": U, "old": 'react_string.split(":")[:14]', "new": 'react_string.split(":")[:13]', "rules": ["R3"]},
    {"name": "umist-beta-gamma", "file": U, "old": "            self.beta = float(b)\n            self.gamma = float(c)\n            self.temp_min = float(lt)\n            self.temp_max = float(ut)\n            self.idxfromfile = int(idx)\n            self.code = code", "new": "            self.beta = float(c)\n            self.gamma = float(b)\n            self.temp_min = float(lt)\n            self.temp_max = float(ut)\n            self.idxfromfile = int(idx)\n            self.code = code", "rules": ["R5"]},
    {"name": "uclchem-nan-not-keyword", "file": UC, "old": 'kwlist = [*self.reactant2type.keys(), "NAN"]', "new": "kwlist = [*self.reactant2type.keys()]", "rules": ["R2"]},
    {"name": "leeds-prefix-dropped", "file": L, "old": '                            p.replace("YC", "CH2OHC"), surface_prefix="G"\n', "new": '                            p.replace("YC", "CH2OHC")\n', "rules": ["R5"]},
    {"name": "leeds-width", "file": L, "old": "            30,\n            50,\n            8,", "new": "            30,\n            50,\n            9,", "rules": ["R4"]},
    {"name": "base-preprocessing-drops-comments", "file": R, "old": "        return line\n\n    def rpeq", "new": "        if line.lstrip().startswith((\"#\", \"!\")):\n            return \"\"\n        return line\n\n    def rpeq", "rules": ["R1"]},
    {"name": "factory-raw-truthiness", "file": NET, "old": "    if react_string and react_string.strip():", "new": "    if react_string:", "rules": ["R1"]},
    {"name": "code-table-swapped", "file": UC, "old": '"DESCR": ReactionType.UCLCHEM_CD,\n        "DEUVCR": ReactionType.UCLCHEM_PD,', "new": '"DESCR": ReactionType.UCLCHEM_PD,\n        "DEUVCR": ReactionType.UCLCHEM_CD,', "rules": ["R6"]},
    {"name": "uclchem-products-slice", "file": UC, "old": "products = [p for p in rpspec[3:7] if p not in kwlist]", "new": "products = [p for p in rpspec[3:6] if p not in kwlist]", "rules": ["R3"]},
    {"name": "leeds-cursor-conditional", "file": L, "old": "                stidx += len\n", "new": "                if clip.strip():\n                    stidx += len\n", "rules": ["R4"]},
]
BENIGN = [
    {"name": "enum-member-renamed", "edits": [{"file": UC, "old": "UCLCHEM_HD", "new": "UCLCHEM_H2D", "count": 3}]},
    {"name": "factory-strip-first", "file": NET, "old": "    if react_string and react_string.strip():", "new": "    if react_string is not None and react_string.strip():"},
]
KR = "naunet/reactions/kromereaction.py"
_KR_RP = ('                elif key == "r" and self._create_species(value):\n                    self.reactants.append(self._create_species(value))\n'
          '                elif key == "p" and self._create_species(value):\n                    self.products.append(self._create_species(value))\n')
_KR_PRE = ('        elif line.startswith("@format:"):\n            cls.reacformat = line.replace("@format:", "")\n            return ""\n        elif line.startswith("@var"):\n'
           '            if "Hnuclei" not in line:\n                cls._user_vars.append(line.replace("@var:", "").strip())\n            return ""\n'
           '        elif line.startswith("@common:"):\n            commonlist = line.replace("@common:", "").strip().split(",")\n            cls._user_commons.extend(commonlist)\n            return ""\n'
           '        else:\n            return line.strip()\n')


def _kr_pre(extra=""):
    return ('\n        if line.startswith("@format:"):\n            cls.reacformat = line.replace("@format:", "")\n        elif line.startswith("@var"):\n'
            '            if "Hnuclei" not in line:\n                cls._user_vars.append(line.replace("@var:", "").strip())\n'
            '        elif line.startswith("@common:"):\n            commonlist = line.replace("@common:", "").strip().split(",")\n            cls._user_commons.extend(commonlist)\n'
            + extra + '        else:\n            return line.strip()\n\n        return ""\n')


MUTANTS += [
    {"name": "krome-product-appended-unfiltered", "file": KR, "old": 'elif key == "p" and self._create_species(value):', "new": 'elif key == "p":', "rules": ["R2"]},
    {"name": "krome-merged-side-unfiltered", "file": KR, "old": _KR_RP, "new": '                elif key in ("r", "p"):\n                    side = self.reactants if key == "r" else self.products\n                    side.append(self._create_species(value))\n', "rules": ["R2"]},
    {"name": "krome-single-exit-drops-bang-lines", "file": KR, "old": _KR_PRE, "new": _kr_pre('        elif line.startswith("!"):\n            pass\n'), "rules": ["R1"]},
    {"name": "uclchem-kwlist-concat-lacks-nan", "file": UC, "old": 'kwlist = [*self.reactant2type.keys(), "NAN"]', "new": 'kwlist = list(self.reactant2type) + ["NA"]', "rules": ["R2"]},
    {"name": "umist-named-record-13-fields", "file": U, "old": '            idx, code, *rps, _, a, b, c, lt, ut = react_string.split(":")[:14]\n', "new": '            columns = react_string.split(":")[:13]\n            idx, code, *rps, _, a, b, c, lt, ut = columns\n', "rules": ["R3"]},
]
BENIGN += [
    {"name": "krome-species-arms-merged", "file": KR, "old": _KR_RP, "new": '                elif key in ("r", "p"):\n                    if self._create_species(value):\n                        side = self.reactants if key == "r" else self.products\n                        side.append(self._create_species(value))\n'},
    {"name": "krome-preprocessing-single-exit", "file": KR, "old": _KR_PRE, "new": _kr_pre()},
    {"name": "uclchem-kwlist-concatenated-filter-conjunct", "edits": [
        {"file": UC, "old": 'kwlist = [*self.reactant2type.keys(), "NAN"]', "new": 'kwlist = list(self.reactant2type) + ["NAN"]'}]},
    {"name": "umist-record-named-first", "file": U, "old": '            idx, code, *rps, _, a, b, c, lt, ut = react_string.split(":")[:14]\n', "new": '            columns = react_string.split(":")[:14]\n            idx, code, *rps, _, a, b, c, lt, ut = columns\n'},
    {"name": "kida-tail-named-first", "file": K, "old": "            a, b, c, _, _, _, itype, lt, ut, form, idx, _, _ = react_string[\n                rlen + plen :\n            ].split()\n", "new": "            numbers = react_string[rlen + plen :].split()\n            a, b, c, _, _, _, itype, lt, ut, form, idx, _, _ = numbers\n"},
]
MUTANTS += [
    {"name": "leeds-clip-starts-one-late", "file": L, "old": "clip = react_string[stidx : stidx + len]", "new": "clip = react_string[stidx + 1 : stidx + len]", "rules": ["R4"]},
    {"name": "leeds-type-code-keeps-first-char", "file": L, "old": "self.rtype = int(clip[1:])", "new": "self.rtype = int(clip)", "rules": ["R4"]},
]
BENIGN += [
    {"name": "leeds-clip-by-length", "file": L, "old": "clip = react_string[stidx : stidx + len]", "new": "clip = react_string[stidx:][:len]"},
]

# ---- wave 2: the same layouts through tables, index arithmetic, records and helper pipelines
_UM_OLD = '            idx, code, *rps, _, a, b, c, lt, ut = react_string.split(":")[:14]\n'
_UM_NUM = ('            self.alpha = float(a)\n            self.beta = float(b)\n            self.gamma = float(c)\n            self.temp_min = float(lt)\n'
           '            self.temp_max = float(ut)\n            self.idxfromfile = int(idx)\n            self.code = code\n')


def _um_indexed(alpha=9, products="4:8"):
    return [{"file": U, "old": _UM_OLD, "new": '            fields = react_string.split(":")\n            rps = fields[2:8]\n'},
            {"file": U, "old": "for r in rps[0:2]", "new": "for r in fields[2:4]"}, {"file": U, "old": "for p in rps[2:6]", "new": f"for p in fields[{products}]"},
            {"file": U, "old": _UM_NUM, "new": f'            self.alpha = float(fields[{alpha}])\n            self.beta = float(fields[10])\n            self.gamma = float(fields[11])\n'
             '            self.temp_min = float(fields[12])\n            self.temp_max = float(fields[13])\n            self.idxfromfile = int(fields[0])\n            self.code = fields[1]\n'}]


def _um_record(order="idx code r1 r2 p1 p2 p3 p4 nte alpha beta gamma tmin tmax"):
    return [{"file": U, "old": "class UMISTReaction(Reaction):\n", "new": f'from collections import namedtuple\n_Fields = namedtuple("_Fields", "{order}")\n\n\nclass UMISTReaction(Reaction):\n'},
            {"file": U, "old": _UM_OLD, "new": '            rec = _Fields(*react_string.split(":")[:14])\n            rps = rec[2:8]\n'},
            {"file": U, "old": _UM_NUM, "new": '            self.alpha = float(rec.alpha)\n            self.beta = float(rec.beta)\n            self.gamma = float(rec.gamma)\n'
             '            self.temp_min = float(rec.tmin)\n            self.temp_max = float(rec.tmax)\n            self.idxfromfile = int(rec.idx)\n            self.code = rec.code\n'}]


_KI_OLD_W = "            rlen = 34  # length of the string containing reactants\n            plen = 56  # length of the string containing products\n"
_KI_TAIL = "            a, b, c, _, _, _, itype, lt, ut, form, idx, _, _ = react_string[\n                rlen + plen :\n            ].split()\n"


def _ki_headtail(rend=34, plen=56):
    return [{"file": K, "old": _KI_OLD_W, "new": f"            rend = {rend}\n            pend = rend + {plen}\n            head, tail = react_string[:pend], react_string[pend:]\n"},
            {"file": K, "old": "for r in react_string[:rlen].split()", "new": "for r in head[:rend].split()"},
            {"file": K, "old": "for p in react_string[rlen : rlen + plen].split()", "new": "for p in head[rend:].split()"},
            {"file": K, "old": _KI_TAIL, "new": "            a, b, c, _, _, _, itype, lt, ut, form, idx, _, _ = tail.split()\n"}]


_LE_LISTS = ('        list_label = [\n            "idx",\n            "reac",\n            "prod",\n            "a",\n            "b",\n            "c",\n            "lt",\n            "ht",\n            "type",\n        ]\n'
             '        list_strlen = [\n            5,\n            30,\n            50,\n            8,\n            9,\n            10,\n            5,\n            5,\n            3,\n        ]\n')
_LE_LOOP = "            stidx = 0\n            for label, len in zip(list_label, list_strlen):\n                clip = react_string[stidx : stidx + len]\n"


def _le_table(widths=(5, 30, 50, 8, 9, 10, 5, 5, 3), clip="react_string[edge - width : edge]"):
    cols = ", ".join(f'("{l}", {w})' for l, w in zip(LEEDS_LABELS, widths))
    return [{"file": L, "old": "from enum import IntEnum\n", "new": "from enum import IntEnum\nfrom itertools import accumulate\n"},
            {"file": L, "old": "    def _parse_string(self, react_string) -> None:\n        self.source = \"leeds\"\n", "new": f"    _columns = ({cols})\n\n    def _parse_string(self, react_string) -> None:\n        self.source = \"leeds\"\n"},
            {"file": L, "old": _LE_LISTS, "new": ""},
            {"file": L, "old": _LE_LOOP, "new": "            edges = accumulate(width for _, width in self._columns)\n            for (label, width), edge in zip(self._columns, edges):\n                clip = " + clip + "\n"},
            {"file": L, "old": "\n                stidx += len\n", "new": ""}]


_UC_OLD = ("            reactants = [r for r in rpspec[0:3] if r not in kwlist]\n            products = [p for p in rpspec[3:7] if p not in kwlist]\n\n"
           "            self.reactants = [\n                self._create_species(r) for r in reactants if self._create_species(r)\n            ]\n"
           "            self.products = [\n                self._create_species(p) for p in products if self._create_species(p)\n            ]\n")


def _uc_pipeline(kw='[*self.reactant2type.keys(), "NAN"]', second="rpspec[3:7]"):
    return [{"file": UC, "old": _UC_OLD, "new": f"            self.reactants = self._named_species(rpspec[0:3])\n            self.products = self._named_species({second})\n\n"
             f"    def _named_species(self, columns):\n        kwlist = {kw}\n        names = [name for name in columns if name not in kwlist]\n"
             "        return [self._create_species(name) for name in names if self._create_species(name)]\n"}]


_KR_SIDE = ('                elif key in self._species_columns:\n                    if self._create_species(value):\n'
            '                        target = getattr(self, self._species_columns[key])\n                        target.append(self._create_species(value))\n')
_KR_CLS = '    def _parse_string(self, react_string) -> None:\n        self.source = "krome"\n'
MUTANTS += [
    {"name": "umist-indexed-alpha-from-field-8", "edits": _um_indexed(alpha=8), "rules": ["R5"]},
    {"name": "umist-indexed-products-short", "edits": _um_indexed(products="4:7"), "rules": ["R3"]},
    {"name": "umist-namedtuple-beta-gamma-swapped", "edits": _um_record("idx code r1 r2 p1 p2 p3 p4 nte alpha gamma beta tmin tmax"), "rules": ["R5"]},
    {"name": "kida-head-tail-product-block-short", "edits": _ki_headtail(plen=55), "rules": ["R4"]},
    {"name": "leeds-class-table-accumulate-wrong-width", "edits": _le_table(widths=(5, 30, 50, 8, 9, 10, 5, 5, 4)), "rules": ["R4"]},
    {"name": "leeds-class-table-clip-from-edge", "edits": _le_table(clip="react_string[edge : edge + width]"), "rules": ["R4"]},
    {"name": "uclchem-pipeline-kwlist-lacks-nan", "edits": _uc_pipeline(kw="list(self.reactant2type)"), "rules": ["R2"]},
    {"name": "uclchem-pipeline-products-short", "edits": _uc_pipeline(second="rpspec[3:6]"), "rules": ["R3"]},
    {"name": "krome-species-table-getattr-unfiltered", "edits": [
        {"file": KR, "old": _KR_CLS, "new": '    _species_columns = {"r": "reactants", "p": "products"}\n\n' + _KR_CLS},
        {"file": KR, "old": _KR_RP, "new": _KR_SIDE.replace("                    if self._create_species(value):\n", "                    if value:\n")}], "rules": ["R2"]},
]
BENIGN += [
    {"name": "umist-record-indexed", "edits": _um_indexed()},
    {"name": "umist-record-namedtuple", "edits": _um_record()},
    {"name": "kida-head-tail-cut", "edits": _ki_headtail()},
    {"name": "leeds-class-table-accumulate-edges", "edits": _le_table()},
    {"name": "uclchem-species-pipeline-helper", "edits": _uc_pipeline()},
    {"name": "krome-species-table-getattr", "edits": [
        {"file": KR, "old": _KR_CLS, "new": '    _species_columns = {"r": "reactants", "p": "products"}\n\n' + _KR_CLS},
        {"file": KR, "old": _KR_RP, "new": _KR_SIDE}]},
]
_FACT_OLD = "    react_string = initializer.preprocessing(react_string)\n    if react_string and react_string.strip():\n        return initializer(react_string=react_string)\n    return None\n"
_UM_NAMES = '            names = ("idx", "code", "r1", "r2", "p1", "p2", "p3", "p4", "nte", "a", "b", "c", "lt", "ut")\n'


def _um_dict(names=_UM_NAMES):
    return [{"file": U, "old": _UM_OLD, "new": names + '            rec = dict(zip(names, react_string.split(":")))\n            rps = [rec[k] for k in ("r1", "r2", "p1", "p2", "p3", "p4")]\n'},
            {"file": U, "old": _UM_NUM, "new": '            self.alpha = float(rec["a"])\n            self.beta = float(rec["b"])\n            self.gamma = float(rec["c"])\n            self.temp_min = float(rec["lt"])\n'
             '            self.temp_max = float(rec["ut"])\n            self.idxfromfile = int(rec["idx"])\n            self.code = rec["code"]\n'}]


MUTANTS += [
    {"name": "factory-guard-clause-raw-truthiness", "file": NET, "old": _FACT_OLD, "new": "    line = initializer.preprocessing(react_string)\n    if not line:\n        return None\n    return initializer(line)\n", "rules": ["R1"]},
    {"name": "umist-dict-record-names-shifted", "edits": _um_dict(_UM_NAMES.replace('"nte", "a", "b", "c"', '"a", "b", "c", "nte"')), "rules": ["R5"]},
    {"name": "krome-prefix-table-lacks-slashes", "edits": [
        {"file": KR, "old": '        if line.startswith(("#", "//")):\n', "new": '        if line.startswith(cls._comment_marks):\n'},
        {"file": KR, "old": _KR_CLS, "new": '    _comment_marks = ("#",)\n\n' + _KR_CLS}], "rules": ["R1"]},
]
BENIGN += [
    {"name": "factory-guard-clause-positional", "file": NET, "old": _FACT_OLD, "new": "    line = initializer.preprocessing(react_string)\n    if not line or not line.strip():\n        return None\n    return initializer(line)\n"},
    {"name": "umist-record-dict-of-names", "edits": _um_dict()},
    {"name": "krome-prefix-table-class-constant", "edits": [
        {"file": KR, "old": '        if line.startswith(("#", "//")):\n', "new": '        if line.startswith(cls._comment_marks):\n'},
        {"file": KR, "old": _KR_CLS, "new": '    _comment_marks = ("#", "//")\n\n' + _KR_CLS}]},
]
_UC_REC = '            *rpspec, a, b, c, lt, ut = react_string.split(",")\n'


def _le_slices(a_hi=93):
    tab = ('    _fields = {"idx": slice(0, 5), "reac": slice(5, 35), "prod": slice(35, 85), "a": slice(85, ' + str(a_hi) + '), "b": slice(93, 102), "c": slice(102, 112), '
           '"lt": slice(112, 117), "ht": slice(117, 122), "type": slice(122, 125)}\n\n')
    return [{"file": L, "old": "    def _parse_string(self, react_string) -> None:\n        self.source = \"leeds\"\n", "new": tab + "    def _parse_string(self, react_string) -> None:\n        self.source = \"leeds\"\n"},
            {"file": L, "old": _LE_LISTS, "new": ""},
            {"file": L, "old": _LE_LOOP, "new": "            for label, span in self._fields.items():\n                clip = react_string[span]\n"},
            {"file": L, "old": "\n                stidx += len\n", "new": ""}]


def _ki_indexed(itype=6):
    return [{"file": K, "old": _KI_TAIL, "new": f"            tail = react_string[rlen + plen :].split()\n            a, b, c, itype, lt, ut, form, idx = tail[0], tail[1], tail[2], tail[{itype}], tail[7], tail[8], tail[9], tail[10]\n"}]


MUTANTS += [
    {"name": "uclchem-tail-slice-one-short", "file": UC, "old": _UC_REC, "new": '            rec = react_string.split(",")\n            rpspec = rec[:-5]\n            a, b, c, lt, ut = rec[-6:-1]\n', "rules": ["R5"]},
    {"name": "leeds-slice-table-alpha-too-wide", "edits": _le_slices(a_hi=94), "rules": ["R4"]},
    {"name": "kida-tail-indexed-itype-from-token-5", "edits": _ki_indexed(itype=5), "rules": ["R5"]},
]
BENIGN += [
    {"name": "uclchem-record-negative-slices", "file": UC, "old": _UC_REC, "new": '            rec = react_string.split(",")\n            rpspec = rec[:-5]\n            a, b, c, lt, ut = rec[-5:]\n'},
    {"name": "leeds-class-table-of-slices", "edits": _le_slices()},
    {"name": "kida-tail-indexed", "edits": _ki_indexed()},
]

# ---- wave 3: identity flow from the file to the parser (R11)
_LOOP_TRY = "                try:\n                    reac, prod, reactinst = self._add_reaction((line, format))\n"
MUTANTS += [
    {"name": "reading-loop-skips-hash-and-bang-lines", "file": NET, "old": _LOOP_TRY,
     "new": '                if line.lstrip().startswith(("#", "!")):\n                    continue\n' + _LOOP_TRY, "rules": ["R11"]},
    {"name": "reading-loop-strips-leading-blanks", "file": NET, "old": "self._add_reaction((line, format))", "new": "self._add_reaction((line.strip(), format))", "rules": ["R11"]},
    {"name": "base-constructor-rewrites-fortran-exponents-in-whole-line", "edits": [
        {"file": R, "old": "from __future__ import annotations\n", "new": "from __future__ import annotations\nimport re\n"},
        {"file": R, "old": "        self._parse_string(react_string)\n",
         "new": '        self._parse_string(re.sub(r"(\\d\\.?)[dD]([+-]?\\d)", r"\\1e\\2", react_string) if react_string else react_string)\n'}], "rules": ["R11"]},
    {"name": "uclchem-constructor-drops-surface-marker", "file": UC, "old": "super().__init__(react_string=react_string)", "new": 'super().__init__(react_string=react_string.lstrip("#"))', "rules": ["R11"]},
]
BENIGN += [
    {"name": "reading-loop-skips-blank-lines-early", "file": NET, "old": _LOOP_TRY, "new": "                if not line.strip():\n                    continue\n" + _LOOP_TRY},
    {"name": "reading-loop-skips-krome-comments-early", "file": NET, "old": _LOOP_TRY,
     "new": '                if format == "krome" and line.startswith("#"):\n                    continue\n' + _LOOP_TRY},
    {"name": "base-constructor-names-the-line-first", "file": R, "old": "        self._parse_string(react_string)\n", "new": "        record = react_string\n        self._parse_string(record)\n"},
]
MUTANTS += [
    {"name": "factory-guard-clause-compares-raw-line-with-empty", "file": NET, "old": _FACT_OLD,
     "new": '    line = initializer.preprocessing(react_string)\n    if line is None or line == "":\n        return None\n    return initializer(line)\n', "rules": ["R1"]},
]
BENIGN += [
    {"name": "factory-guard-clause-stripped-equals-empty", "file": NET, "old": _FACT_OLD,
     "new": '    line = initializer.preprocessing(react_string)\n    if not line or line.strip() == "":\n        return None\n    return initializer(line)\n'},
    {"name": "factory-guard-clause-isspace", "file": NET, "old": _FACT_OLD,
     "new": '    line = initializer.preprocessing(react_string)\n    if not line or line.isspace():\n        return None\n    return initializer(line)\n'},
    {"name": "krome-preprocessing-two-keeping-returns", "file": KR, "old": '        else:\n            return line.strip()\n',
     "new": '        elif line.startswith(" "):\n            return line.strip()\n        else:\n            return line.strip()\n'},
]
