"""C16 -- renormalisation restores the reference elemental abundances."""
from __future__ import annotations

import ast
import re

from .. import calg, jmodel as J
from ..cskel import Skel
from ..odemodel import FILE
from ..pymodel import package
from ..valueflow import Flow, as_map, contains, lower, match, V, show, simp, subst, walk

EXPLANATION = (
    "R1 (_prepare_renorm_content) the matrix term of (i, j) for species s is (c_si*c_sj*A_j)*ab[IDX_s]/A_s/Hnuclei and the factor of s is "
    "sum_j (c_sj*A_j)*rptr[IDX_ELEM_j]/A_s -- the same coefficient c_sj*A_j/A_s in both, counts and mass numbers taken from the loop's own "
    "species/element, electrons skipped in the matrix and given factor 1.0; R2 the matrix is filled row-major over elements x elements and "
    "both renorm templates decode loop.index0 as (index0/nelem | int, index0 % nelem) into IDX_ELEM_ names of the same network.elements; "
    "RenormAbundance multiplies ab[IDX_s] by the factor of the same position of zip(network.species, renorm.factor); R3 both Renorm drivers "
    "call InitRenorm, solve A r = ab_ref_ into a vector distinct from the stored reference, then RenormAbundance(r, ab); SetReferenceAbund "
    "normalises by the hydrogen entry; R4 every divisor `A` (mass number) is guarded for the species classes whose mass number is zero; R5 "
    "Network.elements is exactly the atomic members of Network.species and both are handed to NetworkInfo from the same network; R2 (every "
    "entry) InitRenorm assigns every matrix entry unconditionally, or the matrix it is handed is created zeroed by that very call of Renorm; "
    "R7 nothing of the library that runs after the element replacement table was installed (Network, readers, template loader) drops "
    "Species._replacement (no Species.reset(), no clearing store): the mass numbers the divisions use are looked up after replacement.  "
    "Verdicts: a VIOLATION is raised only for a construct that was reconstructed completely and differs; a shape that is not read "
    "(opaque helper, other arrangement of the statements) is UNRECOGNISED.")
ASSUMPTIONS = [
    "with M_ij = sum_s c_si c_sj A_j ab_s/(A_s H) and ab'_s = ab_s sum_j c_sj A_j r_j / A_s the new element totals are H*(M r)_i: the paper argument of DESIGN C16",
    "conditioning / singularity of the matrix and finiteness for extreme abundances are not decided",
]
ENGINES = ["pymodel", "valueflow", "calg", "jmodel", "cskel"]

CV_RENORM = "naunet/templates/cvode/src/naunet_renorm.cpp.j2"
OD_RENORM = "naunet/templates/odeint/src/naunet_renorm.cpp.j2"
CV_MAIN = "naunet/templates/cvode/src/naunet.cpp.j2"
OD_MAIN = "naunet/templates/odeint/src/naunet.cpp.j2"


def NAME(e):
    return ("call", ("global", "next"), (("call", ("global", "iter"), (("attr", e, "element_count"),), ()),), ())


def COUNT(spec, e):
    return ("meth", ("attr", spec, "element_count"), "get", (NAME(e), ("const", 0)), ())


def flat_mult(v):
    if v[0] == "binop" and v[1] == "Mult":
        return flat_mult(v[2]) + flat_mult(v[3])
    return [v]


def _r5(ctx, pkg):
    """The elements the matrix ranges over are ALL atomic species of the species list the factors range over."""
    import ast
    NF = "naunet/network.py"
    fn = pkg.cls("Network").methods.get("elements")
    if fn is None:
        ctx.missing("R5", "Network.elements", (NF, 0), "getter vanished")
        return
    ctx.saw(NF, "Network.elements")
    fl = Flow(fn, NF)
    rets = [f for f in fl.facts if f.kind == "return"]
    ok = sure = False
    found = "; ".join(show(simp(f.value))[:100] for f in rets)
    SP = ("attr", ("param", "self"), "species")
    if len(rets) == 1:
        v = simp(rets[0].value)
        if v[0] == "call" and v[1] in (("global", "list"), ("global", "sorted")) and len(v[2]) == 1:
            v = v[2][0]
        m = as_map(v)
        if m:
            var, elt, src, conds = m[0], m[1], m[2], m[3]
            from ..valueflow import split_guard
            conds = tuple(c if pol else ("unop", "Not", c) for c0 in conds for c, pol in split_guard((c0, True)))      # `if a and b` == `if a if b`
            atom = ("attr", var, "is_atom")
            ok = elt == var and src == SP and tuple(conds) == (atom,)
            # understood and wrong: the atoms of another collection than self.species, or of self.species under a further test
            sure = elt == var and _understood(src, *conds) and ((src == SP and atom in conds and len(conds) > 1) or
                                                                  (not contains(src, lambda t: t == SP) and atom in conds))
    _verdict(ctx, ok, sure, "R5", "Network.elements = atoms of Network.species", (NF, fn.lineno),
             "every atomic member of the species list (reacting or merely required) is an element" if ok else
             "the element list is not `the atomic members of self.species`: an atomic species that is in the species list but not in the source used here "
             "(e.g. a required species that takes part in no reaction) gets a factor `()` and no matrix row",
             expected="[spec for spec in self.species if spec.is_atom]", found=found)
    n = 0
    for f in pkg.files:
        if not f.endswith(".py") or f.startswith("naunet/examples/"):
            continue
        owner = {}
        for fn_ in ast.walk(pkg.modules[f]):
            if isinstance(fn_, (ast.FunctionDef, ast.AsyncFunctionDef)):
                for x in ast.walk(fn_):
                    if isinstance(x, ast.Call):
                        owner[id(x)] = fn_          # the innermost function wins (walk visits outer functions first)

        def through_local(e_, fn_):
            """a local bound exactly once in the function stands for the expression it was bound to"""
            for _ in range(3):
                if isinstance(e_, ast.Name) and fn_ is not None:
                    asg = [a for a in ast.walk(fn_) if isinstance(a, ast.Assign) and any(isinstance(t, ast.Name) and t.id == e_.id for t in a.targets)]
                    stores = [x for x in ast.walk(fn_) if isinstance(x, ast.Name) and x.id == e_.id and isinstance(x.ctx, ast.Store)]
                    if len(asg) == 1 and len(stores) == 1:
                        e_ = asg[0].value
                        continue
                break
            return e_
        from ..pymodel import constructions
        in_factory = {id(x) for cd in ast.walk(pkg.modules[f]) if isinstance(cd, ast.ClassDef) and cd.name == "NetworkInfo" for x in ast.walk(cd)}
        for c in constructions(pkg, pkg.modules[f], "NetworkInfo"):
            if id(c) in in_factory:
                continue            # read at the factory's call sites, with the arguments in place
            if True:
                n += 1
                args = {k.arg: k.value for k in c.keywords}
                e = c.args[0] if len(c.args) > 0 else args.get("elements")
                sp = c.args[1] if len(c.args) > 1 else args.get("species")
                e, sp = through_local(e, owner.get(id(c))), through_local(sp, owner.get(id(c)))
                attrs = isinstance(e, ast.Attribute) and isinstance(sp, ast.Attribute)
                good = attrs and e.attr == "elements" and sp.attr == "species" and ast.unparse(e.value) == ast.unparse(sp.value)
                # understood and wrong: two plain attributes that are not .elements / .species of one object; anything else (a call, a
                # local bound more than once, ..) is not read here
                # (understood: the two arguments are the .elements / .species attributes -- swapped, or of two different objects)
                attrs = attrs and {e.attr, sp.attr} <= {"elements", "species"}
                _verdict(ctx, good, attrs, "R5", f"{f.rsplit('/', 1)[1]}:NetworkInfo(elements, species)", (f, c.lineno), "elements and species of the same network are handed to the generator",
                         expected="NetworkInfo(network.elements, network.species, ...)", found=f"{ast.unparse(e) if e else None}, {ast.unparse(sp) if sp else None}")
    ctx.floor("R5", "NetworkInfo constructions", n, 2)


_OPAQUE = {"unknown", "acc", "carried", "after", "lambda", "appended", "removeone"}
_KNOWN_CALLS = {"next", "iter", "len", "str", "int", "float", "format", "zip", "enumerate", "list", "tuple"}
_STR_METHODS = {"get", "format", "join", "replace", "strip", "lstrip", "rstrip", "removeprefix", "removesuffix", "lower", "upper", "split"}


def _understood(*vals, lists=()) -> bool:
    """is every value a closed expression over loop elements, attributes, constants, arithmetic and string operations of known meaning --
    nothing the reconstruction gave up on (an opaque helper call, a value carried round a loop)?  Only such a value may be judged
    WRONG; anything else that does not match is merely not recognised.  `lists`: names of accumulated lists that may appear as such."""
    for v in vals:
        for x in walk(v):
            if not isinstance(x, tuple) or not x or not isinstance(x[0], str):
                continue
            if x[0] == "acc" and len(x) == 2 and x[1] in lists:
                continue
            if x[0] in _OPAQUE:
                return False
            if x[0] == "call" and not (x[1][0] == "global" and x[1][1] in _KNOWN_CALLS):
                return False
            if x[0] == "meth" and x[2] not in _STR_METHODS:
                return False
    return True


def _count_atoms(c, pol, is_count):
    """A test on element counts (non-negative integers) as atomic truthiness tests: `n > 0`, `n != 0`, `n >= 1`, `0 < n` are `n`;
    `n == 0`, `n < 1` are `not n`; a true product / min(..) of counts is every factor true.  -> [(condition, polarity)]"""
    if c[0] == "cmp" and len(c[1]) == 1 and len(c[2]) == 2:
        op, (a, b) = c[1][0], c[2]
        flip = {"Gt": "Lt", "Lt": "Gt", "GtE": "LtE", "LtE": "GtE", "Eq": "Eq", "NotEq": "NotEq"}
        if a[0] == "const" and op in flip:
            a, b, op = b, a, flip[op]
        if is_count(a) and b[0] == "const":
            if (op, b[1]) in (("Gt", 0), ("NotEq", 0), ("GtE", 1)):
                return _count_atoms(a, pol, is_count)
            if (op, b[1]) in (("Eq", 0), ("Lt", 1), ("LtE", 0)):
                return _count_atoms(a, not pol, is_count)
    if pol and c[0] == "binop" and c[1] == "Mult" and is_count(c[2]) and is_count(c[3]):
        return _count_atoms(c[2], True, is_count) + _count_atoms(c[3], True, is_count)
    if pol and c[0] == "call" and c[1] == ("global", "min") and c[2] and not c[3] and all(is_count(a) for a in c[2]):
        return [x for a in c[2] for x in _count_atoms(a, True, is_count)]
    if c[0] == "call" and c[1] == ("global", "bool") and len(c[2]) == 1 and not c[3]:
        return _count_atoms(c[2][0], pol, is_count)
    return [(c, pol)]


def _is_count(v) -> bool:
    """an element count: <species>.element_count.get(<name>, 0) (products of counts are counts)"""
    if v[0] == "meth" and v[2] == "get" and v[1][0] == "attr" and v[1][2] == "element_count" and len(v[3]) == 2 and v[3][1] == ("const", 0):
        return True
    return v[0] == "binop" and v[1] == "Mult" and _is_count(v[2]) and _is_count(v[3])


def _verdict(ctx, ok, sure, rule, key, where, msg, expected=None, found=None):
    """DISCHARGED when the construct has the required shape, VIOLATION when it is understood (`sure`) and differs, else UNRECOGNISED"""
    if ok:
        ctx.ok(rule, key, where, msg)
    elif sure:
        ctx.bad(rule, key, where, msg, expected, found)
    else:
        ctx.unrec(rule, key, where, f"not a shape this rule reads ({msg[:90]}...): {str(found)[:160]}")
    return bool(ok)


def _filtered_view(it, BASE):
    """is `it` recognisably a view of BASE that drops, repeats or re-orders entries (a filtered comprehension, reversed / sorted / set /
    a slice of it)?  -- positive evidence that a loop over it does not visit every entry once, in order"""
    if it[0] == "call" and it[1] == ("global", "enumerate") and it[2]:
        return _filtered_view(it[2][0], BASE)
    if it[0] == "call" and it[1] == ("global", "zip") and it[2] and not it[3]:
        return any(_filtered_view(a, BASE) for a in it[2])
    if it[0] == "call" and it[1][0] == "global" and it[1][1] in ("reversed", "sorted", "set", "frozenset") and it[2]:
        inner = it[2][0]
        mm = as_map(inner) if inner[0] in ("comp", "copy", "attr", "param") else None
        return bool(mm) and mm[2] == BASE
    if it[0] == "sub" and it[2][0] == "slice":
        mm = as_map(it[1]) if it[1][0] in ("comp", "copy", "attr", "param") else None
        return bool(mm) and mm[2] == BASE
    if it[0] == "filtered":
        return it[1] == BASE
    mm = as_map(it) if it[0] in ("comp", "copy") else None
    return bool(mm) and mm[2] == BASE and bool(mm[3])


def _over_elements(it, ELEMS):
    """does a loop over `it` visit position k of the element list in its k-th iteration, for every k?  `it` is the list itself, an
    unfiltered one-to-one view of it (the names), enumerate(..) of such, or zip(..) of such views only"""
    def view(x):
        mm = as_map(x) if x[0] in ("comp", "copy", "attr", "param") else None
        return bool(mm) and mm[2] == ELEMS and not mm[3]
    b = match(("call", ("global", "enumerate"), (V("s"),), ()), it)
    if b:
        z = b["s"]
        if z[0] == "call" and z[1] == ("global", "zip") and z[2] and not z[3]:
            return all(view(a) for a in z[2])          # enumerate(zip(names, elements)): the same positions
        return view(z)
    # a loop by position, `for k in range(len(<such a view>))`: the k-th iteration stands at position k (valueflow.simp reads X[k] of
    # a one-to-one view X of the same list as X's map of the list's element at that position)
    b = match(("call", ("global", "range"), (("call", ("global", "len"), (V("s"),), ()),), ()), it)
    if b:
        return view(b["s"])
    if it[0] == "call" and it[1] == ("global", "zip") and it[2] and not it[3]:
        return all(view(a) for a in it[2])
    return view(it)


def _acc_as_map(fl, name, outer, ELEMS):
    """A list local built by `name = []` + one (guarded) `name.append(v)` in a loop that runs inside the loops `outer`, seen as the
    comprehension it is equal to: (bv, body, base, ifs) like valueflow.as_map, or None.  Only for loops over the element list
    (the loop's element is what `bv` stands for)."""
    init = [f for f in fl.facts if f.kind == "init" and f.target == name]
    writes = [f for f in fl.facts if f.target == name and f.kind in ("append", "remove", "mutate", "store", "augstore")]
    outer_ids = tuple(l.id for l in outer)
    if len(init) != 1 or init[0].value != ("list", ()) or tuple(l.id for l in init[0].loops) != outer_ids or init[0].guards:
        return None
    if len(writes) != 1 or writes[0].kind != "append" or len(writes[0].loops) != len(outer) + 1 or tuple(l.id for l in writes[0].loops[:-1]) != outer_ids:
        return None
    w = writes[0]
    L = w.loops[-1]
    if not _over_elements(simp(L.iter), ELEMS):
        return None
    if any(x.kind in ("break", "return") and any(l.id == L.id for l in x.loops) for x in fl.facts):
        return None
    bv = ("bv", "_acc", L.id)
    e = ("elem", ELEMS, L.id)
    body = simp(subst(simp(w.value), {e: bv}))
    ifs = []
    for c, pol in w.guards:
        c = simp(subst(simp(c), {e: bv}))
        ifs.append(c if pol else ("unop", "Not", c))
    # nothing of the loop may be left in the body but through the element
    if any(isinstance(x, tuple) and len(x) == 3 and x[0] in ("elem", "idx") and x[2] == L.id for t in [body] + ifs for x in walk(t)):
        return None
    return (bv, body, ELEMS, tuple(ifs))


def check(ctx):
    pkg = package(ctx.tree)
    _r5(ctx, pkg)
    _r1_r4(ctx, pkg)
    # ------------------------------------------------------------ R2 templates
    for label, rel, pat in (("cvode", CV_RENORM, r"IJth\s*\(\s*A\s*,\s*\x00(\d+)\x00\s*,\s*\x00(\d+)\x00\s*\)\s*=\s*\x00(\d+)\x00"),
                            ("odeint", OD_RENORM, r"(?<![\w])A\s*\(\s*\x00(\d+)\x00\s*,\s*\x00(\d+)\x00\s*\)\s*=\s*\x00(\d+)\x00")):
        _r2_template(ctx, label, rel, pat)
    # ------------------------------------------------------------ R3 drivers
    _r3(ctx)
    # each rendering is computed from the network of that call: the renderer keeps no memo between two renderings (shared with C17.R7)
    from .c17 import stateless_renderer
    stateless_renderer(ctx, package(ctx.tree), "R6")
    _r7_replacement_survives(ctx, pkg)


def _r7_replacement_survives(ctx, pkg):
    """The mass numbers the matrix and the factors divide by are looked up by element symbol AFTER the configured replacement
    (`HE` -> `He`, `SI` -> `Si`): Species._replacement is installed once, by whoever sets the network up (the render command, a script),
    BEFORE the network is built.  Nothing of the package that runs afterwards -- Network, the readers, the template loader -- may drop
    that table: neither `Species.reset()` (which clears it together with the element lists) nor an assignment of an empty table /
    `.clear()`.  With the table gone `HE`, `SI`, `MG` have mass number 0 and InitRenorm divides by 0.0."""
    SP = "naunet/species.py"
    n = 0
    hits = []
    unknown = []
    for f in pkg.files:
        if not f.startswith("naunet/") or f.startswith("naunet/examples/") or f.startswith("naunet/console/") or not f.endswith(".py"):
            continue        # (the commands are the ones who install the table)
        mod = pkg.modules[f]

        def visit(node, qual, in_species):
            nonlocal n
            for ch in ast.iter_child_nodes(node):
                if isinstance(ch, ast.ClassDef):
                    visit(ch, ch.name, ch.name == "Species")
                    continue
                if isinstance(ch, (ast.FunctionDef, ast.AsyncFunctionDef)):
                    q = f"{qual}.{ch.name}" if qual else ch.name
                    if q == "Species.reset":
                        continue            # the public reset itself: what it clears is its contract
                    n += 1
                    visit(ch, q, in_species)
                    continue

                def is_species(e):
                    return (isinstance(e, ast.Name) and (e.id == "Species" or (in_species and e.id in ("cls", "self")))) or \
                        (isinstance(e, ast.Call) and isinstance(e.func, ast.Name) and e.func.id == "type" and in_species)
                if isinstance(ch, ast.Call) and isinstance(ch.func, ast.Attribute):
                    if ch.func.attr == "reset" and is_species(ch.func.value):
                        hits.append((f, ch.lineno, qual, "Species.reset()"))
                    elif ch.func.attr in ("clear", "pop", "popitem") and isinstance(ch.func.value, ast.Attribute) and ch.func.value.attr == "_replacement" and is_species(ch.func.value.value):
                        hits.append((f, ch.lineno, qual, f"Species._replacement.{ch.func.attr}()"))
                if isinstance(ch, (ast.Assign, ast.AnnAssign)):
                    for t in (ch.targets if isinstance(ch, ast.Assign) else [ch.target]):
                        if isinstance(t, ast.Attribute) and t.attr == "_replacement" and is_species(t.value) and qual:
                            v = ch.value
                            if isinstance(v, ast.Dict) and not v.keys or (isinstance(v, ast.Call) and ast.unparse(v) == "dict()"):
                                hits.append((f, ch.lineno, qual, "Species._replacement = {}"))
                            else:
                                unknown.append((f, ch.lineno, qual, ast.unparse(ch)[:80]))
                visit(ch, qual, in_species)
        visit(mod, "", False)
    for f, ln, qual, what in hits:
        ctx.bad("R7", f"{qual}: {what}", (f, ln), f"`{qual}` runs after the element replacement table was installed (it is part of building / rendering a network) and drops it with `{what}`: "
                "upper-case symbols (`HE`, `SI`, `MG`) are no longer mapped to the periodic table, their mass number is 0, and the generated renormalisation divides by 0.0 / "
                "solves a singular system", expected="only the element lists are re-installed (Species.set_known_elements / set_known_pseudoelements)", found=what)
    for f, ln, qual, what in unknown:
        ctx.unrec("R7", f"{qual}: stores Species._replacement", (f, ln), f"`{qual}` re-binds the replacement table (`{what}`): whether the configured table survives is not decided here")
    if not hits and not unknown:
        ctx.ok("R7", "replacement table survives", (SP, 0), f"none of the {n} functions of the library drops Species._replacement (no Species.reset(), no clearing store)")
    ctx.floor("R7", "library functions scanned", n, 180)


def _result_lists_as_loops(fn):
    """The rule reads the two result lists (and the term list of one matrix entry) as lists filled by `append` inside loops.  A list
    of that role written as a comprehension -- `renorm = [g(spec) for spec in species]`, `terms = [f".." for spec in species if ..]` --
    is rewritten as the loop it abbreviates (`X = []` + `for ..: if ..: X.append(..)`): by role, (a) a local handed to RenormContent(..),
    (b) a local joined with " + " inside a nest of two loops.  Other comprehensions (names, counts, contributions) stay values."""
    roles = set()
    for c in ast.walk(fn):
        if isinstance(c, ast.Call) and ast.unparse(c.func).split(".")[-1] == "RenormContent":
            roles |= {a.id for a in list(c.args) + [k.value for k in c.keywords] if isinstance(a, ast.Name)}

    def joined(node, depth):
        for ch in ast.iter_child_nodes(node):
            if isinstance(ch, (ast.FunctionDef, ast.AsyncFunctionDef, ast.Lambda, ast.ClassDef)):
                continue
            if depth >= 2 and isinstance(ch, ast.Call) and isinstance(ch.func, ast.Attribute) and ch.func.attr == "join" and isinstance(ch.func.value, ast.Constant) \
                    and ch.func.value.value == " + " and ch.args:
                roles.update(x.id for x in ast.walk(ch.args[0]) if isinstance(x, ast.Name))
            joined(ch, depth + (1 if isinstance(ch, ast.For) else 0))
    joined(fn, 0)

    class T(ast.NodeTransformer):
        def visit_Assign(self, st):
            if not (len(st.targets) == 1 and isinstance(st.targets[0], ast.Name) and st.targets[0].id in roles and isinstance(st.value, ast.ListComp)):
                return st
            x = st.targets[0].id
            body = ast.Expr(value=ast.Call(func=ast.Attribute(value=ast.Name(id=x, ctx=ast.Load()), attr="append", ctx=ast.Load()), args=[st.value.elt], keywords=[]))
            for g in reversed(st.value.generators):
                if g.is_async:
                    return st
                for c in reversed(g.ifs):
                    body = ast.If(test=c, body=[body], orelse=[])
                body = ast.For(target=g.target, iter=g.iter, body=[body], orelse=[])
            for n in ast.walk(body):
                if isinstance(n, (ast.Name, ast.Tuple, ast.List)) and isinstance(getattr(n, "ctx", None), ast.Store):
                    pass
            new = [ast.Assign(targets=[ast.Name(id=x, ctx=ast.Store())], value=ast.List(elts=[], ctx=ast.Load())), body]
            for n in new:
                ast.copy_location(n, st)
                ast.fix_missing_locations(n)
            return new

        def visit_FunctionDef(self, n):
            if n is fn:
                self.generic_visit(n)
            return n
        visit_Lambda = visit_ClassDef = visit_AsyncFunctionDef = lambda self, n: n
    if roles:
        T().visit(fn)
    return fn


def _renorm_method(pkg) -> str:
    """the name of the method of TemplateLoader that computes the renormalisation content: `_prepare_renorm_content`, or -- when it was
    renamed -- the one method of the class that is declared to return / returns a RenormContent(..)"""
    ci = pkg.cls("TemplateLoader")
    if "_prepare_renorm_content" in ci.methods:
        return "_prepare_renorm_content"
    def makes(m):
        if m.returns is not None and "RenormContent" in ast.unparse(m.returns):
            return True
        return any(isinstance(r, ast.Return) and isinstance(r.value, ast.Call) and ast.unparse(r.value.func).split(".")[-1] == "RenormContent" for r in ast.walk(m))
    names = [n for n, m in ci.methods.items() if makes(m)]
    return names[0] if len(names) == 1 else "_prepare_renorm_content"


def _renorm_flow(pkg):
    """(function, value reconstruction) of TemplateLoader._prepare_renorm_content, spelling differences removed"""
    # helpers the method may have been split into (one matrix entry, one factor, ...) are put back first
    fn = pkg.expanded("TemplateLoader", _renorm_method(pkg))
    # with the helpers back in place, loops by position (`for i in range(len(X))` / `range(n)` with n = len(X), reading X[i]) are the
    # enumerate loops they abbreviate
    import copy
    from ..normalize import index_loops_to_enumerate
    fn = _result_lists_as_loops(index_loops_to_enumerate(copy.deepcopy(fn)))

    # small loop-free helpers the values pass through (a method of the class, a function of this module or one imported from another
    # module of the package) are read as what they return
    def _method(name):
        return pkg.resolve("TemplateLoader", name)[1]

    def _function(name):
        if (FILE, name) in pkg.functions:
            return pkg.functions[(FILE, name)]
        mod, orig = pkg.imports.get(FILE, {}).get(name, (None, None))
        if mod and orig and mod.startswith("."):
            base = "naunet/" + mod.lstrip(".").replace(".", "/")
            for f_ in (base + ".py", base + "/__init__.py"):
                if (f_, orig) in pkg.functions:
                    return pkg.functions[(f_, orig)]
        return None
    return fn, Flow(fn, FILE, resolver=_method, func_resolver=_function, inline_loops=True)


def _r1_r4(ctx, pkg):
    fn, fl = _renorm_flow(pkg)
    ctx.saw(FILE, "TemplateLoader._prepare_renorm_content")
    NI = ("param", [a.arg for a in fn.args.args if a.arg != "self"][0])
    ELEMS = ("attr", NI, "elements")
    SPEC = ("attr", NI, "species")
    W = (FILE, fn.lineno)

    # ------------------------------------------------------------ R1 matrix term
    ret = [f for f in fl.facts if f.kind == "return"]
    mat_name = fac_name = None
    if len(ret) == 1 and ret[0].value[0] == "meth" and ret[0].value[2] == "RenormContent":
        # bound to the dataclass fields, by position or by keyword
        fields = [x.target.id for x in pkg.cls("TemplateLoader.RenormContent").node.body if isinstance(x, ast.AnnAssign) and isinstance(x.target, ast.Name)] \
            if "TemplateLoader.RenormContent" in pkg.classes else ["factor", "matrix"]
        given = dict(zip(fields, ret[0].value[3]))
        given.update({k: v for k, v in ret[0].value[4] if k in fields})
        a, b = given.get("factor"), given.get("matrix")
        if len(ret[0].value[3]) + len(ret[0].value[4]) == 2 and a is not None and b is not None and a[0] == "acc" and b[0] == "acc":
            fac_name, mat_name = a[1], b[1]
    if mat_name is None:
        ctx.unrec("R1", "RenormContent(...)", W, "return RenormContent(factor, matrix) not recognised")
        return
    mats = [f for f in fl.facts if f.kind == "append" and f.target == mat_name]
    # understood and wrong: the two lists handed over in each other's place -- the list given as `matrix` is filled once per species, the
    # one given as `factor` once per element pair
    fswap = [f for f in fl.facts if f.kind == "append" and f.target == fac_name]
    if len(mats) in (1, 2) and all(len(f.loops) == 1 and _over_elements(simp(f.loops[0].iter), SPEC) for f in mats) \
            and len(fswap) == 1 and len(fswap[0].loops) == 2 and all(_over_elements(simp(l.iter), ELEMS) for l in fswap[0].loops):
        ctx.bad("R1", "RenormContent(...): fields", (FILE, ret[0].line), f"RenormContent receives the per-species list `{mat_name}` as `matrix` and the element x element list `{fac_name}` as `factor`",
                expected="RenormContent(factor=<one entry per species>, matrix=<one entry per element pair>)", found=show(ret[0].value)[:120])
        return
    if len(mats) != 1 or len(mats[0].loops) != 2:
        # the arrangement of the statements is not the one read below: nothing is known about the entries themselves
        ctx.unrec("R1", "matrix:fill", W, f"expected one append to `{mat_name}` inside the element x element loops, found {[(f.line, len(f.loops)) for f in mats]}")
        return
    mf = mats[0]
    Li, Lj = mf.loops
    its = [simp(l.iter) for l in (Li, Lj)]
    en = [_over_elements(it, ELEMS) for it in its]
    _verdict(ctx, all(en), any(_filtered_view(it, ELEMS) for it in its), "R1", "matrix:loops", (FILE, mf.line),
             "matrix entries are appended row-major over the elements x the elements (every element once, in the order of netinfo.elements: "
             "a plain / enumerate / zip loop over the element list or one-to-one views of it such as the element names)",
             found="; ".join(show(i)[:80] for i in its))
    if not all(en):
        return
    ei, ej = ("elem", ELEMS, Li.id), ("elem", ELEMS, Lj.id)
    v = simp(mf.value)
    b = match(("join", ("const", " + "), ("acc", V("t"))), v)
    zero_in_join = False
    if not b:
        # `" + ".join(["0.0", *terms])` / `["0.0"] + terms`: the same text as a term list that starts with "0.0"
        b = match(("join", ("const", " + "), ("list", (("const", V("z")), ("star", ("acc", V("t")))))), v)
        if b and str(b["z"]).strip() in ("0.0", "0", "0."):
            zero_in_join = True
        else:
            b = None
    mguards = [(c, p) for c, p in mf.guards if not vacuous_guard(simp(c), p, its)]
    # understood and wrong: entries appended under a condition (positions shift), or joined with another separator
    # ... or the sum is reworked afterwards by string operations (text substitution on a generated expression, a wrapper)
    accs = {x[1] for x in walk(v) if isinstance(x, tuple) and len(x) == 2 and x[0] == "acc"}
    # (the term list joined with " + " must stand INSIDE what is appended -- wrapped, edited as text -- or be joined with another separator)
    reworked = not b and len(accs) == 1 and _understood(v, lists=accs) and (
        (v[0] == "join" and v[1][0] == "const" and v[1] != ("const", " + ") and v[2][0] == "acc") or
        (v[0] != "join" and contains(v, lambda t: isinstance(t, tuple) and len(t) == 3 and t[0] == "join" and t[1] == ("const", " + ") and t[2][0] == "acc")))
    _verdict(ctx, bool(b) and not mguards, bool(b and mguards) or reworked, "R1", "matrix:sum", (FILE, mf.line),
             "entry (i, j) is the ' + '-joined list of its terms, appended unconditionally", expected="' + '.join(terms)",
             found=show(v)[:160] + (f" under {len(mf.guards)} guard(s)" if mf.guards else ""))
    if not b and len(accs) != 1:
        return
    tname = b["t"] if b else next(iter(accs))
    tin = [f for f in fl.facts if f.kind == "init" and f.target == tname]
    in_ij = len(tin) == 1 and tuple(l.id for l in tin[0].loops) == (Li.id, Lj.id)
    zero = len(tin) == 1 and tin[0].value[0] == "list" and len(tin[0].value[1]) == 1 and tin[0].value[1][0][0] == "const" and str(tin[0].value[1][0][1]).strip() in ("0.0", "0", "0.", "0.0e0")
    if zero_in_join:
        # the "0.0" is put in front where the list is joined: the list itself starts empty
        zero = len(tin) == 1 and tin[0].value == ("list", ())
    # understood and wrong: one list shared by several entries (created outside the (i, j) loops), or an entry that starts empty (an
    # element pair no species couples would print nothing)
    _verdict(ctx, in_ij and zero and not tin[0].guards, len(tin) == 1 and tin[0].value[0] == "list" and ((not in_ij and len(tin[0].loops) < 2) or (in_ij and not tin[0].value[1] and not zero_in_join)),
             "R1", "matrix:terms-init", (FILE, tin[0].line if tin else mf.line),
             "the term list is re-created as ['0.0'] for every (i, j)", found="; ".join(show(f.value) + f" in {len(f.loops)} loops" for f in tin))
    tap = [f for f in fl.facts if f.kind == "append" and f.target == tname]
    if len(tap) != 1 or len(tap[0].loops) != 3:
        ctx.unrec("R1", "matrix:term-site", W, f"expected one term append inside the species loop, found {[(f.line, len(f.loops)) for f in tap]}")
        return
    tf = tap[0]
    Ls = tf.loops[2]
    sit = simp(Ls.iter)
    sp_ok = _over_elements(sit, SPEC)
    _verdict(ctx, sp_ok, _filtered_view(sit, SPEC), "R1", "matrix:species-loop", (FILE, Ls.line), "terms are collected over the unfiltered species list", found=show(sit)[:80])
    if not sp_ok:
        return
    s = ("elem", SPEC, Ls.id)
    ci, cj = COUNT(s, ei), COUNT(s, ej)
    Aj = ("attr", ej, "A")
    lw = lower(tf.value)
    term_ok = False
    detail = lw.text
    hv = {k: (x[1] if x[0] == "fmt" else x) for k, x in lw.holes.items()}
    # the text is judged only when every piece of it was reconstructed (no opaque helper, no list pasted in as a whole)
    sure = _understood(*hv.values()) and not lw.seqs
    try:
        e = calg.parse(lw.text)
        num, den = calg.split_factors(e)
        numh = [n for n in num if n[0] == "id" and n[1] in hv]
        ab = [n for n in num if n[0] == "index" and n[1] == ("id", "ab")]
        others = [n for n in num if n not in numh and n not in ab]
        denh = [d for d in den if d[0] == "id" and d[1] in hv]
        dens = [d for d in den if d not in denh]
        if len(numh) == 1 and len(ab) == 1 and not others and len(denh) == 1 and len(dens) == 1 and dens[0] == ("id", "Hnuclei"):
            coeff_factors = sorted(map(repr, flat_mult(hv[numh[0][1]])))
            want = sorted(map(repr, [ci, cj, Aj]))
            idx = calg.unparse(ab[0][2])
            # ab[IDX_<alias>] : the index text is IDX_ followed by a hole
            m2 = re.fullmatch(r"IDX_(H\d+_)", idx)
            alias_ok = bool(m2) and hv.get(m2.group(1)) == ("attr", s, "alias")
            div_ok = hv[denh[0][1]] == ("attr", s, "A")
            term_ok = coeff_factors == want and alias_ok and div_ok
            detail = f"coefficient factors {[show(x) for x in flat_mult(hv[numh[0][1]])]}, ab index {idx}->{show(hv.get(m2.group(1))) if m2 else '?'}, divisor {show(hv[denh[0][1]])}"
    except calg.CParseError as ex:
        detail = f"{lw.text!r}: {ex}"
        sure = False
    _verdict(ctx, term_ok, sure, "R1", "matrix:term", (FILE, tf.line),
             "term = (c_si * c_sj * A_j) * ab[IDX_<alias of s>] / A_s / Hnuclei with c from the row/column element names and A_j from the column element",
             expected="(ci*cj*elements[j].A) * ab[IDX_{spec.alias}] / {spec.A} / Hnuclei", found=detail[:300])
    from .c13 import vacuous_guard
    g = [x for c, p in tf.guards if not vacuous_guard(simp(c), p, [simp(l.iter) for l in tf.loops]) for x in _count_atoms(simp(c), p, _is_count)]
    # guards arrive as atomic conditions in positive form (valueflow.split_guard): {not electron, ci, cj} in any spelling
    g_ok = {(repr(c), p) for c, p in g} == {(repr(("attr", s, "is_electron")), False), (repr(ci), True), (repr(cj), True)}
    _verdict(ctx, g_ok, _understood(*[c for c, _ in g]), "R1", "matrix:term-guard", (FILE, tf.line), "a term exists iff the species is not the electron and contains both elements",
             expected="not spec.is_electron and ci and cj", found="; ".join(("" if p_ else "not ") + show(c)[:160] for c, p_ in g))

    # ------------------------------------------------------------ R1 factor
    facs = [f for f in fl.facts if f.kind == "append" and f.target == fac_name]
    fguards = ()
    fvalue = None
    if len(facs) == 2 and len(facs[0].loops) == 1 and tuple(l.id for l in facs[0].loops) == tuple(l.id for l in facs[1].loops) \
            and len(facs[0].guards) == 1 and len(facs[1].guards) == 1 and simp(facs[0].guards[0][0]) == simp(facs[1].guards[0][0]) and facs[0].guards[0][1] != facs[1].guards[0][1]:
        # `if c: X.append(a) else: X.append(b)` is `X.append(a if c else b)`: exactly one of the two runs in every iteration
        t_, e_ = (facs[0], facs[1]) if facs[0].guards[0][1] else (facs[1], facs[0])
        fvalue = ("ifexp", simp(t_.guards[0][0]), simp(t_.value), simp(e_.value))
        facs = [e_]
    elif len(facs) == 1:
        fguards = tuple((c, p) for c, p in facs[0].guards if not vacuous_guard(simp(c), p, [simp(l.iter) for l in facs[0].loops]))
    if len(facs) != 1 or len(facs[0].loops) != 1:
        ctx.unrec("R1", "factor:site", W, f"expected one append to `{fac_name}` in the species loop, found {[(f.line, len(f.loops)) for f in facs]}")
        return
    ff = facs[0]
    Lf = ff.loops[0]
    fit = simp(Lf.iter)
    f_ok = _over_elements(fit, SPEC)
    # understood and wrong: a species left without a slot (a filtered pass, or the append under a condition) -- RenormAbundance pairs
    # factor n with species n
    _verdict(ctx, f_ok and not fguards, _filtered_view(fit, SPEC) or (f_ok and bool(fguards)), "R1", "factor:species-loop", (FILE, ff.line),
             "one factor per species, in the order of the unfiltered species list (the order RenormAbundance zips with)",
             found=show(fit)[:80] + (f" under {len(fguards)} guard(s)" if fguards else ""))
    if not f_ok:
        return
    s2 = ("elem", SPEC, Lf.id)
    v = simp(fvalue if fvalue is not None else ff.value)
    for _ in range(2):
        if v[0] in ("ifexp", "phi") and len(v) == 4 and v[1][0] == "unop" and v[1][1] == "Not":
            v = (v[0], v[1][2], v[3], v[2])         # `a if not c else b` is `b if c else a`
    bE = match(("ifexp", ("attr", s2, "is_electron"), V("one"), V("rest")), v)
    e_ok = bool(bE) and bE["one"] in (("const", 1.0), ("const", "1.0"), ("const", 1))
    # understood and wrong: no special case for the electron at all (the plain sum for every species), or another constant for it
    e_sure = bool(match(("join", ("const", " + "), V("seq")), v)) or (bool(bE) and bE["one"][0] in ("const", "join"))      # (.. or the sum itself, on the electron's arm)
    _verdict(ctx, e_ok, e_sure, "R1", "factor:electron", (FILE, ff.line), "the electron's factor is 1.0 (left untouched)", found=show(v)[:100])
    rest = bE["rest"] if bE else v
    b = match(("join", ("const", " + "), V("seq")), rest)
    # understood and wrong: the sum is reworked afterwards (clamped, wrapped in a call, edited as text): the species is no longer scaled
    # by the coefficient the matrix was built for
    accs = {x[1] for x in walk(rest) if isinstance(x, tuple) and len(x) == 2 and x[0] == "acc"}
    freworked = not b and _understood(rest, lists=accs) and (
        (rest[0] == "join" and rest[1][0] == "const" and rest[1] != ("const", " + ")) or
        (rest[0] != "join" and (bool(bE) or not contains(rest, lambda t: t == ("attr", s2, "is_electron")))
         and contains(rest, lambda t: isinstance(t, tuple) and len(t) == 3 and t[0] == "join" and t[1] == ("const", " + "))))
    _verdict(ctx, bool(b), freworked, "R1", "factor:sum", (FILE, ff.line), "the factor of a species is the plain ' + '-joined sum of its contributions",
             expected="' + '.join(contributions)", found=show(rest)[:200])
    if b:
        # the list of contributions: a comprehension, or a list filled by a loop over the elements
        mm = _acc_as_map(fl, b["seq"][1], (Lf,), ELEMS) if b["seq"][0] == "acc" else as_map(b["seq"])
        okf = False
        suref = False
        detail = show(b["seq"])[:200]
        if mm:
            bv, body, base, ifs = mm
            ifs = tuple(c if pol else ("unop", "Not", c) for c0 in ifs for c, pol in _count_atoms(c0, True, _is_count))      # `if c > 0` is `if c`
            cj2 = COUNT(s2, bv)
            lw = lower(body)
            hv = {k: (x[1] if x[0] == "fmt" else x) for k, x in lw.holes.items()}
            suref = _understood(*hv.values(), *ifs) and not lw.seqs and base == ELEMS
            try:
                e = calg.parse(lw.text)
                num, den = calg.split_factors(e)
                numh = [n for n in num if n[0] == "id" and n[1] in hv]
                rp = [n for n in num if n[0] == "index" and n[1] == ("id", "rptr")]
                denh = [d for d in den if d[0] == "id" and d[1] in hv]
                detail = f"over {show(base)}: {lw.text!r} with {[show(x)[:60] for x in hv.values()]}, filter {[show(c) for c in ifs]}"
                if len(numh) == 1 and len(rp) == 1 and len(num) == 2 and len(den) == 1 and len(denh) == 1:
                    cf = sorted(map(repr, flat_mult(hv[numh[0][1]])))
                    idx = calg.unparse(rp[0][2])
                    m2 = re.fullmatch(r"IDX_ELEM_(H\d+_)", idx)
                    okf = cf == sorted(map(repr, [cj2, ("attr", bv, "A")])) and bool(m2) and hv.get(m2.group(1)) == NAME(bv) and \
                        hv[denh[0][1]] == ("attr", s2, "A") and base == ELEMS and tuple(ifs) == (cj2,)
                    detail = f"over {show(base)}: coefficient {[show(x) for x in flat_mult(hv[numh[0][1]])]}, rptr index {idx}->{show(hv.get(m2.group(1))) if m2 else '?'}, divisor {show(hv[denh[0][1]])}, filter {[show(c) for c in ifs]}"
                    # understood and wrong: the divisor is a mass RE-SUMMED over elements (`sum(c * elem.A ..)`) and never reads the species'
                    # own mass number -- the matrix was built with spec.A, so the two disagree for every species that holds an element
                    # outside the summed list (CO without atomic C in the network)
                    dv = hv[denh[0][1]]
                    if not okf and not contains(dv, lambda t: isinstance(t, tuple) and len(t) == 3 and t[0] == "attr" and t[1] == s2 and t[2] in ("A", "massnumber")) \
                            and contains(dv, lambda t: isinstance(t, tuple) and len(t) >= 2 and t[0] == "call" and t[1] == ("global", "sum")) \
                            and contains(dv, lambda t: isinstance(t, tuple) and len(t) == 3 and t[0] == "attr" and t[2] in ("A", "massnumber")):
                        suref = True
                        detail = "the divisor is a sum of element masses, not the species' mass number spec.A the matrix term divides by: " + detail
            except calg.CParseError as ex:
                detail = f"{lw.text!r}: {ex}"
                suref = False
        _verdict(ctx, okf, suref, "R1", "factor:term", (FILE, ff.line),
                 "factor of s = sum over elements j contained in s of (c_sj * A_j) * rptr[IDX_ELEM_j] / A_s -- the coefficient c_sj*A_j/A_s of the matrix term",
                 expected="f'{c * elem.A} * rptr[IDX_ELEM_{ename}] / {spec.A}' for the elements with c != 0", found=detail[:300])

    # ------------------------------------------------------------ R4 divisors
    # contradiction rule: mass number 0 is believed possible (electrons are guarded) -- grains also have A = 0
    for label, fact, spec, guards in (("matrix", tf, s, g), ("factor", ff, s2, None)):
        lw = lower(fact.value if label == "matrix" else (b["seq"] if b else fact.value))
        txt = show(simp(fact.value))
        e_guard = ("is_electron" in " ".join(show(c) for c, _ in (guards or []))) if label == "matrix" else e_ok
        gr_guard = "is_grain" in txt or "is_grain" in " ".join(show(c) for c, _ in (fact.guards or []))
        nz_guard = any(show(c).endswith(".A") or ".A and" in show(c) or "massnumber" in show(c) for c, _ in fact.guards)
        ctx.check(e_guard and (gr_guard or nz_guard), "R4", f"{label}:divisor spec.A", (FILE, fact.line),
                  "the divisor `spec.A` (mass number) is guarded for electrons but not for grain species, whose mass number is 0.0 as well: "
                  "a network carrying GRAIN0/GRAIN- emits `0.0 * ab[..] / 0.0` (NaN)" if not (gr_guard or nz_guard) else
                  "every species class with mass number 0 is kept away from the division",
                  expected="guard for every species with A == 0 (electron and grain)", found="guards: is_electron only")


def _resolve(e, sets):
    if isinstance(e, tuple) and len(e) == 2 and e[0] == "name" and e[1] in sets:
        return _resolve(sets[e[1]], sets)
    if isinstance(e, tuple):
        return tuple(_resolve(x, sets) if isinstance(x, tuple) else x for x in e)
    return e


ELEMIDX = ("filter", "list", ("filter", "map", ("filter", "map", ("filter", "map", ("attr", ("name", "network"), "elements"), (), (("attribute", ("const", "element_count")),)),
                                                              (("const", "first"),), ()), (("const", "prefix"), ("const", "IDX_ELEM_")), ()), (), ())


def _arith(e):
    """sums and products with their operands in one fixed order (a*n + b == b + n*a), `loop.index - 1` as `loop.index0`"""
    if not isinstance(e, tuple) or not e:
        return e
    e = tuple(_arith(x) if isinstance(x, tuple) else x for x in e)
    if e[0] == "bin" and e[1] == "-" and e[3] == ("const", 1) and e[2][0] == "attr" and e[2][2] == "index" and e[2][1][0] == "name" and e[2][1][1].startswith("loop"):
        return ("attr", e[2][1], "index0")
    # (S | batch(n))[r][c]  ->  S[r * n + c]   (rows of n consecutive items)
    if e[0] == "item" and e[1][0] == "item" and e[1][1][0] == "filter" and e[1][1][1] == "batch" and len(e[1][1][3]) == 1 and not e[1][1][4]:
        bt = e[1][1]
        return _arith(("item", bt[2], ("bin", "+", ("bin", "*", e[1][2], bt[3][0]), e[2])))
    if e[0] == "bin" and e[1] in ("+", "*"):
        ops = []

        def flat(x):
            if isinstance(x, tuple) and x and x[0] == "bin" and x[1] == e[1]:
                flat(x[2]), flat(x[3])
            else:
                ops.append(x)
        flat(e)
        ops.sort(key=repr)
        out = ops[0]
        for x in ops[1:]:
            out = ("bin", e[1], out, x)
        return out
    return e


def _norm(e):
    return _arith(J.canon(e))


_T_FILTERS = {"list", "map", "int", "length", "prefix", "suffix", "first", "last", "batch", "stmwrap", "attribute", "round", "abs", "string", "trim",
              "rejectattr", "selectattr", "reject", "select", "reverse", "sort", "unique", "slice"}      # (the last row: filters that drop / re-order entries)


def _tunderstood(*es) -> bool:
    """is every template expression built from the renderer's own variables (network, renorm, the loop counters), constants, arithmetic
    and filters of known meaning only?  Only such an expression may be judged WRONG; one that goes through a macro call, a namespace, a
    variable of unknown origin or an unknown filter is merely not recognised."""
    def rec(e):
        if not isinstance(e, tuple) or not e or not isinstance(e[0], str):
            return True
        k = e[0]
        if k == "name":
            return e[1] in ("network", "renorm", "zip") or e[1].startswith("loop@")
        if k == "call":
            return e[1] == ("name", "zip") and all(rec(a) for a in e[2]) and not e[3]
        if k == "filter":
            return e[1] in _T_FILTERS and rec(e[2]) and all(rec(a) for a in e[3]) and all(rec(v) for _, v in e[4])
        if k in ("test", "cond", "dict"):
            return False
        return all(rec(x) for x in e[1:] if isinstance(x, tuple))
    return all(rec(e) for e in es)


def _statements(items, pat, split_concat=False, tree=None, rel=None):
    """Every place inside `items` (descending into loops) where the text matches `pat` (holes are the pattern's groups), with the hole
    expressions resolved to what they stand for: `{% set %}` bindings substituted, and -- so that a flat loop with index arithmetic
    and a loop nest read alike -- the loop variable of the k-th enclosing loop over S replaced by `S[loop@k.index0]` (for a tuple
    target over zip(A, B): `A[loop@k.index0]`, `B[loop@k.index0]`) and `loop` by `loop@k` of the loop it is evaluated in.
    -> [(resolved group expressions, [(for item, resolved sequence), ...outermost first], line)]"""
    found = []

    def val(e, env):
        # one-expression macros of the template used as values are what they print (jmodel.inline_macros)
        if tree is not None:
            e = J.inline_macros(tree, rel, e)
        return J.subst(e, env)

    def rec(its, env, stack, conds=()):
        env = dict(env)
        flat = []
        for it in its:
            if it[0] == "set":
                if it[1][0] == "name":
                    env[it[1][1]] = val(it[2], env)
                elif it[1][0] == "tuple" and it[2][0] == "tuple" and len(it[1][1]) == len(it[2][1]):
                    vals = [val(v, env) for v in it[2][1]]
                    for t, v in zip(it[1][1], vals):
                        if t[0] == "name":
                            env[t[1]] = v
            elif it[0] == "for":
                k = len(stack) + 1
                lp = ("name", f"loop@{k}")
                idx = ("attr", lp, "index0")
                seq = val(it[2], env)
                e2 = dict(env)
                e2["loop"] = lp
                tg = it[1]
                if tg[0] == "name":
                    e2[tg[1]] = ("item", seq, idx)
                elif tg[0] == "tuple" and seq[0] == "call" and seq[1] == ("name", "zip") and len(seq[2]) == len(tg[1]) and not seq[3]:
                    for t, a_ in zip(tg[1], seq[2]):
                        if t[0] == "name":
                            e2[t[1]] = ("item", a_, idx)
                else:
                    for t in (tg[1] if tg[0] == "tuple" else ()):
                        if t[0] == "name":
                            e2.pop(t[1], None)
                rec(it[3], e2, stack + ((it, seq),), conds)
            elif it[0] == "if":
                rec(it[2], env, stack, conds + ((val(it[1], env), True),))
                rec(it[3], env, stack, conds + ((val(it[1], env), False),))
            elif it[0] == "text":
                flat.append(it)
            elif it[0] == "out":
                r = val(it[1], env)
                # an output that is a concatenation `"ab[" ~ idx ~ "]"` prints its constant pieces as text around its other pieces
                parts = r[1] if (split_concat and r[0] == "concat") else (r,)
                for part in parts:
                    flat.append(("text", part[1]) + it[2:] if split_concat and part[0] == "const" and isinstance(part[1], str) else ("out", part) + it[2:])
        txt = "".join(x[1] if x[0] == "text" else f"\x00{i}\x00" for i, x in enumerate(flat))
        for mm in re.finditer(pat, txt):
            found.append((tuple(flat[int(g)][1] for g in mm.groups()), stack, flat[int(mm.group(1))][2]))
            under.append(conds)
    under = _statements.under = []          # per statement found: the undecided {% if %} tests (test, arm) it sits under
    rec(items, {}, ())
    return found


def _top_items(sk, fname):
    """the template items of one C function, outermost only (a loop carries its body), in source order"""
    its = [it for it, off in sk.items_in(fname)]
    nested = set()
    for it in its:
        if it[0] in ("for", "if", "setblock"):
            for x, st in J.walk_items(it[3] if it[0] == "for" else it[2]):
                nested.add(id(x))
            if it[0] in ("for", "if"):
                for x, st in J.walk_items(it[4] if it[0] == "for" else it[3]):
                    nested.add(id(x))
    return [it for it in its if id(it) not in nested]


MATRIX = ("attr", ("name", "renorm"), "matrix")
FACTOR = ("attr", ("name", "renorm"), "factor")
SPECIES_T = ("attr", ("name", "network"), "species")


def _r2_every_entry(ctx, label, rel, line, conds):
    """InitRenorm assigns EVERY entry of the matrix -- or, when it leaves some out (`{% if term != "0.0" %}`), the matrix it is handed is
    created zeroed by that very call of Renorm.  A matrix that lives longer than one call still holds the in-place LU factors of the
    previous solve wherever InitRenorm does not write."""
    key = f"{label}:InitRenorm:every entry"
    if not conds:
        ctx.ok("R2", key, (rel, line), "the assignment is unconditional: every entry is written on every call")
        return
    main = CV_MAIN if label == "cvode" else OD_MAIN
    sk = Skel(J.flatten(ctx.tree, main, {"general.method": "dense"} if label == "cvode" else {}))
    fs = sk.func("Naunet::Renorm")
    shown = "; ".join(("" if arm else "not ") + J.show(t)[:60] for t, arm in conds)
    if not fs:
        ctx.unrec("R2", key, (rel, line), f"entries are written under `{shown}` and Naunet::Renorm was not found")
        return
    body = sk.plain(fs[0].body)
    mi = re.search(r"\bInitRenorm\s*\(\s*\w+\s*,\s*(\w+)\s*\)", body)
    if not mi:
        ctx.unrec("R2", key, (rel, line), f"entries are written under `{shown}` and the call InitRenorm(ab, <matrix>) was not found in Naunet::Renorm")
        return
    A = mi.group(1)
    # a zeroed matrix created by this call: a local declaration at the top level of the function body, before InitRenorm
    head = body[:mi.start()]
    depth0 = ""
    d = 0
    for ch in head:
        if ch == "{":
            d += 1
        elif ch == "}":
            d -= 1
        elif d <= 1:
            depth0 += ch
    fresh = re.search(rf"\bSUNMatrix\s+{A}\s*=\s*SUNDenseMatrix\s*\(", depth0) if label == "cvode" else \
        re.search(rf"\b{A}\s*(?:=\s*(?:boost::numeric::ublas::)?zero_matrix|\.clear\s*\(\s*\))", depth0)
    ctx.check(bool(fresh), "R2", key, (rel, line),
              f"entries are written only under `{shown}`, and Renorm hands InitRenorm a matrix it has just created zeroed" if fresh else
              f"InitRenorm writes an entry only under `{shown}`, and the matrix `{A}` Renorm hands it is not created zeroed by that call (it outlives the call, or is never "
              "cleared): the entries left out keep whatever the previous in-place factorisation stored there, and from the second call on Renorm solves with a wrong matrix",
              expected="an unconditional assignment of every entry, or a matrix created zeroed inside Renorm before InitRenorm", found=f"{shown}; InitRenorm(.., {A})")


def _r2_template(ctx, label, rel, pat):
    ctx.saw(rel)
    items = J.flatten(ctx.tree, rel, {})
    sk = Skel(items)
    key = f"{label}:InitRenorm"
    sts = _statements(_top_items(sk, "InitRenorm"), pat, tree=ctx.tree, rel=rel)
    if len(sts) != 1:
        ctx.unrec("R2", key, (rel, 0), f"expected one assignment `A(row, col) = term` inside the loop(s) of InitRenorm, found {len(sts)}")
    else:
        (row, col, val), stack, line = sts[0]
        _r2_every_entry(ctx, label, rel, line, _statements.under[0])
        n = _norm(("filter", "length", ELEMIDX, (), ()))
        idx = [("attr", ("name", f"loop@{k + 1}"), "index0") for k in range(len(stack))]
        seqs = [_norm(sq) for _, sq in stack]
        filtered = [it for it, _ in stack if it[7] is not None]
        base, fs = J.unfilter(val)
        row, col, base = _norm(row), _norm(col), _norm(base)
        if filtered:
            ctx.bad("R2", key, (rel, line), "InitRenorm must visit every matrix entry: the loop is filtered", found=J.show(filtered[0][7]))
        elif len(stack) == 1 and seqs[0] == MATRIX:
            # one flat loop over the row-major list: entry k belongs to (k // nelem, k % nelem)
            want_row = _norm(("item", ELEMIDX, ("bin", "//", idx[0], n)))
            want_col = _norm(("item", ELEMIDX, ("bin", "%", idx[0], n)))
            want_val = ("item", MATRIX, idx[0])
        elif len(stack) == 2 and (all(_norm(("filter", "length", sq, (), ())) == n for sq in seqs) or
                                  (seqs[0] == ("filter", "batch", MATRIX, (n,), ()) and seqs[1] == ("item", seqs[0], idx[0]))):
            # (the row-major list of nelem * nelem entries -- R1 -- cut into rows of nelem is the same nest)
            # a loop nest over the elements x the elements: (r, c) takes entry r * nelem + c
            want_row = _norm(("item", ELEMIDX, idx[0]))
            want_col = _norm(("item", ELEMIDX, idx[1]))
            want_val = _norm(("item", MATRIX, ("bin", "+", ("bin", "*", idx[0], n), idx[1])))
        else:
            ctx.unrec("R2", key, (rel, line), "the loops around `A(row, col) = term` are neither one loop over renorm.matrix nor a nest over the elements x the elements: "
                      + "; ".join(J.show(sq)[:80] for sq in seqs))
            filtered = [None]
        if not filtered:
            _verdict(ctx, row == want_row, _tunderstood(row), "R2", f"{key}:row", (rel, line), "row macro = IDX_ELEM_ name of network.elements number (flat index / nelem)|int -- the row the entry was computed for",
                     expected=J.show(want_row)[:160], found=J.show(row)[:160])
            _verdict(ctx, col == want_col, _tunderstood(col), "R2", f"{key}:col", (rel, line), "column macro = IDX_ELEM_ name of network.elements number (flat index % nelem) -- the column the entry was computed for",
                     expected=J.show(want_col)[:160], found=J.show(col)[:160])
            _verdict(ctx, base == want_val and all(f[0] == "stmwrap" for f in fs), _tunderstood(_norm(val)), "R2", f"{key}:value", (rel, line), "the assigned value is entry row*nelem + col of renorm.matrix (whitespace filters only)",
                     expected=J.show(want_val)[:160], found=J.show(val)[:160])
    # RenormAbundance
    key = f"{label}:RenormAbundance"
    sts = _statements(_top_items(sk, "RenormAbundance"), r"ab\s*\[\s*\x00(\d+)\x00\s*\]\s*=\s*ab\s*\[\s*\x00(\d+)\x00\s*\]\s*\*\s*\(\s*\x00(\d+)\x00\s*\)\s*;", split_concat=True, tree=ctx.tree, rel=rel)
    literal_prefix = False
    if not sts:
        # the prefix written as text in front of the printed alias: `ab[IDX_{{ spec.alias }}]` prints what `{{ spec.alias | prefix("IDX_") }}` prints
        sts = _statements(_top_items(sk, "RenormAbundance"), r"ab\s*\[\s*IDX_\x00(\d+)\x00\s*\]\s*=\s*ab\s*\[\s*IDX_\x00(\d+)\x00\s*\]\s*\*\s*\(\s*\x00(\d+)\x00\s*\)\s*;", split_concat=True, tree=ctx.tree, rel=rel)
        literal_prefix = bool(sts)
    if len(sts) != 1 or len(sts[0][1]) != 1:
        ctx.unrec("R2", key, (rel, 0), f"expected one statement `ab[IDX] = ab[IDX] * (factor);` inside one loop of RenormAbundance, found {len(sts)}")
        return
    (a, b, f), stack, line = sts[0]
    if literal_prefix:
        a, b = (("filter", "prefix", x, (("const", "IDX_"),), ()) for x in (a, b))
    it, seq = stack[0]
    idx = ("attr", ("name", "loop@1"), "index0")
    want_idx = _norm(("filter", "prefix", ("attr", ("item", SPECIES_T, idx), "alias"), (("const", "IDX_"),), ()))
    want_f = ("item", FACTOR, idx)
    a, b, f = _norm(a), _norm(b), _norm(f)
    parts = seq[2] if seq[0] == "call" and seq[1] == ("name", "zip") and not seq[3] else (seq,)
    bases = [J.unfilter(x)[0] for x in parts]
    if not all(x in (SPECIES_T, FACTOR) for x in bases):
        ctx.unrec("R2", key, (rel, line), f"RenormAbundance iterates {J.show(seq)[:100]}, not the species / the factors (or both zipped)")
        return
    plain = it[7] is None and all(x in (SPECIES_T, FACTOR) for x in parts)
    _verdict(ctx, plain and a == want_idx and b == want_idx and f == want_f, _tunderstood(a, b, f, _norm(seq)) and (it[7] is None or _tunderstood(it[7])), "R2", key, (rel, line),
             "ab[IDX_<alias of species n>] is multiplied by factor n, for every species (one unfiltered pass over the species and their factors)",
             expected=f"ab[{J.show(want_idx)}] *= ({J.show(want_f)}) over zip(network.species, renorm.factor)",
             found=f"ab[{J.show(a)}] = ab[{J.show(b)}] * ({J.show(f)}) over {J.show(seq)[:100]}")


def _order(body, pats):
    pos = []
    for p in pats:
        m = re.search(p, body)
        pos.append(m.start() if m else -1)
    return pos


def _r3(ctx):
    # cvode
    ctx.saw(CV_MAIN)
    sk = Skel(J.flatten(ctx.tree, CV_MAIN, {"general.method": "dense"}))
    fs = sk.func("Naunet::Renorm")
    if not fs:
        ctx.missing("R3", "cvode:Naunet::Renorm", (CV_MAIN, 0), "Naunet::Renorm not found")
    else:
        body = sk.plain(fs[0].body)
        mi = re.search(r"\bInitRenorm\s*\(\s*ab\s*,\s*(\w+)\s*\)", body)
        Amat = mi.group(1) if mi else "A"            # the matrix by role: the one InitRenorm fills
        pos = _order(body, [r"\bInitRenorm\s*\(\s*ab\s*,\s*\w+\s*\)", rf"\bSUNLinSolSetup\s*\(\s*\w+\s*,\s*{Amat}\s*\)", r"\bSUNLinSolSolve\s*\(", r"\bRenormAbundance\s*\("])
        # understood and wrong: a required call is absent from the function, or all four are there in another order; a call that is there
        # with other arguments than the ones read here is not recognised
        called = [bool(re.search(rf"\b{nm}\s*\(", body)) for nm in ("InitRenorm", "SUNLinSolSetup", "SUNLinSolSolve", "RenormAbundance")]
        _verdict(ctx, all(p >= 0 for p in pos) and pos == sorted(pos), (not all(called) and "__HOLE__" not in body) or all(p >= 0 for p in pos), "R3", "cvode:Renorm:order", (CV_MAIN, 0),
                 "InitRenorm(ab, A) -> SUNLinSolSetup -> SUNLinSolSolve -> RenormAbundance", found=str(pos))
        m = re.search(r"SUNLinSolSolve\s*\(\s*(\w+)\s*,\s*(\w+)\s*,\s*(\w+)\s*,\s*(\w+)\s*,", body)
        decl = dict((mm.group(1), mm.group(2)) for mm in re.finditer(r"(?:N_Vector\s+|[;{}]\s*)(\w+)\s*=\s*(N_V[^;]+);", body))
        ok = False
        found = ""
        if m:
            ls, A, x, b = m.groups()
            found = f"SUNLinSolSolve({ls}, {A}, {x}, {b}, ..); {x} = {decl.get(x)}; {b} = {decl.get(b)}"
            ok = A == Amat and x != b and re.match(r"N_VNew_Serial\s*\(\s*NELEMENTS", decl.get(x, "")) is not None and \
                re.match(r"N_VMake_Serial\s*\(\s*NELEMENTS\s*,\s*ab_ref_\s*,", decl.get(b, "")) is not None
            rp = re.search(r"(\w+)\s*=\s*N_VGetArrayPointer\s*\(\s*(\w+)\s*\)", body)
            ra = re.search(r"RenormAbundance\s*\(\s*(\w+)\s*,\s*(\w+)\s*\)", body)
            ok = ok and bool(rp) and bool(ra) and rp.group(2) == x and ra.group(1) == rp.group(1) and ra.group(2) == "ab"
        # understood and wrong: the solve call and both vector declarations were read and say something else (solution written over the
        # right-hand side, a vector that does not wrap ab_ref_, RenormAbundance fed another pointer); a call that could not be read is not
        sure = bool(m) and (m.group(3) == m.group(4) or (m.group(3) in decl and m.group(4) in decl and bool(re.search(r"RenormAbundance\s*\(\s*\w+\s*,\s*\w+\s*\)", body))))
        _verdict(ctx, ok, sure, "R3", "cvode:Renorm:solve", (CV_MAIN, 0),
                  "A r = b with b wrapping ab_ref_ and r a separate fresh vector (the stored reference is never overwritten); RenormAbundance gets r and ab",
                  expected="SUNLinSolSolve(LS, A, r, b, 0.0) with r = N_VNew_Serial(NELEMENTS, ..), b = N_VMake_Serial(NELEMENTS, ab_ref_, ..)", found=found)
    # odeint
    ctx.saw(OD_MAIN)
    sk = Skel(J.flatten(ctx.tree, OD_MAIN, {}))
    fs = sk.func("Naunet::Renorm")
    if not fs:
        ctx.missing("R3", "odeint:Naunet::Renorm", (OD_MAIN, 0), "Naunet::Renorm not found")
    else:
        body = sk.plain(fs[0].body)
        pos = _order(body, [r"rptr\s*\[\s*i\s*\]\s*=\s*ab_ref_\s*\[\s*i\s*\]", r"\bInitRenorm\s*\(\s*ab\s*,\s*A\s*\)", r"\blu_factorize\s*\(\s*A\s*,", r"\blu_substitute\s*\(\s*A\s*,\s*\w+\s*,\s*rptr\s*\)", r"\bRenormAbundance\s*\(\s*rptr\s*,\s*ab\s*\)"])
        called = [bool(re.search(rf"\b{nm}\s*\(", body)) for nm in ("InitRenorm", "lu_factorize", "lu_substitute", "RenormAbundance")]
        _verdict(ctx, all(p >= 0 for p in pos) and pos == sorted(pos), (not all(called) and "__HOLE__" not in body) or all(p >= 0 for p in pos), "R3", "odeint:Renorm:order", (OD_MAIN, 0),
                 "rptr := copy of ab_ref_ -> InitRenorm(ab, A) -> lu_factorize(A) -> lu_substitute(A, pm, rptr) -> RenormAbundance(rptr, ab)", found=str(pos))
        copy_ok = bool(re.search(r"vector_type\s+rptr\s*\(\s*NELEMENTS\s*\)", body)) and bool(re.search(r"for\s*\(\s*int\s+i\s*=\s*0\s*;\s*i\s*<\s*NELEMENTS\s*;", body))
        # (a copy spelled another way -- std::copy, a constructor from a range -- is not read here)
        _verdict(ctx, copy_ok, "ab_ref_" not in body, "R3", "odeint:Renorm:copy", (OD_MAIN, 0), "the right-hand side is a local copy of all NELEMENTS reference ratios", found=body[:120])
    # no shortcut: a successful return always comes after the abundances were rescaled (an "already conserved" test with an
    # absolute tolerance leaves trace elements off by factors)
    for label, rel, cfg in (("cvode", CV_MAIN, {"general.method": "dense"}), ("odeint", OD_MAIN, {})):
        sk = Skel(J.flatten(ctx.tree, rel, cfg))
        fs = sk.func("Naunet::Renorm")
        if fs:
            body = sk.plain(fs[0].body)
            ra = [m_.start() for m_ in re.finditer(r"\bRenormAbundance\s*\(", body)]
            early = [m_.start() for m_ in re.finditer(r"\breturn\s+NAUNET_SUCCESS\b", body) if ra and m_.start() < ra[0]]
            if not ra and "__HOLE__" in body:
                ctx.unrec("R3", f"{label}:Renorm:no early success", (rel, 0), "no call of RenormAbundance in the text of Naunet::Renorm, which has pieces this rule could not resolve")
                continue
            ctx.check(bool(ra) and not early, "R3", f"{label}:Renorm:no early success", (rel, 0),
                      "success is returned only after RenormAbundance" if ra and not early else
                      "Renorm can return NAUNET_SUCCESS before RenormAbundance was called: the abundances are left as they are although their element totals differ from the reference",
                      expected="a single path: InitRenorm -> solve -> RenormAbundance -> return", found=f"{len(early)} success return(s) before the rescaling")
    # one normalisation basis: the hydrogen nuclei are the element H of the same table, in GetHNuclei as in SetReferenceAbund(opt 0)
    PHYS_ = "naunet/templates/base/cpp/src/naunet_physics.cpp.j2"
    ctx.saw(PHYS_)
    sk = Skel(J.flatten(ctx.tree, PHYS_, {}))
    fs = sk.func("GetHNuclei")
    if not fs:
        ctx.missing("R3", "GetHNuclei", (PHYS_, 0), "GetHNuclei not found")
    else:
        raw = sk.plain(fs[0].body)
        elems = set(re.findall(r"IDX_ELEM_\w+", raw))
        body = re.sub(r"\s+", "", raw)
        ok = "returnGetElementAbund(y,IDX_ELEM_H);" in body and elems == {"IDX_ELEM_H"} and body.count("GetElementAbund(") == 1
        _verdict(ctx, ok, bool(elems - {"IDX_ELEM_H"}) or body.count("GetElementAbund(") > 1 or (not elems and "__HOLE__" not in raw), "R3", "GetHNuclei = element H", (PHYS_, 0),
                  "GetHNuclei(y) is GetElementAbund(y, IDX_ELEM_H): the basis InitRenorm divides by is the one SetReferenceAbund stores ratios against" if ok else
                  f"GetHNuclei is not the abundance of element H alone (elements used: {sorted(elems)}): InitRenorm divides by it while SetReferenceAbund(ref, 0) stores ref[i]/ref[IDX_ELEM_H] -- "
                  "the two bases differ and Renorm is no longer the identity on conserving abundances",
                  expected="return GetElementAbund(y, IDX_ELEM_H);", found=body[:160])
    # SetReferenceAbund (both)
    for label, rel, cfg in (("cvode", CV_MAIN, {"general.method": "dense"}), ("odeint", OD_MAIN, {})):
        sk = Skel(J.flatten(ctx.tree, rel, cfg))
        fs = sk.func("Naunet::SetReferenceAbund")
        if not fs:
            ctx.missing("R3", f"{label}:SetReferenceAbund", (rel, 0), "SetReferenceAbund not found")
            continue
        body = re.sub(r"\s+", "", sk.plain(fs[0].body))
        ok = "ab_ref_[i]=ref[i]/ref[IDX_ELEM_H];" in body and "ab_ref_[i]=GetElementAbund(ref,i)/Hnuclei;" in body and "Hnuclei=GetHNuclei(ref);" in body
        # understood and wrong: a store into ab_ref_[i] of the two expected right-hand sides without its divisor
        stores = re.findall(r"ab_ref_\[i\]=([^;]+);", body)
        sure = any(rhs in ("ref[i]", "GetElementAbund(ref,i)") for rhs in stores)
        _verdict(ctx, ok, sure, "R3", f"{label}:SetReferenceAbund", (rel, 0), "reference ratios are stored relative to hydrogen nuclei (ref[i]/ref[IDX_ELEM_H] or GetElementAbund(ref,i)/GetHNuclei(ref))",
                 found="; ".join(stores)[:160])


MUTANTS = [
    {"name": "hnuclei-counts-deuterons", "file": "naunet/templates/base/cpp/src/naunet_physics.cpp.j2", "old": "    return GetElementAbund(y, IDX_ELEM_H);\n#else", "new": "    double h = GetElementAbund(y, IDX_ELEM_H);\n#ifdef IDX_ELEM_D\n    h += GetElementAbund(y, IDX_ELEM_D);\n#endif\n    return h;\n#else", "rules": ["R3"]},
    {"name": "odeint-renorm-early-return", "file": OD_MAIN, "old": "    vector_type rptr(NELEMENTS);\n    matrix_type A(NELEMENTS, NELEMENTS);", "new": "    if (fabs(GetElementAbund(ab, 0) / GetHNuclei(ab) - ab_ref_[0]) < 1e-8) {\n        return NAUNET_SUCCESS;\n    }\n    vector_type rptr(NELEMENTS);\n    matrix_type A(NELEMENTS, NELEMENTS);", "rules": ["R3"]},
    {"name": "elements-from-reacting-species", "file": "naunet/network.py", "old": "        return [spec for spec in self.species if spec.is_atom]", "new": "        return sorted(s for s in self._reactants | self._products if s.is_atom)", "rules": ["R5"]},
    {"name": "elements-neutral-only", "file": "naunet/network.py", "old": "        return [spec for spec in self.species if spec.is_atom]", "new": "        return [spec for spec in self.species if spec.is_atom and not spec.is_grain]", "rules": ["R5"]},
    {"name": "A-of-row-element", "file": FILE, "old": "f\"{(ci * cj * elements[jele].A)} * ab[IDX_{spec.alias}]", "new": "f\"{(ci * cj * elements[iele].A)} * ab[IDX_{spec.alias}]", "rules": ["R1"]},
    {"name": "matrix-electron-test-removed", "file": FILE, "old": "if not spec.is_electron and ci and cj:", "new": "if ci and cj:", "rules": ["R1"]},
    {"name": "factor-electron-dropped", "file": FILE, "old": 'renorm.append(1.0 if spec.is_electron else " + ".join(factor))', "new": 'renorm.append(" + ".join(factor))', "rules": ["R1"]},
    {"name": "factor-without-mass", "file": FILE, "old": 'f"{c * elem.A} * rptr[IDX_ELEM_{ename}] / {spec.A}"', "new": 'f"{c} * rptr[IDX_ELEM_{ename}]"', "rules": ["R1"]},
    {"name": "decode-swapped-cvode", "file": CV_RENORM, "old": "{% set i, j = (loop.index0/nelem) | int, loop.index0%nelem -%}", "new": "{% set j, i = (loop.index0/nelem) | int, loop.index0%nelem -%}", "rules": ["R2"]},
    {"name": "decode-nspecies-odeint", "file": OD_RENORM, "old": "{% set nelem = elemidxnames | length %}", "new": "{% set nelem = network.species | length %}", "rules": ["R2"]},
    {"name": "renorm-before-solve", "file": CV_MAIN, "old": "    realtype *rptr = N_VGetArrayPointer(r);\n\n    RenormAbundance(rptr, ab);\n", "new": "", "rules": ["R3"]},
    {"name": "solve-in-place-on-reference", "file": CV_MAIN, "old": "flag = SUNLinSolSolve(LS, A, r, b, 0.0);", "new": "flag = SUNLinSolSolve(LS, A, b, b, 0.0);", "rules": ["R3"]},
    {"name": "factor-skips-electron-slot", "file": FILE, "old": "        for spec in species:\n            counts =", "new": "        for spec in [s for s in species if not s.is_electron]:\n            counts =", "rules": ["R1"]},
    {"name": "abundance-wrong-zip", "file": OD_RENORM, "old": "{% for spec, fac in zip(network.species, renorm.factor) -%}", "new": "{% for spec, fac in zip(network.species | rejectattr('is_electron'), renorm.factor) -%}", "rules": ["R2"]},
    # hardening round 4: the accepted helper / loop / floor-division spellings carrying a defect
    {"name": "matrix-helper-row-mass", "edits": [
        {"file": FILE, "old": "    def _prepare_renorm_content(self, netinfo: NetworkInfo) -> RenormContent:\n", "new": "    @staticmethod\n    def _coupling(species, rname, cname, celem):\n        terms = [\"0.0\"]\n        for spec in species:\n            nr = spec.element_count.get(rname, 0)\n            nc = spec.element_count.get(cname, 0)\n            if not spec.is_electron and nr and nc:\n                terms.append(f\"{(nr * nc * celem.A)} * ab[IDX_{spec.alias}] / {spec.A} / Hnuclei\")\n        return \" + \".join(terms)\n\n    def _prepare_renorm_content(self, netinfo: NetworkInfo) -> RenormContent:\n"},
        {"file": FILE, "old": "        matrix = []\n        for iele, einame in enumerate(elemnames):\n            for jele, ejname in enumerate(elemnames):\n                terms = [\"0.0\"]\n                for ispec, spec in enumerate(species):\n                    ci = spec.element_count.get(einame, 0)\n                    cj = spec.element_count.get(ejname, 0)\n                    if not spec.is_electron and ci and cj:\n                        terms.append(\n                            f\"{(ci * cj * elements[jele].A)} * ab[IDX_{spec.alias}] / {spec.A} / Hnuclei\"\n                        )\n                matrix.append(\" + \".join(terms))\n", "new": "        matrix = [\n            self._coupling(species, rname, cname, celem)\n            for rname in elemnames\n            for cname, celem in zip(elemnames, reversed(elements))\n        ]\n"}], "rules": ["R1"]},
    {"name": "factor-loop-without-mass", "file": FILE, "old": "        renorm = []\n        for spec in species:\n            counts = [spec.element_count.get(ename, 0) for ename in elemnames]\n            factor = [\n                f\"{c * elem.A} * rptr[IDX_ELEM_{ename}] / {spec.A}\"\n                for c, ename, elem in zip(counts, elemnames, elements)\n                if c\n            ]\n            renorm.append(1.0 if spec.is_electron else \" + \".join(factor))\n", "new": "        renorm = []\n        for spec in species:\n            parts = []\n            for ename, elem in zip(elemnames, elements):\n                n_at = spec.element_count.get(ename, 0)\n                if not n_at:\n                    continue\n                parts.append(\"{} * rptr[IDX_ELEM_{}] / {}\".format(n_at, ename, spec.A))\n            if spec.is_electron:\n                renorm.append(1.0)\n            else:\n                renorm.append(\" + \".join(parts))\n", "rules": ["R1"]},
    {"name": "factor-loop-skips-electron-slot", "file": FILE, "old": "        renorm = []\n        for spec in species:\n            counts = [spec.element_count.get(ename, 0) for ename in elemnames]\n            factor = [\n                f\"{c * elem.A} * rptr[IDX_ELEM_{ename}] / {spec.A}\"\n                for c, ename, elem in zip(counts, elemnames, elements)\n                if c\n            ]\n            renorm.append(1.0 if spec.is_electron else \" + \".join(factor))\n", "new": "        renorm = []\n        for spec in species:\n            parts = []\n            for ename, elem in zip(elemnames, elements):\n                n_at = spec.element_count.get(ename, 0)\n                if not n_at:\n                    continue\n                parts.append(\"{} * rptr[IDX_ELEM_{}] / {}\".format(n_at * elem.A, ename, spec.A))\n            if not spec.is_electron:\n                renorm.append(\" + \".join(parts))\n", "rules": ["R1"]},
    {"name": "decode-floordiv-swapped", "file": OD_RENORM, "old": "{% set i, j = (loop.index0/nelem) | int, loop.index0%nelem -%}", "new": "{% set j, i = loop.index0 // nelem, loop.index0 % nelem -%}", "rules": ["R2"]},
    {"name": "abundance-concat-wrong-alias", "file": OD_RENORM, "old": "    {% set specidx = spec.alias | prefix(\"IDX_\") -%}\n    ab[{{ specidx }}] = ab[{{ specidx }}] * ({{ fac }});", "new": "    {% set slot = \"ab[\" ~ (spec.name | prefix(\"IDX_\")) ~ \"]\" -%}\n    {{ slot }} = {{ slot }} * ({{ fac }});", "rules": ["R2"]},
    {"name": "ref-not-normalised", "file": OD_MAIN, "old": "ab_ref_[i] = ref[i] / ref[IDX_ELEM_H];", "new": "ab_ref_[i] = ref[i];", "rules": ["R3"]},
    # hardening round 5: loop nests / batch in the templates, product loops and records in the generator, carrying a defect
    {"name": "nest-diagonal-entry", "file": OD_RENORM, "old": "    {% for term in renorm.matrix -%}\n    {% set i, j = (loop.index0/nelem) | int, loop.index0%nelem -%}\n    A({{ elemidxnames[i] }}, {{ elemidxnames[j] }}) = {{ term | stmwrap(80, 32) }};\n    {% endfor %}\n", "new": "    {% for rname in elemidxnames -%}\n    {% set off = loop.index0 * nelem -%}\n    {% for cname in elemidxnames -%}\n    A({{ rname }}, {{ cname }}) = {{ renorm.matrix[loop.index0 * nelem + loop.index0] | stmwrap(80, 32) }};\n    {% endfor %}\n    {%- endfor %}\n", "rules": ["R2"]},
    {"name": "nest-transposed", "file": OD_RENORM, "old": "    {% for term in renorm.matrix -%}\n    {% set i, j = (loop.index0/nelem) | int, loop.index0%nelem -%}\n    A({{ elemidxnames[i] }}, {{ elemidxnames[j] }}) = {{ term | stmwrap(80, 32) }};\n    {% endfor %}\n", "new": "    {% for rname in elemidxnames -%}\n    {% set off = loop.index0 * nelem -%}\n    {% for cname in elemidxnames -%}\n    A({{ cname }}, {{ rname }}) = {{ renorm.matrix[off + loop.index0] | stmwrap(80, 32) }};\n    {% endfor %}\n    {%- endfor %}\n", "rules": ["R2"]},
    {"name": "abundance-factor-off-by-one", "file": OD_RENORM, "old": "    {% for spec, fac in zip(network.species, renorm.factor) -%}\n    {% set specidx = spec.alias | prefix(\"IDX_\") -%}\n    ab[{{ specidx }}] = ab[{{ specidx }}] * ({{ fac }});", "new": "    {% for spec in network.species -%}\n    {% set specidx = spec.alias | prefix(\"IDX_\") -%}\n    ab[{{ specidx }}] = ab[{{ specidx }}] * ({{ renorm.factor[loop.index] }});", "rules": ["R2"]},
    {"name": "product-loop-row-mass", "edits": [
        {"file": FILE, "old": "from importlib.metadata import version\n", "new": "from importlib.metadata import version\nfrom itertools import product\nfrom collections import namedtuple\n"},
        {"file": FILE, "old": "        matrix = []\n        for iele, einame in enumerate(elemnames):\n            for jele, ejname in enumerate(elemnames):\n                terms = [\"0.0\"]\n                for ispec, spec in enumerate(species):\n                    ci = spec.element_count.get(einame, 0)\n                    cj = spec.element_count.get(ejname, 0)\n                    if not spec.is_electron and ci and cj:\n                        terms.append(\n                            f\"{(ci * cj * elements[jele].A)} * ab[IDX_{spec.alias}] / {spec.A} / Hnuclei\"\n                        )\n                matrix.append(\" + \".join(terms))\n", "new": "        pairs = list(zip(elemnames, elements))\n        matrix = []\n        for (einame, eiatom), (ejname, ejatom) in product(pairs, pairs):\n            terms = [\"0.0\"]\n            for spec in species:\n                ci = spec.element_count.get(einame, 0)\n                cj = spec.element_count.get(ejname, 0)\n                if not spec.is_electron and ci and cj:\n                    terms.append(f\"{(ci * cj * eiatom.A)} * ab[IDX_{spec.alias}] / {spec.A} / Hnuclei\")\n            matrix.append(\" + \".join(terms))\n"}], "rules": ["R1"]},
    {"name": "record-row-mass", "edits": [
        {"file": FILE, "old": "from importlib.metadata import version\n", "new": "from importlib.metadata import version\nfrom itertools import product\nfrom collections import namedtuple\n"},
        {"file": FILE, "old": "class TemplateLoader:\n", "new": "_Elem = namedtuple(\"_Elem\", \"label atom\")\n\n\nclass TemplateLoader:\n"},
        {"file": FILE, "old": "        matrix = []\n        for iele, einame in enumerate(elemnames):\n            for jele, ejname in enumerate(elemnames):\n                terms = [\"0.0\"]\n                for ispec, spec in enumerate(species):\n                    ci = spec.element_count.get(einame, 0)\n                    cj = spec.element_count.get(ejname, 0)\n                    if not spec.is_electron and ci and cj:\n                        terms.append(\n                            f\"{(ci * cj * elements[jele].A)} * ab[IDX_{spec.alias}] / {spec.A} / Hnuclei\"\n                        )\n                matrix.append(\" + \".join(terms))\n", "new": "        refs = [_Elem(next(iter(e.element_count)), e) for e in elements]\n        matrix = []\n        for ri in refs:\n            for rj in refs:\n                terms = [\"0.0\"]\n                for spec in species:\n                    ci = spec.element_count.get(ri.label, 0)\n                    cj = spec.element_count.get(rj.label, 0)\n                    if not spec.is_electron and ci and cj:\n                        terms.append(f\"{(ci * cj * ri.atom.A)} * ab[IDX_{spec.alias}] / {spec.A} / Hnuclei\")\n                matrix.append(\" + \".join(terms))\n"}], "rules": ["R1"]},
    {"name": "renorm-content-keywords-swapped", "file": FILE, "old": "        return self.RenormContent(renorm, matrix)", "new": "        return self.RenormContent(matrix=renorm, factor=matrix)", "rules": ["R1"]},
    # hardening round 6 (wave 3): loops by position, product(.., repeat=2), sums reworked by helpers, conditional writes, Species.reset()
    {"name": "position-loops-row-mass", "edits": [
        {"file": FILE, "old": "        matrix = []\n        for iele, einame in enumerate(elemnames):\n            for jele, ejname in enumerate(elemnames):\n                terms = [\"0.0\"]\n", "new": "        matrix = []\n        nel = len(elemnames)\n        for iele in range(nel):\n            for jele in range(nel):\n                einame, ejname = elemnames[iele], elemnames[jele]\n                terms = [\"0.0\"]\n"},
        {"file": FILE, "old": "f\"{(ci * cj * elements[jele].A)} * ab[IDX_{spec.alias}]", "new": "f\"{(ci * cj * elements[iele].A)} * ab[IDX_{spec.alias}]"}], "rules": ["R1"]},
    {"name": "factor-clamped-by-helper", "edits": [
        {"file": FILE, "old": "    def _prepare_renorm_content(self, netinfo: NetworkInfo) -> RenormContent:\n", "new": "    @staticmethod\n    def _bounded(expr):\n        return f\"fmin({expr}, 10.0)\" if expr else expr\n\n    def _prepare_renorm_content(self, netinfo: NetworkInfo) -> RenormContent:\n"},
        {"file": FILE, "old": 'renorm.append(1.0 if spec.is_electron else " + ".join(factor))', "new": 'renorm.append(1.0 if spec.is_electron else self._bounded(" + ".join(factor)))'}], "rules": ["R1"]},
    {"name": "matrix-sum-edited-as-text", "file": FILE, "old": '                matrix.append(" + ".join(terms))', "new": '                matrix.append(" + ".join(terms).replace("0.0 + ", "", 1))', "rules": ["R1"]},
    {"name": "odeint-initrenorm-skips-zero-entries", "file": OD_RENORM, "old": "    A({{ elemidxnames[i] }}, {{ elemidxnames[j] }}) = {{ term | stmwrap(80, 32) }};\n", "new": "    {% if term != \"0.0\" -%}\n    A({{ elemidxnames[i] }}, {{ elemidxnames[j] }}) = {{ term | stmwrap(80, 32) }};\n    {% endif -%}\n", "rules": ["R2"]},
    {"name": "cvode-skips-zero-entries-of-a-kept-matrix", "edits": [
        {"file": CV_RENORM, "old": "    IJth(A, {{ elemidxnames[i] }}, {{ elemidxnames[j] }}) = {{ term | stmwrap(80, 36) }};\n", "new": "    {% if term != \"0.0\" -%}\n    IJth(A, {{ elemidxnames[i] }}, {{ elemidxnames[j] }}) = {{ term | stmwrap(80, 36) }};\n    {% endif -%}\n"},
        {"file": CV_MAIN, "old": "    SUNMatrix A = SUNDenseMatrix(NELEMENTS, NELEMENTS, sunctx);\n\n    N_VConst(0.0, r);", "new": "    static SUNMatrix A = NULL;\n    if (A == NULL) {\n        A = SUNDenseMatrix(NELEMENTS, NELEMENTS, sunctx);\n    }\n\n    N_VConst(0.0, r);"}], "rules": ["R2"]},
    {"name": "network-resets-species-tables", "file": "naunet/network.py", "old": "        if self._known_elements or self._known_pseudo_elements:\n            Species.set_known_elements(self._known_elements)\n            Species.set_known_pseudoelements(self._known_pseudo_elements)\n\n        allowed_species = allowed_species or []",
     "new": "        if self._known_elements or self._known_pseudo_elements:\n            Species.reset()\n            Species.set_known_elements(self._known_elements)\n            Species.set_known_pseudoelements(self._known_pseudo_elements)\n\n        allowed_species = allowed_species or []", "rules": ["R7"]},
    {"name": "loader-clears-replacement", "file": FILE, "old": "        renorm = self._prepare_renorm_content(info)\n", "new": "        Species._replacement = {}\n        renorm = self._prepare_renorm_content(info)\n", "rules": ["R7"]},
    # hardening wave 4: a count table read by position, the same defects inside the new spellings
    {'name': 'count-table-position-loops-row-mass', 'file': FILE, 'old': '        matrix = []\n        for iele, einame in enumerate(elemnames):\n            for jele, ejname in enumerate(elemnames):\n                terms = ["0.0"]\n                for ispec, spec in enumerate(species):\n                    ci = spec.element_count.get(einame, 0)\n                    cj = spec.element_count.get(ejname, 0)\n                    if not spec.is_electron and ci and cj:\n                        terms.append(\n                            f"{(ci * cj * elements[jele].A)} * ab[IDX_{spec.alias}] / {spec.A} / Hnuclei"\n                        )\n                matrix.append(" + ".join(terms))\n', 'new': '        nelem = len(elemnames)\n        speccounts = [[spec.element_count.get(ename, 0) for ename in elemnames] for spec in species]\n        matrix = []\n        for iele in range(nelem):\n            for jele in range(nelem):\n                terms = ["0.0"]\n                for spec, counts in zip(species, speccounts):\n                    ci, cj = counts[iele], counts[jele]\n                    if spec.is_electron or not (ci and cj):\n                        continue\n                    terms.append(\n                        f"{(ci * cj * elements[iele].A)} * ab[IDX_{spec.alias}] / {spec.A} / Hnuclei"\n                    )\n                matrix.append(" + ".join(terms))\n', 'rules': ['R1']},
    {'name': 'terms-start-empty-no-zero', 'edits': [{'file': FILE, 'old': '                terms = ["0.0"]\n', 'new': '                terms = []\n'}], 'rules': ['R1']},
    {'name': 'factor-reversed-conditional-electron-gets-sum', 'file': FILE, 'old': 'renorm.append(1.0 if spec.is_electron else " + ".join(factor))', 'new': 'renorm.append(1.0 if not spec.is_electron else " + ".join(factor))', 'rules': ['R1']},
    {'name': 'abundance-literal-prefix-wrong-species', 'file': OD_RENORM, 'old': '    {% set specidx = spec.alias | prefix("IDX_") -%}\n    ab[{{ specidx }}] = ab[{{ specidx }}] * ({{ fac }});\n', 'new': '    ab[IDX_{{ spec.alias }}] = ab[IDX_{{ network.species[0].alias }}] * ({{ fac }});\n', 'rules': ['R2']},
    {'name': 'terms-comprehension-row-mass', 'file': FILE, 'old': '                terms = ["0.0"]\n                for ispec, spec in enumerate(species):\n                    ci = spec.element_count.get(einame, 0)\n                    cj = spec.element_count.get(ejname, 0)\n                    if not spec.is_electron and ci and cj:\n                        terms.append(\n                            f"{(ci * cj * elements[jele].A)} * ab[IDX_{spec.alias}] / {spec.A} / Hnuclei"\n                        )\n                matrix.append(" + ".join(terms))\n', 'new': '                terms = [\n                    f"{(spec.element_count.get(einame, 0) * spec.element_count.get(ejname, 0) * elements[iele].A)} * ab[IDX_{spec.alias}] / {spec.A} / Hnuclei"\n                    for spec in species\n                    if not spec.is_electron and spec.element_count.get(einame, 0) and spec.element_count.get(ejname, 0)\n                ]\n                matrix.append(" + ".join(["0.0"] + terms))\n', 'rules': ['R1']},
    {'name': 'terms-comprehension-without-zero', 'file': FILE, 'old': '                terms = ["0.0"]\n                for ispec, spec in enumerate(species):\n                    ci = spec.element_count.get(einame, 0)\n                    cj = spec.element_count.get(ejname, 0)\n                    if not spec.is_electron and ci and cj:\n                        terms.append(\n                            f"{(ci * cj * elements[jele].A)} * ab[IDX_{spec.alias}] / {spec.A} / Hnuclei"\n                        )\n                matrix.append(" + ".join(terms))\n', 'new': '                terms = [\n                    f"{(spec.element_count.get(einame, 0) * spec.element_count.get(ejname, 0) * elements[jele].A)} * ab[IDX_{spec.alias}] / {spec.A} / Hnuclei"\n                    for spec in species\n                    if not spec.is_electron and spec.element_count.get(einame, 0) and spec.element_count.get(ejname, 0)\n                ]\n                matrix.append(" + ".join(terms))\n', 'rules': ['R1']},
]
BENIGN = [
    {"name": "coefficient-commuted", "file": FILE, "old": "{(ci * cj * elements[jele].A)}", "new": "{(elements[jele].A * cj * ci)}"},
    # hardening round 4
    {"name": "matrix-entry-helper", "edits": [
        {"file": FILE, "old": "    def _prepare_renorm_content(self, netinfo: NetworkInfo) -> RenormContent:\n", "new": "    @staticmethod\n    def _coupling(species, rname, cname, celem):\n        terms = [\"0.0\"]\n        for spec in species:\n            nr = spec.element_count.get(rname, 0)\n            nc = spec.element_count.get(cname, 0)\n            if not spec.is_electron and nr and nc:\n                terms.append(f\"{(nr * nc * celem.A)} * ab[IDX_{spec.alias}] / {spec.A} / Hnuclei\")\n        return \" + \".join(terms)\n\n    def _prepare_renorm_content(self, netinfo: NetworkInfo) -> RenormContent:\n"},
        {"file": FILE, "old": "        matrix = []\n        for iele, einame in enumerate(elemnames):\n            for jele, ejname in enumerate(elemnames):\n                terms = [\"0.0\"]\n                for ispec, spec in enumerate(species):\n                    ci = spec.element_count.get(einame, 0)\n                    cj = spec.element_count.get(ejname, 0)\n                    if not spec.is_electron and ci and cj:\n                        terms.append(\n                            f\"{(ci * cj * elements[jele].A)} * ab[IDX_{spec.alias}] / {spec.A} / Hnuclei\"\n                        )\n                matrix.append(\" + \".join(terms))\n", "new": "        matrix = [\n            self._coupling(species, rname, cname, celem)\n            for rname in elemnames\n            for cname, celem in zip(elemnames, elements)\n        ]\n"}]},
    {"name": "factor-by-loop-two-appends", "file": FILE, "old": "        renorm = []\n        for spec in species:\n            counts = [spec.element_count.get(ename, 0) for ename in elemnames]\n            factor = [\n                f\"{c * elem.A} * rptr[IDX_ELEM_{ename}] / {spec.A}\"\n                for c, ename, elem in zip(counts, elemnames, elements)\n                if c\n            ]\n            renorm.append(1.0 if spec.is_electron else \" + \".join(factor))\n", "new": "        renorm = []\n        for spec in species:\n            parts = []\n            for ename, elem in zip(elemnames, elements):\n                n_at = spec.element_count.get(ename, 0)\n                if not n_at:\n                    continue\n                parts.append(\"{} * rptr[IDX_ELEM_{}] / {}\".format(n_at * elem.A, ename, spec.A))\n            if spec.is_electron:\n                renorm.append(1.0)\n            else:\n                renorm.append(\" + \".join(parts))\n"},
    {"name": "decode-floordiv-prefix-late", "file": OD_RENORM, "old": "    {% set elemidxnames = network.elements | map(attribute=\"element_count\") | map(\"first\") | map(\"prefix\", \"IDX_ELEM_\") | list %}\n    {% set nelem = elemidxnames | length %}\n\n    {% for term in renorm.matrix -%}\n    {% set i, j = (loop.index0/nelem) | int, loop.index0%nelem -%}\n    A({{ elemidxnames[i] }}, {{ elemidxnames[j] }})",
      "new": "    {% set enames = network.elements | map(attribute=\"element_count\") | map(\"first\") | list %}\n    {% set nelem = enames | length %}\n\n    {% for term in renorm.matrix -%}\n    {% set i, j = loop.index0 // nelem, loop.index0 % nelem -%}\n    A({{ enames[i] | prefix(\"IDX_ELEM_\") }}, {{ enames[j] | prefix(\"IDX_ELEM_\") }})"},
    {"name": "abundance-concat", "file": OD_RENORM, "old": "    {% set specidx = spec.alias | prefix(\"IDX_\") -%}\n    ab[{{ specidx }}] = ab[{{ specidx }}] * ({{ fac }});", "new": "    {% set slot = \"ab[\" ~ (spec.alias | prefix(\"IDX_\")) ~ \"]\" -%}\n    {{ slot }} = {{ slot }} * ({{ fac }});"},
    {"name": "guard-commuted", "file": FILE, "old": "if not spec.is_electron and ci and cj:", "new": "if ci and cj and not spec.is_electron:"},
    # hardening round 5
    {"name": "matrix-loop-nest", "file": OD_RENORM, "old": "    {% for term in renorm.matrix -%}\n    {% set i, j = (loop.index0/nelem) | int, loop.index0%nelem -%}\n    A({{ elemidxnames[i] }}, {{ elemidxnames[j] }}) = {{ term | stmwrap(80, 32) }};\n    {% endfor %}\n", "new": "    {% for rname in elemidxnames -%}\n    {% set off = loop.index0 * nelem -%}\n    {% for cname in elemidxnames -%}\n    A({{ rname }}, {{ cname }}) = {{ renorm.matrix[off + loop.index0] | stmwrap(80, 32) }};\n    {% endfor %}\n    {%- endfor %}\n"},
    {"name": "matrix-batch-rows", "file": OD_RENORM, "old": "    {% for term in renorm.matrix -%}\n    {% set i, j = (loop.index0/nelem) | int, loop.index0%nelem -%}\n    A({{ elemidxnames[i] }}, {{ elemidxnames[j] }}) = {{ term | stmwrap(80, 32) }};\n    {% endfor %}\n", "new": "    {% for mrow in renorm.matrix | batch(nelem) -%}\n    {% set rname = elemidxnames[loop.index - 1] -%}\n    {% for term in mrow -%}\n    A({{ rname }}, {{ elemidxnames[loop.index0] }}) = {{ term | stmwrap(80, 32) }};\n    {% endfor %}\n    {%- endfor %}\n"},
    {"name": "abundance-factor-by-index", "file": OD_RENORM, "old": "    {% for spec, fac in zip(network.species, renorm.factor) -%}\n    {% set specidx = spec.alias | prefix(\"IDX_\") -%}\n    ab[{{ specidx }}] = ab[{{ specidx }}] * ({{ fac }});", "new": "    {% for spec in network.species -%}\n    {% set specidx = spec.alias | prefix(\"IDX_\") -%}\n    ab[{{ specidx }}] = ab[{{ specidx }}] * ({{ renorm.factor[loop.index0] }});"},
    {"name": "matrix-product-loop", "edits": [
        {"file": FILE, "old": "from importlib.metadata import version\n", "new": "from importlib.metadata import version\nfrom itertools import product\nfrom collections import namedtuple\n"},
        {"file": FILE, "old": "        matrix = []\n        for iele, einame in enumerate(elemnames):\n            for jele, ejname in enumerate(elemnames):\n                terms = [\"0.0\"]\n                for ispec, spec in enumerate(species):\n                    ci = spec.element_count.get(einame, 0)\n                    cj = spec.element_count.get(ejname, 0)\n                    if not spec.is_electron and ci and cj:\n                        terms.append(\n                            f\"{(ci * cj * elements[jele].A)} * ab[IDX_{spec.alias}] / {spec.A} / Hnuclei\"\n                        )\n                matrix.append(\" + \".join(terms))\n", "new": "        pairs = list(zip(elemnames, elements))\n        matrix = []\n        for (einame, eiatom), (ejname, ejatom) in product(pairs, pairs):\n            terms = [\"0.0\"]\n            for spec in species:\n                ci = spec.element_count.get(einame, 0)\n                cj = spec.element_count.get(ejname, 0)\n                if not spec.is_electron and ci and cj:\n                    terms.append(f\"{(ci * cj * ejatom.A)} * ab[IDX_{spec.alias}] / {spec.A} / Hnuclei\")\n            matrix.append(\" + \".join(terms))\n"}]},
    {"name": "matrix-element-records", "edits": [
        {"file": FILE, "old": "from importlib.metadata import version\n", "new": "from importlib.metadata import version\nfrom itertools import product\nfrom collections import namedtuple\n"},
        {"file": FILE, "old": "class TemplateLoader:\n", "new": "_Elem = namedtuple(\"_Elem\", \"label atom\")\n\n\nclass TemplateLoader:\n"},
        {"file": FILE, "old": "        matrix = []\n        for iele, einame in enumerate(elemnames):\n            for jele, ejname in enumerate(elemnames):\n                terms = [\"0.0\"]\n                for ispec, spec in enumerate(species):\n                    ci = spec.element_count.get(einame, 0)\n                    cj = spec.element_count.get(ejname, 0)\n                    if not spec.is_electron and ci and cj:\n                        terms.append(\n                            f\"{(ci * cj * elements[jele].A)} * ab[IDX_{spec.alias}] / {spec.A} / Hnuclei\"\n                        )\n                matrix.append(\" + \".join(terms))\n", "new": "        refs = [_Elem(next(iter(e.element_count)), e) for e in elements]\n        matrix = []\n        for ri in refs:\n            for rj in refs:\n                terms = [\"0.0\"]\n                for spec in species:\n                    ci = spec.element_count.get(ri.label, 0)\n                    cj = spec.element_count.get(rj.label, 0)\n                    if not spec.is_electron and ci and cj:\n                        terms.append(f\"{(ci * cj * rj.atom.A)} * ab[IDX_{spec.alias}] / {spec.A} / Hnuclei\")\n                matrix.append(\" + \".join(terms))\n"}]},
    {"name": "renorm-content-by-keyword", "file": FILE, "old": "        return self.RenormContent(renorm, matrix)", "new": "        return self.RenormContent(matrix=matrix, factor=renorm)"},
    {"name": "networkinfo-through-locals", "file": FILE, "old": "        info = NetworkInfo(\n            network.elements,\n            network.species,\n", "new": "        atoms = network.elements\n        members = network.species\n        info = NetworkInfo(\n            atoms,\n            members,\n"},
    {"name": "index-name-through-macro", "file": OD_RENORM, "old": "    A({{ elemidxnames[i] }}, {{ elemidxnames[j] }}) =", "new": "    {% macro ename(k) %}{{ elemidxnames[k] }}{% endmacro -%}\n    A({{ ename(i) }}, {{ ename(j) }}) ="},
    # hardening round 6 (wave 3)
    {"name": "matrix-by-position-range", "file": FILE, "old": "        matrix = []\n        for iele, einame in enumerate(elemnames):\n            for jele, ejname in enumerate(elemnames):\n                terms = [\"0.0\"]\n", "new": "        matrix = []\n        nel = len(elemnames)\n        for iele in range(nel):\n            for jele in range(nel):\n                einame, ejname = elemnames[iele], elemnames[jele]\n                terms = [\"0.0\"]\n"},
    {"name": "matrix-product-repeat", "edits": [
        {"file": FILE, "old": "from importlib.metadata import version\n", "new": "from importlib.metadata import version\nimport itertools\n"},
        {"file": FILE, "old": "        matrix = []\n        for iele, einame in enumerate(elemnames):\n            for jele, ejname in enumerate(elemnames):\n                terms = [\"0.0\"]\n                for ispec, spec in enumerate(species):\n                    ci = spec.element_count.get(einame, 0)\n                    cj = spec.element_count.get(ejname, 0)\n                    if not spec.is_electron and ci and cj:\n                        terms.append(\n                            f\"{(ci * cj * elements[jele].A)} * ab[IDX_{spec.alias}] / {spec.A} / Hnuclei\"\n                        )\n                matrix.append(\" + \".join(terms))\n", "new": "        pairs = list(zip(elemnames, elements))\n        matrix = []\n        for (einame, eiatom), (ejname, ejatom) in itertools.product(pairs, repeat=2):\n            terms = [\"0.0\"]\n            for spec in species:\n                ci = spec.element_count.get(einame, 0)\n                cj = spec.element_count.get(ejname, 0)\n                if not spec.is_electron and ci and cj:\n                    terms.append(f\"{(ci * cj * ejatom.A)} * ab[IDX_{spec.alias}] / {spec.A} / Hnuclei\")\n            matrix.append(\" + \".join(terms))\n"}]},
    {"name": "cvode-skips-zero-entries-of-a-fresh-matrix", "file": CV_RENORM, "old": "    IJth(A, {{ elemidxnames[i] }}, {{ elemidxnames[j] }}) = {{ term | stmwrap(80, 36) }};\n", "new": "    {% if term != \"0.0\" -%}\n    IJth(A, {{ elemidxnames[i] }}, {{ elemidxnames[j] }}) = {{ term | stmwrap(80, 36) }};\n    {% endif -%}\n"},
    {"name": "element-records-by-list-fields", "edits": [
        {"file": FILE, "old": "from importlib.metadata import version\n", "new": "from importlib.metadata import version\nfrom collections import namedtuple\n"},
        {"file": FILE, "old": "class TemplateLoader:\n", "new": "_ERef = namedtuple(\"_ERef\", [\"name\", \"atom\"])\n\n\nclass TemplateLoader:\n"},
        {"file": FILE, "old": "            counts = [spec.element_count.get(ename, 0) for ename in elemnames]\n            factor = [\n                f\"{c * elem.A} * rptr[IDX_ELEM_{ename}] / {spec.A}\"\n                for c, ename, elem in zip(counts, elemnames, elements)\n                if c\n            ]\n", "new": "            refs = [_ERef(nm, at) for nm, at in zip(elemnames, elements)]\n            factor = []\n            for ref in refs:\n                c = spec.element_count.get(ref.name, 0)\n                if c:\n                    factor.append(f\"{c * ref.atom.A} * rptr[IDX_ELEM_{ref.name}] / {spec.A}\")\n"}]},
    # hardening wave 4: everyday spellings of the same loops, guards and conditionals
    {'name': 'count-table-position-loops', 'file': FILE, 'old': '        matrix = []\n        for iele, einame in enumerate(elemnames):\n            for jele, ejname in enumerate(elemnames):\n                terms = ["0.0"]\n                for ispec, spec in enumerate(species):\n                    ci = spec.element_count.get(einame, 0)\n                    cj = spec.element_count.get(ejname, 0)\n                    if not spec.is_electron and ci and cj:\n                        terms.append(\n                            f"{(ci * cj * elements[jele].A)} * ab[IDX_{spec.alias}] / {spec.A} / Hnuclei"\n                        )\n                matrix.append(" + ".join(terms))\n', 'new': '        nelem = len(elemnames)\n        speccounts = [[spec.element_count.get(ename, 0) for ename in elemnames] for spec in species]\n        matrix = []\n        for iele in range(nelem):\n            for jele in range(nelem):\n                terms = ["0.0"]\n                for spec, counts in zip(species, speccounts):\n                    ci, cj = counts[iele], counts[jele]\n                    if spec.is_electron or not (ci and cj):\n                        continue\n                    terms.append(\n                        f"{(ci * cj * elements[jele].A)} * ab[IDX_{spec.alias}] / {spec.A} / Hnuclei"\n                    )\n                matrix.append(" + ".join(terms))\n'},
    {'name': 'guard-positive-counts', 'file': FILE, 'old': 'if not spec.is_electron and ci and cj:', 'new': 'if not spec.is_electron and ci > 0 and cj > 0:'},
    {'name': 'guard-product-of-counts', 'file': FILE, 'old': 'if not spec.is_electron and ci and cj:', 'new': 'if not spec.is_electron and ci * cj:'},
    {'name': 'zero-put-in-front-at-the-join', 'edits': [{'file': FILE, 'old': '                terms = ["0.0"]\n', 'new': '                terms = []\n'}, {'file': FILE, 'old': '                matrix.append(" + ".join(terms))\n', 'new': '                matrix.append(" + ".join(["0.0", *terms]))\n'}]},
    {'name': 'factor-conditional-reversed', 'file': FILE, 'old': 'renorm.append(1.0 if spec.is_electron else " + ".join(factor))', 'new': 'renorm.append(" + ".join(factor) if not spec.is_electron else 1.0)'},
    {'name': 'factor-filter-positive-count', 'file': FILE, 'old': '                if c\n', 'new': '                if c > 0\n'},
    {'name': 'abundance-literal-prefix', 'file': OD_RENORM, 'old': '    {% set specidx = spec.alias | prefix("IDX_") -%}\n    ab[{{ specidx }}] = ab[{{ specidx }}] * ({{ fac }});\n', 'new': '    ab[IDX_{{ spec.alias }}] = ab[IDX_{{ spec.alias }}] * ({{ fac }});\n'},
    {'name': 'terms-comprehension', 'file': FILE, 'old': '                terms = ["0.0"]\n                for ispec, spec in enumerate(species):\n                    ci = spec.element_count.get(einame, 0)\n                    cj = spec.element_count.get(ejname, 0)\n                    if not spec.is_electron and ci and cj:\n                        terms.append(\n                            f"{(ci * cj * elements[jele].A)} * ab[IDX_{spec.alias}] / {spec.A} / Hnuclei"\n                        )\n                matrix.append(" + ".join(terms))\n', 'new': '                terms = [\n                    f"{(spec.element_count.get(einame, 0) * spec.element_count.get(ejname, 0) * elements[jele].A)} * ab[IDX_{spec.alias}] / {spec.A} / Hnuclei"\n                    for spec in species\n                    if not spec.is_electron and spec.element_count.get(einame, 0) and spec.element_count.get(ejname, 0)\n                ]\n                matrix.append(" + ".join(["0.0"] + terms))\n'},
    {'name': 'matrix-columns-enumerate-zip', 'file': FILE, 'old': '            for jele, ejname in enumerate(elemnames):\n', 'new': '            for jele, (ejname, ejelem) in enumerate(zip(elemnames, elements)):\n'},
]
