"""C11 -- grain-surface rate laws: dispatch, the reacting species' own data, lookup order, scaling signatures."""
from __future__ import annotations

import ast
import re
from fractions import Fraction

from .. import calg
from ..pymodel import package
from ..ratemodel import model as ratemodel, SELF
from ..valueflow import Flow, norm_guard, show, simp, split_guard, walk
from ..core import UNRECOGNISED
from .c10 import grain_methods, GRAIN_CLASSES

EXPLANATION = (
    "R1 for every grain class and every type Grain.rateexpr dispatches on, the resolved rate_* method yields a template or NotImplemented, "
    "NotImplemented reaches `raise NotImplementedError` (rateexpr is not overridden, the test is on the dispatched value), and every override "
    "starts with super().rate_*(reac), which carries the type/arity validation; R2 every species-specific quantity in a template (mass number, "
    "eb_<alias>, binding energy, photodesorption yield) belongs to reac.reactants[0] (the unique non-grain reactant for recombination, both "
    "reactants for surface reactions) -- never a product; R3 Species.binding_energy / photon_yield look up explicit value -> user table -> "
    "built-in table, raise when nothing is found (binding energy), and never cache the looked-up value in the instance; R5 scaling signature "
    "(DESIGN Appendix E): in the canonical product of each law, descending into the taken arm of `c ? x : 0.0`, the physically fixed "
    "dependences are present with the right exponent and sign, whatever model-specific prefactors surround them, and every model switch "
    "multiplies its own process only; R6 the C constant eb_<alias> those templates read is defined for every surface species from that "
    "species' own binding energy, printed unformatted; R7 the built-in table reader keys a record by its whole first token (neutral and anion rows "
    "stay apart) and stores float(second token); R8 a Species instance handed to a reaction is kept (not re-parsed / copied); R9 the renderer "
    "pastes what <reaction>.rateexpr(grain) returns and no caller catches the refusal; R12 (HH93) tunnelling terms are switched on by name for GH / "
    "GH2 only; R13 Species.massnumber (alias A) is computed from the species' own element counts, never looked up by a spelling of the species.")
ASSUMPTIONS = [
    "numerical prefactors and model-specific coverage factors of Hasegawa & Herbst 1993 / Roberts et al. 2007 are NOT decided (needs an independent transcription of the models)",
    "registry closure of the symbols used is C10",
]
ENGINES = ["pymodel", "valueflow", "calg", "ratemodel", "jmodel"]

SPECIES = "naunet/species.py"
REAC = ("param", "reac")


TEMPS = {"rate_depletion": {"R_temperature"}, "rate_recombination": {"R_temperature"}, "rate_electron_capture": {"R_temperature"},
         "rate_thermal_desorption": {"R_dust_temperature"}, "_rate_surface": {"R_dust_temperature"}, "rate_surface_twobody": {"R_dust_temperature"},
         "rate_reactive_desorption": {"R_dust_temperature"}, "rate_cosmicray_desorption": set(), "rate_photon_desorption": set(), "rate_h2_desorption": set()}
GRAIN_REACTANT = {"rate_recombination", "rate_electron_capture"}     # reactions with the grain itself among the reactants


_SURF = ["_rate_surface"]          # actual name of the shared surface-rate helper on the analysed tree (set in check())


def name_hole(ir):
    """Descriptive C identifier for a hole of a grain template; None if unrecognised. Also returns the species role used."""
    x = ir[1] if ir[0] == "fmt" and ir[2] is None else ir
    m = x
    if m[0] == "attr" and m[2] == "symbol" and m[1][0] == "attr" and m[1][1][0] == "attr" and m[1][1][2] == "symbols":
        owner = m[1][1][1]
        return ("S_" if owner == SELF else "R_") + m[1][2], None
    if m == ("attr", REAC, "alpha"):
        return "alpha", None
    if m[0] == "attr" and m[2] in ("A", "massnumber", "alias", "binding_energy", "eb", "name"):
        role = species_role(m[1])
        if role:
            pre = {"A": "A_", "massnumber": "A_", "alias": "alias_", "binding_energy": "Eb_", "eb": "Eb_", "name": "name_"}[m[2]]
            return pre + role, role
    if m[0] == "bool" and m[1] == "Or" and len(m[2]) == 2 and m[2][0][0] == "attr" and m[2][0][2] == "photon_yield" and m[2][1][0] == "const":
        role = species_role(m[2][0][1])
        if role:
            return "yield_" + role, role
    if m[0] == "meth" and m[1] == SELF and m[2] == _SURF[0]:
        return "SURFACE_RATE", None
    if m[0] == "const" and isinstance(m[1], (int, float)):
        return repr(m[1]), None
    return None, None


_TWO = [False]           # is the law being read the two-reactant surface law?  (set per method in _r2_r5)


def species_role(s):
    """the reactant at position 0 -> 's' (one-reactant laws) / 's1' (surface law), position 1 -> 's2', however it is picked
    (reac.reactants[i], `a, b = reac.reactants`, `(a,) = reac.reactants`); the non-grain reactant -> 'ng'; products -> 'PRODUCT'."""
    pos = None
    if s[0] == "item" and s[1] == ("attr", REAC, "reactants") and s[2] in (0, 1):
        pos = s[2]
    elif s[0] == "sub" and s[1] == ("attr", REAC, "reactants") and s[2][0] == "const" and s[2][1] in (0, 1):
        pos = s[2][1]
    if pos is not None:
        return f"s{pos + 1}" if _TWO[0] or pos else "s"
    if s[0] == "item" and s[1][0] == "comp" and s[2] == 0:
        # [spec] = [s for s in reac.reactants if not s.is_grain]
        c = s[1]
        tg, it, ifs = c[3][0]
        if it == ("attr", REAC, "reactants") and c[2] == tg and len(ifs) == 1 and ifs[0] == ("unop", "Not", ("attr", tg, "is_grain")):
            return "ng"
    if any(x == ("attr", REAC, "products") for x in walk(s)):
        return "PRODUCT"
    return None


def strip_conds(e, guards):
    """Replace `c ? x : 0.0` by x, collecting the guards."""
    if e[0] == "cond":
        if e[3][0] == "num" and e[3][1] == 0.0:
            guards.append(calg.unparse(e[1]))
            if e[1][0] == "bin" and e[1][1] in ("<=", "<"):
                # `b <= a` is `a >= b`, `b < a` is `a > b`: the guard is also listed the other way round
                guards.append(calg.unparse(("bin", ">=" if e[1][1] == "<=" else ">", e[1][3], e[1][2])))
            return strip_conds(e[2], guards)
        return ("cond", e[1], strip_conds(e[2], guards), strip_conds(e[3], guards))
    if e[0] == "bin":
        return ("bin", e[1], strip_conds(e[2], guards), strip_conds(e[3], guards))
    if e[0] in ("neg", "not"):
        return (e[0], strip_conds(e[1], guards))
    if e[0] == "call":
        return ("call", e[1], [strip_conds(a, guards) for a in e[2]])
    if e[0] == "index":
        return ("index", strip_conds(e[1], guards), strip_conds(e[2], guards))
    return e


def exp_of(mono, sym):
    for a, x in mono:
        if a == ("id", sym):
            return x
    return Fraction(0)


def has_exp_factor(mono, argtext):
    want = calg.canon_str(argtext).key()
    for a, x in mono:
        if a[0] == "fn" and a[1] == "exp" and x == 1 and a[2] == (want,):
            return True
    return False


# Appendix E: (class defining the method, method) -> requirements on the canonical form
#   ("all", sym, exponent)        every monomial carries sym^exponent
#   ("some", {sym: exponent})     some monomial carries these
#   ("exp", "argument")           every monomial carries exp(argument)
#   ("guard", regex)              one of the `c ? x : 0.0` guards matches
#   ("absent", sym)               sym does not occur (a switch of another process)
SWITCHES = {"S_freeze_option", "S_thermal_desorption_option", "S_cosmic_ray_desorption_option", "S_photon_desorption_option",
            "S_reactive_desorption_option", "S_H2_desorption_option"}
SWITCH_LITERALS = {"opt_frz", "opt_thd", "opt_crd", "opt_uvd", "opt_rcd", "opt_h2d", "fr"}
ACCRETION = [("all", "alpha", 1), ("all", "R_temperature", Fraction(1, 2)), ("all", "A_s", Fraction(-1, 2))]
SIG = {
    ("Grain", "rate_depletion"): ACCRETION + [("all", "S_grain_radius", 2), ("all", "S_grain_density", 1)],
    ("HH93Grain", "rate_depletion"): ACCRETION + [("all", "S_grain_radius", 2), ("all", "S_grain_density", 1), ("all", "S_freeze_option", 1)],
    ("HH93Grain", "rate_recombination"): [("all", "alpha", 1), ("all", "S_grain_density", 1), ("some", {"R_temperature": Fraction(1, 2), "A_ng": Fraction(-1, 2), "S_grain_radius": 2})],
    ("HH93Grain", "rate_thermal_desorption"): [("exp", "-eb_alias_s/R_dust_temperature"), ("all", "eb_alias_s", Fraction(1, 2)), ("all", "A_s", Fraction(-1, 2)),
                                               ("all", "S_thermal_desorption_option", 1)],
    ("RR07XGrain", "rate_thermal_desorption"): [("exp", "-eb_alias_s/R_dust_temperature"), ("all", "eb_alias_s", Fraction(1, 2)), ("all", "A_s", Fraction(-1, 2)),
                                                ("all", "S_thermal_desorption_option", 1), ("guard", r"S_mantle_number_density_per_H\s*>")],
    ("HH93Grain", "rate_cosmicray_desorption"): [("exp", "-eb_alias_s/S_max_cosmic_ray_desorption_temperature"), ("all", "eb_alias_s", Fraction(1, 2)), ("all", "A_s", Fraction(-1, 2)),
                                                 ("all", "R_cosmic_ray_ionization_rate", 1), ("all", "R_ism_cosmic_ray_ionization_rate", -1),
                                                 ("all", "S_cosmic_ray_desorption_duty_cycle", 1), ("all", "S_cosmic_ray_desorption_option", 1)],
    ("RR07Grain", "rate_cosmicray_desorption"): [("all", "R_cosmic_ray_ionization_rate", 1), ("all", "R_ism_cosmic_ray_ionization_rate", -1), ("all", "S_cosmic_ray_desorption_option", 1),
                                                 ("guard", r"S_max_cosmic_ray_desorption_binding_energy\s*>=\s*Eb_s")],
    ("HH93Grain", "rate_photon_desorption"): [("all", "yield_s", 1), ("all", "S_photon_desorption_option", 1),
                                              ("some", {"R_cosmic_ray_ionization_rate": 1, "R_ism_cosmic_ray_ionization_rate": -1}), ("some", {"R_radiation_field": 1})],
    ("RR07Grain", "rate_photon_desorption"): [("all", "yield_s", 1), ("all", "S_photon_desorption_option", 1),
                                              ("some", {"R_cosmic_ray_ionization_rate": 1, "R_ism_cosmic_ray_ionization_rate": -1}), ("some", {"R_radiation_field": 1}),
                                              ("guard", r"S_max_photon_desorption_binding_energy\s*>=\s*Eb_s")],
    ("RR07Grain", "rate_h2_desorption"): [("all", "R_H2_formation_rate", 1), ("all", "S_H2_desorption_option", 1), ("guard", r"S_max_H2_desorption_binding_energy\s*>=\s*Eb_s")],
    ("RR07Grain", "rate_depletion"): [("all", "alpha", 1), ("all", "S_grain_cross_section", 1), ("all", "S_freeze_option", 1)],
    ("HH93Grain", "rate_electron_capture"): [("all", "S_grain_radius", 2), ("all", "R_temperature", Fraction(1, 2))],
    ("HH93Grain", "rate_reactive_desorption"): [("all", "S_reactive_desorption_option", 1), ("all", "S_reactive_desorption_branching_ratio", 1), ("all", "SURFACE_RATE", 1)],
    ("HH93Grain", "rate_surface_twobody"): [("all", "SURFACE_RATE", 1)],
    ("HH93Grain", "_rate_surface"): [("all", "S_coverage", 2), ("all", "S_grain_density", -1)],
}
DEFAULT_YIELD = {("HH93Grain", "rate_photon_desorption"): 1e-3, ("RR07Grain", "rate_photon_desorption"): 0.1}


def check(ctx):
    rm = ratemodel(ctx.tree)
    pkg = package(ctx.tree)
    from ..ratemodel import surface_helper
    _SURF[0] = surface_helper(pkg)
    _r1(ctx, rm, pkg)
    _r2_r5(ctx, rm, pkg)
    _r3(ctx, pkg)
    _r6(ctx)
    _r7(ctx, pkg)
    _r8(ctx, pkg)
    # "... or is refused with an error": what the grain model refuses is refused by the renderer too -- the emitted expression is
    # reac.rateexpr(grain) itself, nothing catches NotImplementedError and substitutes a rate (shared with C06.R1)
    from .c06 import _r1 as assignment_rule
    # (how statement i is paired with reaction i is C06's subject: when that pairing is spelled in a way C06.R1 does not read, this
    # property keeps its own half -- the rate comes out of <reaction>.rateexpr(..) and a refusal is not caught -- and says so in a note)
    pairing = []
    # (the same for the TEXT of the statement -- window guard, index, array symbol: when C06.R1 cannot reconstruct it, that is C06's open
    # item; a statement it reads and finds wrong is still reported here)
    ctx.absorb(assignment_rule, "R9", only=lambda o: not (o.outcome == UNRECOGNISED and o.key.startswith("_assign_rates:") and (pairing.append(o.msg) or True)))
    if pairing:
        ctx.note("C06.R1 does not read how _assign_rates pairs statements with reactions: " + pairing[0][:120])
        _r9_rate_from_rateexpr(ctx, pkg)
    _r9_refusal_not_caught(ctx, pkg)
    # occurrences count: no set / dict keyed by the species stands between a reactant list and the terms built from it
    from ..multiplicity import rule as multiplicity_rule
    multiplicity_rule(ctx, "R10", ['grain'], "the surface rate coefficient")
    # the grain components the rates are taken from follow the selected dust model: Network.grains is live, or reset by every public
    # way of changing what it is built from, the grain_model setter included (shared with C14.R6)
    from .c14 import _r6 as live_views
    ctx.absorb(lambda sub: live_views(sub, package(sub.tree)), "R11", only=lambda o: "Network.grains:" in o.key and o.outcome != "MISSING")
    _r12_tunnelling(ctx, pkg)
    _r13_own_mass(ctx, pkg)


def _r13_own_mass(ctx, pkg):
    """`{spec.A}` / `{spec.massnumber}` in the rate templates is the species' OWN mass number: Species.massnumber (A is its alias)
    derives every value it stores / returns from the species' element counts and the rows of the periodic / isotope tables.  A value
    looked up in a table by a SPELLING of the species (name, gasname, basename, alias) is some table author's number for a name --
    wrong wherever that table and the formula disagree (duplicate rows, typos), and shared by species the spelling merges."""
    ci = pkg.cls("Species")
    NAMELIKE = {"name", "gasname", "basename", "alias"}
    getters = {"massnumber"}
    a = ci.attrs.get("A")
    if "A" in ci.methods:
        getters.add("A")
    elif not (isinstance(a, ast.Name) and a.id == "massnumber"):
        ctx.unrec("R13", "Species.A", (SPECIES, 0), "`A` is no longer the alias of the massnumber property: what the templates paste as mass number is not known")
    # the cache the getter returns when it is set: no other method fills it by a spelling of the species either
    for mname, m in ci.methods.items():
        if mname in getters:
            continue
        for st in ast.walk(m):
            if isinstance(st, (ast.Assign, ast.AugAssign)) and any(isinstance(t, ast.Attribute) and t.attr == "_massnumber" for t in (st.targets if isinstance(st, ast.Assign) else [st.target])):
                keys = [x for x in ast.walk(st.value) if isinstance(x, ast.Attribute) and isinstance(x.value, ast.Name) and x.value.id == "self" and x.attr in NAMELIKE]
                looked = [c for c in ast.walk(st.value) if (isinstance(c, ast.Call) and isinstance(c.func, ast.Attribute) and c.func.attr == "get" and c.args and c.args[0] in keys)
                          or (isinstance(c, ast.Subscript) and c.slice in keys)]
                if looked:
                    ctx.bad("R13", f"Species.{mname}:mass number cache", (SPECIES, st.lineno), f"`{ast.unparse(st)[:90]}` fills the mass number from a table keyed by a spelling of the species",
                            expected="the mass number computed from the element counts", found=ast.unparse(looked[0])[:80])
    for gname in sorted(getters):
        fn = ci.methods.get(gname)
        if fn is None:
            ctx.missing("R13", f"Species.{gname}", (SPECIES, 0), "property vanished")
            continue
        ctx.saw(SPECIES, f"Species.{gname}")

        def helper(name):
            return pkg.resolve("Species", name)[1] if name.startswith("_") and not name.startswith("__") else None
        fl = Flow(fn, SPECIES, resolver=helper)
        vals = [(f, simp(f.value)) for f in fl.facts if f.value is not None and (f.kind == "return" or (f.kind == "attrstore" and f.extra.get("obj") == SELF))]
        vals += [(None, simp(v)) for nm, lst in fl.assigns.items() for v, *_ in lst] + [(None, simp(f.value)) for f in fl.facts if f.kind == "augassign" and f.value is not None]
        by_spelling, composed, opaque = [], False, []
        for f, v in vals:
            for x in walk(v):
                if not isinstance(x, tuple) or not x:
                    continue
                key = x[3][0] if x[0] == "meth" and len(x) == 5 and x[2] == "get" and x[3] else x[2] if x[0] == "sub" and len(x) == 3 else None
                if key is not None and key[0] == "attr" and key[1] == SELF and key[2] in NAMELIKE:
                    by_spelling.append((f.line if f is not None else fn.lineno, show(x)[:80]))
                if x == ("attr", SELF, "element_count"):
                    composed = True
            if f is not None and f.kind == "return" and not (v == ("attr", SELF, "_massnumber") or v[0] in ("const", "carried", "acc") or any(y == ("attr", SELF, "element_count") for y in walk(v))):
                opaque.append(show(v)[:80])
        # private helpers the getter calls (a generator of the per-element contributions, a summing helper) are part of it
        from .c09 import method_closure
        helpers = [h for h in method_closure(pkg, "Species", fn)[1:] if not any(ast.unparse(d) in ("property", "cached_property", "functools.cached_property") for d in h.decorator_list)]
        # ... and so are the plain functions of the module that are handed the species itself (`_add_up(self)`), their parameter standing for it
        import copy
        from ..normalize import _Subst
        for g_ in list(helpers) + [fn]:
            for c_ in ast.walk(g_):
                if isinstance(c_, ast.Call) and isinstance(c_.func, ast.Name) and (SPECIES, c_.func.id) in pkg.functions and not c_.keywords:
                    mf = pkg.functions[(SPECIES, c_.func.id)]
                    at = [i for i, a_ in enumerate(c_.args) if isinstance(a_, ast.Name) and a_.id == "self"]
                    if len(at) == 1 and at[0] < len(mf.args.args) and not any(h_.name == mf.name for h_ in helpers):
                        pn = mf.args.args[at[0]].arg
                        if pn != "self" and any(isinstance(n_, ast.Name) and n_.id == "self" for n_ in ast.walk(mf)):
                            continue
                        m2 = copy.deepcopy(mf)
                        if pn != "self":
                            m2.body = [_Subst({pn: ast.Name(id="self", ctx=ast.Load())}).visit(st_) for st_ in m2.body]
                        helpers.append(m2)
        for h in helpers:
            if any(isinstance(x, ast.Attribute) and x.attr == "element_count" and isinstance(x.value, ast.Name) and x.value.id == "self" for x in ast.walk(h)):
                composed = True
            # (a spelling pasted into a log / warning / error message computes nothing)
            said = {id(y) for m_ in ast.walk(h) if isinstance(m_, ast.Raise) or (isinstance(m_, ast.Call) and (
                (isinstance(m_.func, ast.Attribute) and isinstance(m_.func.value, ast.Name) and m_.func.value.id in ("logging", "logger", "warnings", "log"))
                or (isinstance(m_.func, ast.Name) and m_.func.id == "print"))) for y in ast.walk(m_)}
            if any(isinstance(x, ast.Attribute) and isinstance(x.value, ast.Name) and x.value.id == "self" and x.attr in NAMELIKE and id(x) not in said for x in ast.walk(h)):
                opaque.append(f"{h.name}() reads a spelling of the species")
        if helpers:
            # what the getter returns / accumulates then comes out of those helpers
            opaque = [o for o in opaque if o.endswith("reads a spelling of the species")]
        key_ = f"Species.{gname}:own composition"
        if by_spelling:
            ctx.bad("R13", key_, (SPECIES, by_spelling[0][0]), f"the mass number is looked up by a spelling of the species (`{by_spelling[0][1]}`) instead of being computed from its element counts: "
                    "every grain rate of a species whose table row disagrees with its formula uses a mass number that is not its own",
                    expected="sum over the periodic / isotope tables of element_count * (protons + neutrons)", found=by_spelling[0][1])
        elif composed and not opaque:
            ctx.ok("R13", key_, (SPECIES, fn.lineno), "the mass number is computed from the species' element counts")
        else:
            ctx.unrec("R13", key_, (SPECIES, fn.lineno), f"cannot see that the mass number is computed from the species' element counts: returns {opaque or 'nothing recognisable'}")


def _r9_rate_from_rateexpr(ctx, pkg):
    """Fallback of R9 when the statement builder is not read by C06.R1: within `_assign_rates` and the functions of its module it
    calls, the rate texts are produced by `<reaction>.rateexpr(..)` (a call, or operator.methodcaller("rateexpr")), the grain-aware form
    receiving an argument -- so a refusal raised in there propagates (together with _r9_refusal_not_caught)."""
    F = "naunet/templateloader.py"
    root = pkg.cls("TemplateLoader").methods.get("_assign_rates")
    if root is None:
        ctx.missing("R9", "_assign_rates", (F, 0), "TemplateLoader._assign_rates vanished")
        return
    scope, todo = [], [root]
    while todo:
        f = todo.pop()
        if any(f is g for g in scope):
            continue
        scope.append(f)
        for c in ast.walk(f):
            if isinstance(c, ast.Call) and isinstance(c.func, ast.Attribute) and isinstance(c.func.value, ast.Name) and c.func.value.id in ("self", "cls", "TemplateLoader"):
                g = pkg.resolve("TemplateLoader", c.func.attr)[1]
                if g is not None:
                    todo.append(g)
            elif isinstance(c, ast.Call) and isinstance(c.func, ast.Name) and (F, c.func.id) in pkg.functions:
                todo.append(pkg.functions[(F, c.func.id)])
    calls = [c for f in scope for c in ast.walk(f) if isinstance(c, ast.Call) and isinstance(c.func, ast.Attribute) and c.func.attr == "rateexpr"]
    by_name = [c for f in scope for c in ast.walk(f) if isinstance(c, ast.Call) and ast.unparse(c.func).split(".")[-1] == "methodcaller" and c.args
               and isinstance(c.args[0], ast.Constant) and c.args[0].value == "rateexpr"]
    with_grain = [c for c in calls if c.args or c.keywords] + [c for c in by_name if len(c.args) > 1]
    if with_grain:
        ctx.ok("R9", "_assign_rates:rate from rateexpr", (F, with_grain[0].lineno), "the rate text of a reaction is what <reaction>.rateexpr(<its grain>) returns")
    else:
        ctx.unrec("R9", "_assign_rates:rate from rateexpr", (F, root.lineno), "no call <reaction>.rateexpr(<grain>) found in _assign_rates or the functions it calls")


def _r9_refusal_not_caught(ctx, pkg):
    """Positive half of R9: wherever the package asks for a rate expression (`<x>.rateexpr(..)`), the call does not sit in a `try`
    whose handler catches the refusal (NotImplementedError, or a class above it) and carries on without re-raising."""
    CATCHES = {"NotImplementedError", "RuntimeError", "Exception", "BaseException"}
    n = 0
    for file, mod in pkg.modules.items():
        for t in ast.walk(mod):
            if not isinstance(t, ast.Try):
                continue
            calls = [c for st in t.body for c in ast.walk(st) if isinstance(c, ast.Call) and isinstance(c.func, ast.Attribute) and c.func.attr == "rateexpr"]
            if not calls:
                continue
            n += 1
            for h in t.handlers:
                names = {"BaseException"} if h.type is None else {ast.unparse(e).split(".")[-1] for e in (h.type.elts if isinstance(h.type, ast.Tuple) else [h.type])}
                if not (names & CATCHES):
                    continue
                reraises = any(isinstance(x, ast.Raise) or (isinstance(x, ast.Call) and ast.unparse(x.func) in ("sys.exit", "exit", "quit", "os._exit", "os.abort"))
                               for st in h.body for x in ast.walk(st))
                ctx.check(reraises, "R9", f"{file}:rateexpr() refusal handled", (file, h.lineno),
                          "the handler re-raises" if reraises else
                          f"`except {', '.join(sorted(names))}` around {ast.unparse(calls[0])[:50]} carries on without raising: a request the dust model refuses "
                          "(NotImplementedError) yields a substitute rate instead of an error", expected="no handler, or a handler that re-raises", found=ast.unparse(h)[:100])
    ctx.stats["try_blocks_around_rateexpr"] = n


def _r8(ctx, pkg):
    """First stage of the lookup order: a value set on a Species OBJECT (binding energy, yield) travels with that object.  A
    reaction built from Species instances keeps those very instances -- Species.__copy__ rebuilds from the name and symbols only, so
    a copy silently falls back to the tables."""
    fn = pkg.cls("Component").methods.get("_create_species")
    if fn is None:
        # under another name, by role: the one method of Component that constructs a Species
        making = [m for m in pkg.cls("Component").methods.values() if any(isinstance(c, ast.Call) and isinstance(c.func, ast.Name) and c.func.id == "Species" for c in ast.walk(m))]
        fn = making[0] if len(making) == 1 else None
    if fn is None:
        ctx.missing("R8", "Component._create_species", ("naunet/component.py", 0), "method vanished")
        return
    ctx.saw("naunet/component.py", f"Component.{fn.name}")
    arg = fn.args.args[1].arg if len(fn.args.args) > 1 else None
    # by facts, whatever the control flow (guard clause, if/else, conditional expression): on every path where the argument IS
    # a Species instance the method returns the argument itself
    from ..valueflow import guards_satisfiable, peval
    INST = ("call", ("global", "isinstance"), (("param", arg), ("global", "Species")), ())

    def _priv(name):
        return pkg.resolve("Component", name)[1] if name.startswith("_") and not name.startswith("__") and name != fn.name else None
    rets = [f for f in Flow(fn, "naunet/component.py", resolver=_priv).facts if f.kind == "return"]
    on_inst = []
    for f in rets:
        gs = [(simp(c), p_) for gd in f.guards for c, p_ in split_guard(gd)]
        if not guards_satisfiable(gs, [(INST, True)]):
            continue                          # this return is not reached with a Species instance
        v = simp(peval(simp(f.value), {INST: True})) if f.value is not None else ("const", None)
        on_inst.append(v)
    tested = any(x == INST for f in rets for gd in f.guards for x in walk(simp(gd[0]))) or any(x == INST for f in rets if f.value is not None for x in walk(simp(f.value)))
    ok = bool(on_inst) and tested and all(v == ("param", arg) for v in on_inst)
    found = "; ".join(show(v)[:50] for v in on_inst) or "no return"
    if not ok and (not tested or not on_inst or not any(v != ("param", arg) and any(x == ("param", arg) for x in walk(v)) for v in on_inst)):
        # no `isinstance(<argument>, Species)` decision is visible, or what is returned for an instance is not an expression of it
        ctx.unrec("R8", "Component._create_species:instance kept", ("naunet/component.py", fn.lineno), f"cannot see what _create_species returns for a Species instance: {found}")
        return
    ctx.check(ok, "R8", "Component._create_species:instance kept", ("naunet/component.py", fn.lineno),
              "a Species instance handed in is the instance stored" if ok else
              "a Species instance handed in is replaced by a copy / re-parse: values set on the object (explicit binding energy, photodesorption yield, custom alias) are lost and "
              "the rate falls back to the user / built-in table", expected=f"if isinstance({arg}, Species): return {arg}", found=found)
    cp = pkg.cls("Species").methods.get("__copy__")
    if cp is not None:
        carried = {k.arg for c in ast.walk(cp) if isinstance(c, ast.Call) for k in c.keywords} | {n.attr for n in ast.walk(cp) if isinstance(n, ast.Attribute)}
        ctx.note(f"Species.__copy__ carries {sorted(carried)} (explicit binding energy / yield are not among them: copies are used for aliases only)")


CHEMDATA = "naunet/chemistrydata/__init__.py"


def _module_helpers_put_back(pkg, file, fn):
    """a copy of module function `fn` with the plain functions of the same module it was split into put back in place
    (normalize.expand_helpers); `fn` itself when that fails"""
    try:
        import copy
        from ..normalize import expand_helpers
        locs = {n.id for n in ast.walk(fn) if isinstance(n, ast.Name) and isinstance(n.ctx, ast.Store)} | {a.arg for a in ast.walk(fn.args) if isinstance(a, ast.arg)}

        def put_back(call):
            if isinstance(call.func, ast.Name) and call.func.id not in locs:
                g = pkg.functions.get((file, call.func.id))
                if g is not None and g is not fn and not any(isinstance(n, (ast.Yield, ast.YieldFrom)) or (isinstance(n, ast.Name) and n.id == fn.name) for n in ast.walk(g)):
                    return g, None
            return None
        return expand_helpers(copy.deepcopy(fn), put_back)
    except Exception:
        return fn


def _r7(ctx, pkg):
    """Built-in table (last stage of the binding-energy lookup): the key of a record is its first blank-separated token WHOLE
    (the table has neutrals and their anions, `OH` and `OH-`, with different energies), the value float(second token)."""
    # the reader of the built-in table, by use: the module function whose call is bound to `rate12_binding_energy` at module level
    reader = "_read_binding_energy"
    for st in pkg.modules[CHEMDATA].body if CHEMDATA in pkg.modules else ():
        tg = st.targets[0] if isinstance(st, ast.Assign) and len(st.targets) == 1 else st.target if isinstance(st, ast.AnnAssign) and st.value is not None else None
        if tg is not None and isinstance(st.value, ast.Call) and isinstance(st.value.func, ast.Name) and (CHEMDATA, st.value.func.id) in pkg.functions and (
                (isinstance(tg, ast.Name) and tg.id == "rate12_binding_energy") or (isinstance(tg, ast.Tuple) and any(isinstance(e, ast.Name) and e.id == "rate12_binding_energy" for e in tg.elts))):
            reader = st.value.func.id
    fn = pkg.func(CHEMDATA, reader)
    if fn is None:
        ctx.missing("R7", "_read_binding_energy", (CHEMDATA, 0), "reader of the built-in binding-energy table vanished")
        return
    ctx.saw(CHEMDATA, reader)
    fn = _module_helpers_put_back(pkg, CHEMDATA, fn)
    fl = Flow(fn, CHEMDATA)
    ret = [simp(f.value) for f in fl.facts if f.kind == "return"]
    acc = ret[0][1] if len(ret) == 1 and ret[0][0] == "acc" else None
    if acc is None and len(ret) == 1 and ret[0][0] == "tuple":
        # the reader returns several tables: the one the module binds to `rate12_binding_energy` (by position of the unpacking)
        for st in pkg.modules[CHEMDATA].body:
            if isinstance(st, ast.Assign) and len(st.targets) == 1 and isinstance(st.targets[0], ast.Tuple) and isinstance(st.value, ast.Call) \
                    and isinstance(st.value.func, ast.Name) and st.value.func.id == reader and len(st.targets[0].elts) == len(ret[0][1]):
                for i, t in enumerate(st.targets[0].elts):
                    if isinstance(t, ast.Name) and t.id == "rate12_binding_energy" and ret[0][1][i][0] == "acc":
                        acc = ret[0][1][i][1]
    writes = [f for f in fl.facts if f.target == acc and f.kind in ("mutate", "store")]
    ok = False
    found = ""
    regex_key = None
    def tok_index(x):
        """(the split record, i) when x is the i-th blank-separated token of a record -- `a, b, *_ = line.split()` or
        `line.split()[i]`, with or without an explicit `None` separator / maxsplit -- else None"""
        base = i = None
        if x[0] == "item" and isinstance(x[2], int):
            base, i = x[1], x[2]
        elif x[0] == "sub" and x[2][0] == "const" and type(x[2][1]) is int:
            base, i = x[1], x[2][1]
        if base is not None and base[0] == "meth" and base[2] == "split" and (not base[3] or base[3][0] == ("const", None)) \
                and not any(kw != "maxsplit" for kw, _ in base[4]) and i >= 0:
            return base, i
        return None
    is_tok = lambda x, i: tok_index(x) is not None and tok_index(x)[1] == i

    def evidence(k, val):
        """what is positively wrong with a stored (key, value) pair, or None"""
        tk = tok_index(k)
        if tk is not None and tk[1] != 0:
            return f"the key is token {tk[1]} of the record, not its first token"
        if tk is None and any(isinstance(y, tuple) and y and tok_index(y) is not None and tok_index(y)[1] == 0 for y in walk(k) if isinstance(y, tuple) and len(y) == 3):
            return "the key is a transformation of the first token (characters stripped / replaced): neutral and anion rows collapse"
        tv = [tok_index(y) for y in walk(val) if isinstance(y, tuple) and len(y) == 3 and y[0] in ("item", "sub")]
        tv = [t for t in tv if t is not None]
        if tv and all(t[1] != 1 for t in tv):
            return f"the value is read from token {tv[0][1]} of the record, not from its second token"
        if tv and not (val[0] == "call" and val[1] == ("global", "float") and len(val[2]) == 1 and tok_index(val[2][0]) is not None):
            return "the second token is not stored as float(token)"
        return None
    why = None
    if acc is None and len(ret) == 1 and ret[0][0] == "comp" and ret[0][1] == "dict":
        # the table as one dict comprehension
        from ..valueflow import expand_bvals
        kv = expand_bvals(fl, ret[0][2])
        if kv[0] == "tuple" and len(kv[1]) == 2:
            k, val = kv[1]
            found = f"{show(k)[:70]} : {show(val)[:50]}"
            ok = is_tok(k, 0) and val[0] == "call" and val[1] == ("global", "float") and is_tok(val[2][0], 1) and tok_index(k)[0] == tok_index(val[2][0])[0]
            if not ok:
                why = why or evidence(k, val)
            if ok:
                ctx.check(True, "R7", "built-in table:key", (CHEMDATA, fn.lineno), "key = first token of the record, value = float(second token)")
                return
    for f in writes:
        kv = None
        v = simp(f.value) if f.value else None
        if f.kind == "mutate" and v and v[0] == "dict" and len(v[1]) == 1:
            kv = v[1][0]
        elif f.kind == "store" and f.index is not None:
            kv = (simp(f.index), v)
        if kv:
            k, val = kv
            found = f"{show(k)[:70]} : {show(val)[:50]}"
            ok = is_tok(k, 0) and val[0] == "call" and val[1] == ("global", "float") and is_tok(val[2][0], 1) and tok_index(k)[0] == tok_index(val[2][0])[0]
            if not ok and k[0] in ("sub", "meth") and "match" in show(k):
                regex_key = k
            if not ok:
                why = why or evidence(k, val)
    if not ok and regex_key is not None:
        # the key comes out of a regular expression: its group must admit the charge signs
        import re._parser as sp
        pats = [n.args[0].value for n in ast.walk(pkg.modules[CHEMDATA]) if isinstance(n, ast.Call) and ast.unparse(n.func) in ("re.compile", "re.match", "re.search")
                and n.args and isinstance(n.args[0], ast.Constant) and isinstance(n.args[0].value, str)]
        admits = False
        for pat in pats:
            try:
                tree_ = sp.parse(pat)
            except Exception:
                continue
            for op, av in tree_:
                if op is sp.SUBPATTERN:
                    chars = set()
                    def collect(seq):
                        for o, a in seq:
                            if o is sp.LITERAL:
                                chars.add(chr(a))
                            elif o is sp.IN:
                                for oo, aa in a:
                                    if oo is sp.LITERAL:
                                        chars.add(chr(aa))
                                    elif oo is sp.RANGE:
                                        chars.update(chr(c) for c in range(aa[0], min(aa[1], aa[0] + 128) + 1))
                                    elif oo is sp.CATEGORY and aa is sp.CATEGORY_NOT_SPACE:
                                        chars.update("+-")
                            elif o in (sp.MAX_REPEAT, sp.MIN_REPEAT):
                                collect(a[2])
                            elif o is sp.SUBPATTERN:
                                collect(a[3])
                            elif o is sp.CATEGORY and a is sp.CATEGORY_NOT_SPACE:
                                chars.update("+-")
                    collect(av[3])
                    admits = {"+", "-"} <= chars
                    break
        ctx.check(admits, "R7", "built-in table:key", (CHEMDATA, fn.lineno),
                  "the key group of the record expression admits the charge signs" if admits else
                  "the species key is cut out of the record by a regular expression whose group stops before the charge sign: the rows of anions (H-, C-, O-, OH-, CN-, S-) are "
                  "stored under the neutral's name and overwrite it (OH 2850 K -> 1260 K): every rate of that ice species uses the anion's binding energy",
                  expected="key = first blank-separated token of the record", found=found)
        return
    if ok or why:
        ctx.check(ok, "R7", "built-in table:key", (CHEMDATA, writes[0].line if writes else fn.lineno),
                  "key = first token of the record, value = float(second token)" if ok else f"the record is not stored as {{first token: float(second token)}}: {why}",
                  expected="elem, eb, *_ = line.split(); table[elem] = float(eb)", found=found)
    else:
        ctx.unrec("R7", "built-in table:key", (CHEMDATA, writes[0].line if writes else fn.lineno),
                  f"cannot see how the records of the built-in table are turned into (key, value) pairs: {found or show(ret[0])[:100] if ret else 'no return'}")


CONST_C = "naunet/templates/base/cpp/src/naunet_constants.cpp.j2"
CONST_H = "naunet/templates/base/cpp/include/naunet_constants.h.j2"


def _network_field(ctx, field):
    """value the renderer gives to `network.<field>` of the templates: the argument of the NetworkInfo(..) construction in
    templateloader.py bound to that dataclass field (IR, simplified), or None"""
    from .c02 import dataclass_fields, _bind_args
    pkg = package(ctx.tree)
    TL = "naunet/templateloader.py"
    try:
        fields = dataclass_fields(pkg, "NetworkInfo")
    except Exception:
        return None
    if field not in fields:
        return None
    found = []
    for ci in [pkg.cls("TemplateLoader")]:
        for fn in ci.methods.values():
            if not any(isinstance(c, ast.Call) and ast.unparse(c.func).split(".")[-1] == "NetworkInfo" for c in ast.walk(fn)):
                continue
            fl = Flow(fn, TL)
            vals = [v for lst in fl.assigns.values() for v, *_ in lst] + [f.value for f in fl.facts if f.value is not None]
            for v in vals:
                for x in walk(v):
                    if isinstance(x, tuple) and len(x) == 4 and x[0] == "call" and x[1] == ("global", "NetworkInfo") and x not in found:
                        found.append(x)
    if len(found) != 1:
        return None
    a = _bind_args(fields, found[0]).get(field)
    return simp(a) if a is not None else None


_SELECTING = {"select", "reject", "selectattr", "rejectattr", "slice", "batch", "first", "last", "random", "unique"}


def _surface_selection(var, fs, tests):
    """Which species of `network.species` reach the body of the eb_ loop, whatever way the selection is spelled: the filters `fs`
    applied to the list (`selectattr("is_surface")`, `rejectattr(..)`, ..) and the conditions `tests` on the loop species (the
    loop's own `if`, an `{% if %}` around the whole body), split into conjuncts.
    -> (surface, wrong, unknown): the number of conditions that say `<species>.is_surface`, descriptions of UNDERSTOOD conditions that
    select something else (a further condition on the loop species, the negated flag, a slice), descriptions of what is not read."""
    from .. import jmodel as J
    surface, wrong, unknown = 0, [], []
    FLAG = ("const", "is_surface")
    for name, args, kws in fs:
        if name == "list" and not args and not kws:
            continue
        if name in ("selectattr", "rejectattr") and not kws and args and args[0] == FLAG:
            # the flag alone, or tested `true` / `== true` / `false`
            pol = name == "selectattr"
            rest = tuple(args[1:])
            if rest in ((), (("const", "true"),)) or (len(rest) == 2 and rest[0][0] == "const" and rest[0][1] in ("eq", "equalto", "==", "sameas") and rest[1] == ("const", True)):
                pass
            elif rest == (("const", "false"),) or (len(rest) == 2 and rest[0][0] == "const" and rest[0][1] in ("eq", "equalto", "==", "sameas") and rest[1] == ("const", False)):
                pol = not pol
            else:
                unknown.append(f"{name}{tuple(J.show(a) for a in args)}")
                continue
            if pol:
                surface += 1
            else:
                wrong.append(f"{name}({', '.join(J.show(a) for a in args)}) keeps the species that are NOT on the surface")
        elif name in _SELECTING:
            wrong.append(f"a further selection `{name}({', '.join(J.show(a) for a in args)})`")
        else:
            unknown.append(f"the filter `{name}`")

    def conjuncts(t):
        return conjuncts(t[1]) + conjuncts(t[2]) if t[0] == "and" else [t]
    vars_ = J._targets(var)
    for test in tests:
        for c in conjuncts(test):
            t, pol = J.canon_test(c)
            if t[0] == "test" and t[1] in ("true", "false") and not t[3]:
                t, pol = t[2], pol == (t[1] == "true")
            if t[0] == "cmp" and len(t[2]) == 1 and t[2][0][0] == "eq" and t[2][0][1] in (("const", True), ("const", False)):
                t, pol = t[1], pol == t[2][0][1][1]
            if t == ("attr", var, "is_surface"):
                if pol:
                    surface += 1
                else:
                    wrong.append(f"`{J.show(c)}` keeps the species that are NOT on the surface")
            elif t[0] in ("attr", "cmp", "test", "item") and J.names_of(c) and J.names_of(c) <= vars_ and not any(x[0] in ("call", "filter") for x in J._subterms(c) if isinstance(x, tuple) and x):
                # a plain condition on an attribute of the loop species: a further selection among them
                wrong.append(f"a further condition `{J.show(c)}`")
            else:
                unknown.append(f"the condition `{J.show(c)}`")
    return surface, wrong, unknown


def _eb_loop(it):
    """is this `for` item the loop that emits `eb_<..>`?  -> (body holding the text `eb_`, [conditions around it inside the loop])
    when the text stands in the loop body itself or in an `{% if %}` (without else) that is all the loop body contains; else None"""
    body, tests = it[3], []
    for _ in range(4):
        if any(x[0] == "text" and x[1].rstrip().endswith("eb_") for x in body):
            return body, tests
        rest = [x for x in body if not (x[0] == "text" and not x[1].strip())]
        if len(rest) == 1 and rest[0][0] == "if" and not [x for x in rest[0][3] if not (x[0] == "text" and not x[1].strip())]:
            tests = tests + [rest[0][1]]
            body = rest[0][2]
        else:
            return None
    return None


def _r6(ctx):
    """The templates that say `eb_<alias>` read a C constant: it must be defined, for every ice species, from the SAME species'
    binding energy, printed as Python prints the float (repr round-trips; a format filter rounds)."""
    from .. import jmodel as J
    n = 0
    for rel, need_value in ((CONST_C, True), (CONST_H, False)):
        ctx.saw(rel)
        # ({% set %} names and macro parameters read as what they stand for; a loop over `S | map(..)` already iterates S)
        loops = [it for it, _ in J.walk_items(J.inline_sets(J.flatten(ctx.tree, rel, {}))) if it[0] == "for" and _eb_loop(it) is not None]
        if len(loops) != 1:
            ctx.missing("R6", f"{rel}:eb_ loop", (rel, 0), f"expected one loop emitting eb_<alias>, found {len(loops)}")
            continue
        lp = loops[0]
        var, it_ = lp[1], lp[2]
        body, inner_tests = _eb_loop(lp)
        n += 1
        k = f"{rel.rsplit('/', 1)[1]}:eb_"
        SPECS = ("attr", ("name", "network"), "species")
        base_, fs_ = J.unfilter(it_)
        dkey = f"{k}:every ice species"
        tests_ = ([lp[7]] if lp[7] is not None else []) + inner_tests
        spelled = J.show(it_) + "".join(f" if {J.show(t)}" for t in tests_)
        if base_ == SPECS:
            # the species list, selected by ROLE: the conditions `<species>.is_surface` -- as selectattr filter, as the loop's own
            # `if`, as an `{% if %}` around the body -- and nothing else.  Understood and wrong: a further / another selection
            surface, wrong, unknown = _surface_selection(var, fs_, tests_)
            if wrong:
                ctx.bad("R6", dkey, (rel, lp[5]), "one constant per surface species of the network", expected="network.species | selectattr('is_surface')", found=f"{spelled}: {wrong[0]}")
            elif unknown:
                ctx.unrec("R6", dkey, (rel, lp[5]), f"cannot tell which species the eb_ constants are emitted for: {spelled} ({unknown[0]} is not understood)")
            else:
                ctx.ok("R6", dkey, (rel, lp[5]), "one constant per surface species of the network")
        elif base_[0] == "attr" and base_[1] == ("name", "network") and not [f for f in fs_ if f[0] != "list"] and not tests_ and _network_field(ctx, base_[2]) is not None:
            # another field of the NetworkInfo handed to the templates: what the renderer puts into it
            fv = _network_field(ctx, base_[2])
            sel = None
            if fv[0] == "comp" and fv[1] in ("list", "gen") and len(fv[3]) == 1 and fv[3][0][1][0] == "attr" and fv[3][0][1][2] == "species" and fv[2] == fv[3][0][0]:
                sel = [c for c in fv[3][0][2]]
            surf = ("attr", fv[3][0][0], "is_surface") if sel is not None else None
            extra = [c for c in (sel or []) for x in split_guard((c, True)) if x != (surf, True)]
            if sel is not None and any(x == (surf, True) for c in sel for x in split_guard((c, True))) and not extra:
                ctx.ok("R6", dkey, (rel, lp[5]), "one constant per surface species of the network")
            elif sel is not None and extra:
                ctx.bad("R6", dkey, (rel, lp[5]), "one constant per surface species of the network", expected="network.species | selectattr('is_surface')",
                        found=f"network.{base_[2]} = the species selected by {'; '.join(show(c)[:70] for c in sel)}")
            else:
                ctx.unrec("R6", dkey, (rel, lp[5]), f"cannot tell which species the eb_ constants are emitted for: network.{base_[2]} = {show(fv)[:100]}")
        else:
            ctx.unrec("R6", dkey, (rel, lp[5]), f"cannot tell which species the eb_ constants are emitted for: {spelled}")
        idx = [i for i, x in enumerate(body) if x[0] == "text" and x[1].rstrip().endswith("eb_")][0]
        name = body[idx + 1] if idx + 1 < len(body) else None
        nkey = f"{k}:name"
        if name is not None and name[0] == "out" and name[1] == ("attr", var, "alias"):
            ctx.ok("R6", nkey, (rel, lp[5]), "the constant is named after the loop species' alias")
        elif name is not None and name[0] == "out" and name[1][0] == "attr" and name[1][1] == var:
            ctx.bad("R6", nkey, (rel, lp[5]), "the constant is named after the loop species' alias", expected="eb_{{ s.alias }}", found=J.show(name[1]))
        else:
            ctx.unrec("R6", nkey, (rel, lp[5]), f"cannot read what follows `eb_` in the loop body: {J.show(name[1]) if name and name[0] == 'out' else str(name)[:60]}")
        if need_value:
            val = body[idx + 3] if idx + 3 < len(body) and body[idx + 2][0] == "text" and body[idx + 2][1].strip() == "=" else None
            good = val is not None and val[0] == "out" and val[1] in (("attr", var, "eb"), ("attr", var, "binding_energy"))
            vbase = J.unfilter(val[1])[0] if val is not None and val[0] == "out" else None
            # understood and wrong: a filter / format over the species' binding energy, or another attribute of the loop species
            reads_eb = val is not None and val[0] == "out" and not good and any(x in (("attr", var, "eb"), ("attr", var, "binding_energy")) for x in J._subterms(val[1]))
            other_attr = vbase is not None and not good and vbase[0] == "attr" and vbase[1] == var
            # printed through something that prints a float as Python does (`| string`, `"%s" | format(x)`): the same digits
            if reads_eb and val[1][0] == "filter" and val[1][2] in (("attr", var, "eb"), ("attr", var, "binding_energy")) and val[1][1] in ("string", "safe", "trim") and not val[1][3] and not val[1][4]:
                good = True
            if reads_eb and val[1][0] == "filter" and val[1][1] == "format" and val[1][2] in (("const", "%s"), ("const", "%r")) and tuple(val[1][3]) in ((("attr", var, "eb"),), (("attr", var, "binding_energy"),)) and not val[1][4]:
                good = True
            # understood and wrong: a numeric format / rounding of the binding energy, another (existing) attribute of the loop species
            rounding = reads_eb and not good and any(isinstance(x, tuple) and x and ((x[0] == "filter" and x[1] in ("round", "int", "float", "abs")) or
                                                     (x[0] == "const" and isinstance(x[1], str) and re.search(r"%[-+ #0-9.]*[defgEG]|\{[^}]*:[^}]*[defgEG%]\}", x[1]))) for x in J._subterms(val[1]))
            sp_ = package(ctx.tree).cls("Species")
            other_attr = other_attr and (vbase[2] in sp_.methods or vbase[2] in sp_.attrs)
            if good or rounding or other_attr:
                ctx.check(good, "R6", f"{k}:value", (rel, lp[5]), "the value is the same species' binding energy, printed unrounded" if good else
                          "the constant is not the loop species' binding energy printed as-is (a filter/format rounds or another value is printed): rates reading eb_<alias> differ from those inlining the value",
                          expected="{{ s.eb }}", found=J.show(val[1]) if val is not None and val[0] == "out" else str(val)[:80])
            else:
                ctx.unrec("R6", f"{k}:value", (rel, lp[5]), f"cannot read the value the eb_ constant is given: {J.show(val[1]) if val is not None and val[0] == 'out' else str(val)[:80]}")
    ctx.floor("R6", "eb_ loops", n, 2)


def _r1(ctx, rm, pkg):
    gm = grain_methods(rm)
    ctx.floor("R1", "types dispatched by Grain.rateexpr", len(gm), 9)
    g = pkg.cls("Grain")
    ctx.saw(g.file, "Grain.rateexpr")
    # rateexpr not overridden
    for G in GRAIN_CLASSES[1:]:
        ci = pkg.cls(G)
        if "rateexpr" not in ci.methods:
            ctx.ok("R1", f"{G}:rateexpr not overridden", (ci.file, ci.node.lineno), "the dispatch and the NotImplemented -> NotImplementedError conversion are inherited from Grain.rateexpr")
        else:
            # an override is not wrong in itself; what it does with the dispatch / the refusal is not analysed
            ctx.unrec("R1", f"{G}:rateexpr not overridden", (ci.file, ci.methods["rateexpr"].lineno), f"{G} overrides rateexpr: the dispatch and the NotImplemented -> NotImplementedError "
                      "conversion of Grain.rateexpr are not known to apply")
    # the conversion itself, read off the facts of Grain.rateexpr whatever the spelling (`if rate is NotImplemented: raise`, a
    # guard clause `if rate is not NotImplemented: return rate` followed by the raise, the test in a helper): some raise of
    # NotImplementedError sits under `X is NotImplemented`, and every value the method returns is that X on a path where the test failed
    def _priv(name):
        return pkg.resolve("Grain", name)[1] if name.startswith("_") and not name.startswith("__") else None
    try:
        fn = pkg.expanded("Grain", "rateexpr", keep=tuple(gm.values()))
    except Exception:
        fn = g.methods["rateexpr"]
    rfl = Flow(fn, g.file, resolver=_priv)
    NI = ("global", "NotImplemented")

    def ni_test(gd):
        """X of a guard `X is NotImplemented` / `X == NotImplemented` in positive form -> (X, polarity) or None"""
        c, pol = norm_guard((simp(gd[0]), gd[1]))
        if c[0] == "cmp" and c[1] in (("Is",), ("Eq",)) and len(c[2]) == 2 and NI in c[2]:
            return (c[2][0] if c[2][1] == NI else c[2][1]), pol
        return None
    raised = {t[0] for f in rfl.facts if f.kind == "raise" and f.value is not None and "NotImplementedError" in show(f.value)
              for gd in f.guards for sg in split_guard(gd) for t in [ni_test(sg)] if t is not None and t[1]}
    rets = [f for f in rfl.facts if f.kind == "return" and f.value is not None]
    conv_ok = bool(raised) and bool(rets) and all(
        simp(f.value) in raised and any(t is not None and t[0] == simp(f.value) and not t[1] for gd in f.guards for sg in split_guard(gd) for t in [ni_test(sg)]) for f in rets)
    # positive evidence of a swallowed refusal: something is returned on a path where the result IS NotImplemented, or the method
    # (fully read: no private helper left as a call) never tests the result at all
    under_ni = [f for f in rets if any(t is not None and t[1] for gd in f.guards for sg in split_guard(gd) for t in [ni_test(sg)])]
    tests_any = any(ni_test(sg) is not None for f in rfl.facts for gd in f.guards for sg in split_guard(gd))
    helpers_left = [x[2] for f in rfl.facts if f.value is not None for x in walk(f.value) if isinstance(x, tuple) and len(x) == 5 and x[0] == "meth" and x[1] == SELF
                    and x[2].startswith("_") and not x[2].startswith("__")]
    conv_msg = "a NotImplemented result raises NotImplementedError before anything is returned"
    conv_found = "; ".join(f"return {show(simp(f.value))[:40]} under {[show(c)[:40] + '=' + str(p_) for c, p_ in f.guards][-2:]}" for f in rets)[:300]
    if conv_ok:
        ctx.ok("R1", "Grain.rateexpr:NotImplemented->error", (g.file, fn.lineno), conv_msg)
    elif under_ni or (rets and not tests_any and not helpers_left):
        ctx.bad("R1", "Grain.rateexpr:NotImplemented->error", (g.file, fn.lineno), conv_msg, expected="if rate is NotImplemented: raise NotImplementedError(..)", found=conv_found)
    else:
        ctx.unrec("R1", "Grain.rateexpr:NotImplemented->error", (g.file, fn.lineno), f"cannot see how Grain.rateexpr turns a NotImplemented result into an error: {conv_found}")
    n = 0
    for G in GRAIN_CLASSES:
        for tau, mname in sorted(gm.items(), key=lambda kv: str(kv[0])):
            dc, fn = pkg.resolve(G, mname)
            key = f"{G}:{mname}"
            if fn is None:
                if any(mname in pkg.cls(c_).attrs for c_ in pkg.mro(G) if c_ in pkg.classes):
                    # (`rate_x = _refuse` in a class body: a method under another name)
                    ctx.unrec("R1", key, (pkg.cls(G).file, 0), f"{mname} is bound in a class body by an assignment, not a `def`: what it does is not read")
                else:
                    ctx.bad("R1", key, (pkg.cls(G).file, 0), f"Grain.rateexpr dispatches type {tau} to {mname}, which {G} does not have")
                continue
            n += 1
            vs = rm.variants(G, mname)
            kinds = {v.kind for v in vs if v.kind != "raise"}
            ok = kinds <= {"text", "notimplemented"} and kinds
            # an empty-string / None template would silently become a rate
            empty = [v for v in vs if v.kind == "text" and v.text.strip() in ("", "None")]
            if not empty and (not kinds or kinds - {"text", "notimplemented"}) and not [v for v in vs if v.kind == "other" and isinstance(v.raw, tuple) and v.raw[0] == "const"]:
                # a value the reconstruction does not read as a template (a call left opaque, a delegate): not evidence of a rate
                ctx.unrec("R1", key, (pkg.cls(dc).file, fn.lineno), f"{dc}.{mname} returns values that are not understood ({sorted(kinds) or 'nothing'})")
            else:
                ctx.check(bool(ok) and not empty, "R1", key, (pkg.cls(dc).file, fn.lineno),
                          f"{dc}.{mname} yields " + ("a rate template" if "text" in kinds else "NotImplemented (refused with NotImplementedError)") if ok and not empty else
                          f"{dc}.{mname} returns {sorted(kinds)}{' / an empty template' if empty else ''}: a request the model does not implement would produce a rate",
                          expected="template or NotImplemented")
            # overrides call super() first (read with the private helpers the override was split into put back: the base call that
            # opens an extracted first block is still the first thing the override does)
            if dc != "Grain":
                try:
                    fx = pkg.expanded(dc, mname)
                except Exception:
                    fx = fn
                if len(fx.args.args) != len(fn.args.args) or [a.arg for a in fx.args.args] != [a.arg for a in fn.args.args]:
                    fx = fn

                def opening(f_):
                    first = f_.body[0]
                    if isinstance(first, ast.Expr) and isinstance(first.value, ast.Constant) and len(f_.body) > 1:
                        first = f_.body[1]
                    return first
                first = opening(fx)
                if not _is_base_call(pkg, dc, fn, mname, first) and _is_base_call(pkg, dc, fn, mname, opening(fn)):
                    fx, first = fn, opening(fn)
                src = ast.unparse(first)
                is_base = lambda x: isinstance(x, ast.Call) and isinstance(x.func, ast.Attribute) and x.func.attr == mname \
                    and ((isinstance(x.func.value, ast.Call) and isinstance(x.func.value.func, ast.Name) and x.func.value.func.id == "super")
                         or (isinstance(x.func.value, ast.Name) and x.func.value.id in pkg.mro(dc)[1:]))
                # anywhere else in the override: the base method's validation still runs, but not provably before the template is built
                elsewhere = [x for x in ast.walk(fx) if is_base(x)] + [x for x in ast.walk(fn) if is_base(x)]
                # ... or inside a helper the override calls (a method reached through self, a function of the module) that could not
                # be put back in place: the base method is called, where exactly is not read
                if not elsewhere:
                    elsewhere = _base_call_in_helpers(pkg, dc, fx, is_base)
                if _is_base_call(pkg, dc, fn, mname, first) or not elsewhere and not fn.decorator_list:
                    ctx.check(_is_base_call(pkg, dc, fn, mname, first), "R1", f"{dc}.{mname}:super-first", (pkg.cls(dc).file, fn.lineno),
                              "the override first runs the base method (type and arity validation)", expected=f"super().{mname}(reac)", found=src[:60])
                else:
                    ctx.unrec("R1", f"{dc}.{mname}:super-first", (pkg.cls(dc).file, fn.lineno), f"the override runs the base method, but not as its first statement ({src[:50]}): whether the "
                              "validation precedes everything else is not decided")
    ctx.floor("R1", "(grain class, type) pairs", n, 45)
    # base validation present: some raise of the base method sits on the path where reac.reaction_type differs from the type the
    # dispatch sends here (read off the facts, private validation helpers put back)
    RT = ("attr", REAC, "reaction_type")
    for tau, mname in gm.items():
        fn = g.methods.get(mname)
        if fn is None:
            continue
        try:
            fx = pkg.expanded("Grain", mname)
        except Exception:
            fx = fn
        # the parameter may have any name: the reaction is the method's own (second) parameter
        pname = fx.args.args[1].arg if len(fx.args.args) > 1 else "reac"
        ok, other = False, []
        for f in Flow(fx, g.file, consts=rm.module_consts(g.file)).facts:
            if f.kind != "raise":
                continue
            for gd in f.guards:
                for sg in split_guard(gd):
                    c, pol = norm_guard((simp(sg[0]), sg[1]))
                    if c[0] == "cmp" and c[1] == ("In",) and len(c[2]) == 2 and not pol and c[2][0] == ("attr", ("param", pname), "reaction_type") \
                            and c[2][1][0] in ("tuple", "list", "set") and c[2][1][1]:
                        # `if reac.reaction_type not in (A, ..): raise`: refuses every type outside the display
                        members = [rm.enum_of_ir("Grain", y) for y in c[2][1][1]]
                        if tau in members:
                            ok = True
                        elif all(m_ is not None for m_ in members):
                            other += members
                    if c[0] == "cmp" and c[1] in (("Eq",), ("Is",)) and len(c[2]) == 2 and not pol:
                        a, b = c[2]
                        for x, y in ((a, b), (b, a)):
                            if x == ("attr", ("param", pname), "reaction_type"):
                                if rm.enum_of_ir("Grain", y) == tau:
                                    ok = True
                                elif rm.enum_of_ir("Grain", y) is not None:
                                    other.append(rm.enum_of_ir("Grain", y))
        # the validation as a decorator: `@only_for(ReactionType.X, ..)` with a module-level factory whose wrapper raises when
        # `<reaction>.reaction_type != <factory parameter>` -- the test with the decorator's own argument in place of the parameter
        opaque = []
        for d in fn.decorator_list:
            fac = pkg.functions.get((g.file, d.func.id)) if isinstance(d, ast.Call) and isinstance(d.func, ast.Name) else None
            hit = False
            if fac is not None and not d.keywords:
                fparams = [a.arg for a in fac.args.args]
                for w in ast.walk(fac):
                    if isinstance(w, ast.If) and isinstance(w.test, ast.Compare) and len(w.test.ops) == 1 and isinstance(w.test.ops[0], ast.NotEq) \
                            and any(isinstance(r, ast.Raise) for r in w.body):
                        l, r = w.test.left, w.test.comparators[0]
                        for x, y in ((l, r), (r, l)):
                            if isinstance(x, ast.Attribute) and x.attr == "reaction_type" and isinstance(y, ast.Name) and y.id in fparams and fparams.index(y.id) < len(d.args):
                                arg = d.args[fparams.index(y.id)]
                                val = rm.enum_of_ir("Grain", ("attr", ("global", arg.value.id), arg.attr)) if isinstance(arg, ast.Attribute) and isinstance(arg.value, ast.Name) else None
                                if val == tau:
                                    ok = hit = True
                                elif val is not None:
                                    other.append(val)
                                    hit = True
            if not hit:
                opaque.append(ast.unparse(d)[:40])
        # calls the expansion could not put back may hold the validation
        opaque += [ast.unparse(c.func) for c in ast.walk(fx) if isinstance(c, ast.Call) and isinstance(c.func, ast.Attribute) and isinstance(c.func.value, ast.Name)
                   and c.func.value.id in ("self", "cls") and c.func.attr.startswith("_")]
        key_ = f"Grain.{mname}:type-validation"
        msg_ = f"the base method refuses reactions whose type is not {tau}"
        if ok:
            ctx.ok("R1", key_, (g.file, fn.lineno), msg_)
        elif other:
            ctx.bad("R1", key_, (g.file, fn.lineno), msg_, expected=f"raise unless reaction_type == {tau}", found=f"validated against type {sorted(set(other))}")
        elif opaque:
            ctx.unrec("R1", key_, (g.file, fn.lineno), f"no test of the reaction type is visible in the method; it may sit in {sorted(set(opaque))}, which is not understood")
        elif any(isinstance(x, ast.Attribute) and x.attr == "reaction_type" for x in ast.walk(fx)) or not any(isinstance(x, ast.Raise) for x in ast.walk(fx)) and any(isinstance(x, ast.Call) for x in ast.walk(fx)):
            # the method does look at the reaction type (a membership test, a table lookup ..) / hands the reaction to something else: not read
            ctx.unrec("R1", key_, (g.file, fn.lineno), "the method reads the reaction type / calls something, but no `raise` under a comparison of the type with one ReactionType member is seen")
        else:
            ctx.bad("R1", key_, (g.file, fn.lineno), msg_, expected=f"raise unless reaction_type == {tau}", found="no raise under a test of the reaction type")


def _base_call_in_helpers(pkg, dc, fn, is_base) -> list:
    """calls of the base method inside the helpers `fn` (a method of class dc) reaches: methods called through self / cls / the class
    name (MRO of dc) and functions of the module called by bare name, transitively"""
    file = pkg.cls(dc).file
    seen, todo, found = set(), [fn], []
    while todo and len(seen) < 60:
        f = todo.pop()
        for c in ast.walk(f):
            if not isinstance(c, ast.Call):
                continue
            callee = None
            if isinstance(c.func, ast.Attribute) and isinstance(c.func.value, ast.Name) and c.func.value.id in ("self", "cls", dc):
                callee = pkg.resolve(dc, c.func.attr)[1]
            elif isinstance(c.func, ast.Name):
                callee = pkg.functions.get((file, c.func.id))
            if callee is not None and id(callee) not in seen:
                seen.add(id(callee))
                found += [x for x in ast.walk(callee) if is_base(x)]
                todo.append(callee)
    return found


def _is_base_call(pkg, dc, fn, mname, st) -> bool:
    """is statement `st` of override `dc.mname` the call of the base-class method with the override's own argument?
    super().m(reac) / super(Cls, self).m(reac) / Base.m(self, reac)"""
    if isinstance(st, ast.Assign) and len(st.targets) == 1 and isinstance(st.targets[0], ast.Name) and isinstance(st.value, ast.Call):
        # `_ = super().m(reac)` / `base = super().m(reac)`: the base method has run all the same
        st = ast.Expr(value=st.value)
    if not (isinstance(st, ast.Expr) and isinstance(st.value, ast.Call) and isinstance(st.value.func, ast.Attribute) and st.value.func.attr == mname):
        return False
    call, recv = st.value, st.value.func.value
    params = [a.arg for a in fn.args.args]
    if len(params) < 2 or call.keywords:
        return False
    own = lambda args: len(args) == 1 and isinstance(args[0], ast.Name) and args[0].id == params[1]
    if isinstance(recv, ast.Call) and isinstance(recv.func, ast.Name) and recv.func.id == "super" and not recv.keywords:
        if recv.args and not (len(recv.args) == 2 and isinstance(recv.args[0], ast.Name) and recv.args[0].id == dc and isinstance(recv.args[1], ast.Name) and recv.args[1].id == params[0]):
            return False
        return own(call.args)
    if isinstance(recv, ast.Name) and recv.id in pkg.mro(dc)[1:] and pkg.resolve(recv.id, mname)[1] is not None:
        return len(call.args) == 2 and isinstance(call.args[0], ast.Name) and call.args[0].id == params[0] and own(call.args[1:])
    return False


def _r2_r5(ctx, rm, pkg):
    n = nsig = 0
    for (cls, mname0), reqs in SIG.items():
        mname = _SURF[0] if mname0 == "_rate_surface" else mname0
        ci = pkg.cls(cls)
        if mname not in ci.methods:
            ctx.missing("R5", f"{cls}.{mname}", (ci.file, ci.node.lineno), "method of the signature table vanished")
            continue
        ctx.saw(ci.file, f"{cls}.{mname}")
        vs = [v for v in rm.variants(cls, mname) if v.kind == "text" and v.defined_in == cls]
        if not vs:
            ctx.unrec("R5", f"{cls}.{mname}", (ci.file, ci.methods[mname].lineno), "no rate template could be extracted from this method")
            continue
        _TWO[0] = mname == _SURF[0]
        for vi, v in enumerate(vs):
            n += 1
            txt = v.text
            roles = set()
            unknown = []
            names = {}
            for h, ir in v.holes.items():
                nm, role = name_hole(ir)
                if role:
                    roles.add(role)
                if nm is None:
                    unknown.append(show(ir)[:70])
                    nm = "UNKNOWN"
                names[h] = nm
            txt = re.sub(r"H\d+_", lambda m: names.get(m.group(0), m.group(0)), txt)
            vkey = f"{cls}.{mname}#{vi}"
            # ---- R2
            bad_roles = [r for r in roles if r == "PRODUCT"]
            # 's' = reactants[0] by position, 'ng' = the unique non-grain reactant.  A reaction WITH a grain among its
            # reactants (GRAIN- + X+) has no fixed reactant order (the naunet writer sorts by name): position is not the ion.
            allowed = {"s1", "s2"} if mname == _SURF[0] else {"ng"} if mname in GRAIN_REACTANT else {"s", "ng"}
            wrong = [r for r in roles if r not in allowed and r != "PRODUCT"]
            if unknown and not bad_roles and not wrong:
                # a hole that is not understood is not evidence of a wrong species
                ctx.unrec("R2", f"{vkey}:species", (v.file, v.line), f"the template pastes values whose origin is not understood: {unknown}")
                continue
            ctx.check(not bad_roles and not wrong and not unknown, "R2", f"{vkey}:species", (v.file, v.line),
                      f"species data come from {sorted(roles) or 'no species'} = the reacting species" if not (bad_roles or wrong or unknown) else
                      ("a product's data are used in the rate" if bad_roles else
                       "the species is taken by POSITION in a reaction whose reactants include the grain: listed grain-first, the grain's mass number (0) enters the rate"
                       if mname in GRAIN_REACTANT and wrong == ["s"] else f"unexpected species role {wrong} / unrecognised holes {unknown}"),
                      expected="the non-grain reactant ([s for s in reac.reactants if not s.is_grain])" if mname in GRAIN_REACTANT else "reac.reactants[0] (both reactants for surface reactions)", found=txt[:120])
            if unknown:
                continue
            # ---- R5
            try:
                guards = []
                e = strip_conds(calg.parse(txt), guards)
                c = calg.canon(e)
            except calg.CParseError as ex:
                ctx.unrec("R5", f"{vkey}:syntax", (v.file, v.line), f"the template is not read as a C expression by the checker's parser ({ex}): {txt[:120]}")
                continue
            for req in reqs:
                nsig += 1
                kind = req[0]
                if kind == "all":
                    _, sym, ex = req
                    # RR07 accretion of electrons: mass number 0 -> no A dependence (by table)
                    got = {exp_of(m, sym) for m in c.terms}
                    ok = got == {Fraction(ex)}
                    ctx.check(ok, "R5", f"{vkey}:{sym}^{ex}", (v.file, v.line), f"rate ~ {sym}^{ex}" if ok else f"the law must scale as {sym}^{ex}",
                              expected=f"{sym}^{ex} in every term", found=f"exponents {sorted(map(str, got))} in {txt[:100]}")
                elif kind == "some":
                    want = req[1]
                    ok = any(all(exp_of(m, s) == Fraction(x) for s, x in want.items()) for m in c.terms)
                    ctx.check(ok, "R5", f"{vkey}:term {sorted(want)}", (v.file, v.line), f"a term carries {want}", found=txt[:120])
                elif kind == "exp":
                    ok = all(has_exp_factor(m, req[1]) for m in c.terms)
                    ctx.check(ok, "R5", f"{vkey}:exp({req[1]})", (v.file, v.line), f"Boltzmann factor exp({req[1]})" if ok else f"missing/incorrect Boltzmann factor, expected exp({req[1]})",
                              expected=f"exp({req[1]})", found=txt[:140])
                elif kind == "guard":
                    ok = any(re.search(req[1], g) for g in guards)
                    ctx.check(ok, "R5", f"{vkey}:guard {req[1]}", (v.file, v.line), f"guarded by {req[1]}", found=str(guards))
            # which temperature the law is evaluated at is part of the law: gas temperature for what arrives from the gas
            # (accretion, recombination, electron capture), dust temperature for everything that happens on the surface
            temps = {nm for nm in names.values() if nm in ("R_temperature", "R_dust_temperature")}
            wantT = TEMPS.get("_rate_surface" if mname == _SURF[0] else mname)
            if wantT is not None:
                nsig += 1
                ctx.check(temps <= wantT, "R5", f"{vkey}:temperature", (v.file, v.line),
                          f"evaluated at {sorted(temps) or 'no'} temperature" if temps <= wantT else
                          f"the law uses {sorted(temps - wantT)}: a {'surface' if 'R_dust_temperature' in wantT else 'gas-arrival'} process is evaluated at the "
                          f"{'gas' if 'R_temperature' in temps - wantT else 'dust'} temperature (the two differ by orders of magnitude in the Boltzmann factors whenever Tgas != Tdust)",
                          expected=str(sorted(wantT)), found=str(sorted(temps)))
            # switches of other processes must not appear
            own = {r[1] for r in reqs if r[0] == "all" and r[1] in SWITCHES}
            foreign = [s for s in SWITCHES - own if any(exp_of(m, s) != 0 for m in c.terms)]
            foreign += [s for s in SWITCH_LITERALS if any(exp_of(m, s) != 0 for m in c.terms)]
            ctx.check(not foreign, "R5", f"{vkey}:own-switch-only", (v.file, v.line), "only the process's own model switch multiplies the rate" if not foreign else
                      f"the switch of another process multiplies this rate: {foreign}", found=txt[:100] if foreign else None)
            # default yields
            if (cls, mname) in DEFAULT_YIELD:
                ds = [ir for ir in v.holes.values() if (ir[1] if ir[0] == "fmt" else ir)[0] == "bool"]
                dv = [(x[1] if x[0] == "fmt" else x)[2][1][1] for x in ds]
                if dv:
                    ctx.check(dv == [DEFAULT_YIELD[(cls, mname)]], "R5", f"{vkey}:default-yield", (v.file, v.line),
                              f"species without a tabulated yield use the model's default {DEFAULT_YIELD[(cls, mname)]}", found=str(dv))
                else:
                    ctx.unrec("R5", f"{vkey}:default-yield", (v.file, v.line), "cannot see which yield a species without a tabulated one gets (no `<yield> or <default>` in the template)")
    ctx.floor("R5", "grain rate templates", n, 20)
    ctx.floor("R5", "signature requirements", nsig, 60)
    # RR07 accretion arms: electron arm has no mass dependence, the other arms have T^(1/2) A^(-1/2)
    _TWO[0] = False
    vs = [v for v in rm.variants("RR07Grain", "rate_depletion") if v.kind == "text"]
    from ..valueflow import guards_satisfiable
    for v in vs:
        # (the conditions of an arm: those on the path to the return, and those of the conditional EXPRESSION the text was chosen by)
        vconds = tuple(v.conds) + tuple((c_, p_) for c_, p_ in v.assume.items() if (c_, p_) not in v.conds)
        if not guards_satisfiable(vconds):
            continue        # a combination of conditions no species satisfies (e.g. electron and not electron)
        # `<the accreting species>.is_electron`, however that species is picked (position 0, unpacking, the non-grain reactant)
        elec = {x for c_, _ in vconds for x in walk(c_) if isinstance(x, tuple) and len(x) == 3 and x[0] == "attr" and x[2] == "is_electron" and species_role(x[1]) in ("s", "ng")}
        el = any(not guards_satisfiable(vconds, [(a, False)]) for a in elec)      # the conditions of this arm force the electron
        non_el = any(not guards_satisfiable(vconds, [(a, True)]) for a in elec)   # ... or exclude it
        names = {h: (name_hole(ir)[0] or "UNKNOWN") for h, ir in v.holes.items()}
        if "UNKNOWN" in names.values() or not (el or non_el):
            # a pasted value that is not understood, or an arm that is not seen to be (or not to be) the electron's: its mass
            # dependence is not judged
            ctx.unrec("R5", f"RR07Grain.rate_depletion:arm@{v.line}", (v.file, v.line), "cannot tell whether this arm of the accretion law is the electron's / which values it pastes: "
                      + "; ".join(show(c_)[:50] for c_, _ in vconds)[:160])
            continue
        txt = re.sub(r"H\d+_", lambda m: names.get(m.group(0), m.group(0)), v.text)
        try:
            c = calg.canon_str(txt)
        except calg.CParseError:
            continue
        exps = {(exp_of(m, "A_s")) for m in c.terms}
        if el:
            ctx.check(exps == {Fraction(0)}, "R5", "RR07Grain.rate_depletion:electron arm", (v.file, v.line), "electron accretion (mass number 0) has no mass-number factor", found=txt[:100])
        else:
            texps = {exp_of(m, "R_temperature") - exp_of(m, "A_s") for m in c.terms}
            ctx.check(exps == {Fraction(-1, 2)}, "R5", f"RR07Grain.rate_depletion:A_s^-1/2:{'neutral' if any('charge' in show(c2) and p for c2, p in vconds) else 'ion'}", (v.file, v.line),
                      "accretion ~ (T/A_s)^(1/2) of the accreting species", expected="A_s^-1/2", found=f"{sorted(map(str, exps))} in {txt[:100]}")


def _yields_as_display(fn):
    """a generator whose body is nothing but `yield e1; yield e2; ..` produces, lazily and in this order, the elements of the display
    (e1, e2, ..): -> a copy of the function returning that tuple (for rules that only ask in which ORDER the values are consulted)"""
    import copy
    body = [st for st in fn.body if not (isinstance(st, ast.Expr) and isinstance(st.value, ast.Constant))]
    if not body or not all(isinstance(st, ast.Expr) and isinstance(st.value, ast.Yield) and st.value.value is not None for st in body):
        return fn
    new = copy.copy(fn)
    new.body = [ast.copy_location(ast.Return(value=ast.Tuple(elts=[copy.deepcopy(st.value.value) for st in body], ctx=ast.Load())), body[0])]
    return ast.fix_missing_locations(new)


def _first_truthy(v):
    """`next(filter(None, (a, b, c)), d)` / `next((x for x in (a, b, c) if x), d)` -- the first truthy of a, b, c, else d -- is the
    chain `a or b or c or d` (same operands consulted in the same order, stopping at the same one)"""
    if not isinstance(v, tuple):
        return v
    v = tuple(_first_truthy(x) if isinstance(x, tuple) else x for x in v)
    if len(v) == 4 and v[0] == "call" and v[1] == ("global", "next") and len(v[2]) in (1, 2) and not v[3]:
        src, seq = v[2][0], None
        if src[0] == "call" and src[1] == ("global", "filter") and len(src[2]) == 2 and src[2][0] in (("const", None), ("global", "bool")):
            seq = src[2][1]
        elif src[0] == "comp" and src[1] in ("gen", "list") and len(src[3]) == 1 and src[3][0][0] == src[2] and src[3][0][2] == (src[2],):
            seq = src[3][0][1]
        if seq is not None and seq[0] == "call" and seq[1] in (("global", "iter"), ("global", "list"), ("global", "tuple")) and len(seq[2]) == 1:
            seq = seq[2][0]
        if seq is not None and seq[0] in ("tuple", "list") and seq[1] and not any(e[0] == "star" for e in seq[1]):
            d = v[2][1] if len(v[2]) == 2 else None
            parts = tuple(seq[1]) + ((d,) if d is not None and not (d[0] == "const" and not d[1]) else ())
            return parts[0] if len(parts) == 1 else ("bool", "Or", parts)
    return v


def _r3(ctx, pkg):
    ci = pkg.cls("Species")
    ctx.saw(SPECIES, "Species.binding_energy")
    for prop, attr, table, user, must_raise in (("binding_energy", "_binding_energy", "rate12_binding_energy", "user_binding_energy", True),
                                                ("photon_yield", "_photon_yield", None, "user_photon_yield", False)):
        fn = ci.methods.get(prop)
        if fn is None:
            ctx.missing("R3", f"Species.{prop}", (SPECIES, 0), "property vanished")
            continue
        # private helper methods of Species the getter delegates the lookup to are read as part of it
        def helper(name):
            g = pkg.resolve("Species", name)[1] if name.startswith("_") and not name.startswith("__") else None
            return _yields_as_display(g) if g is not None and any(isinstance(x, (ast.Yield, ast.YieldFrom)) for x in ast.walk(g)) else g
        fl = Flow(fn, SPECIES, resolver=helper)
        # no write to self.<attr> inside the getter (nor inside a private helper it calls)
        from .c09 import method_closure
        writes = [f for f in fl.facts if f.kind == "attrstore" and f.extra.get("obj") == SELF]
        for h in method_closure(pkg, "Species", fn)[1:]:
            if not any(ast.unparse(d) in ("property", "cached_property", "functools.cached_property") or isinstance(d, ast.Attribute) for d in h.decorator_list):
                writes += [f for f in Flow(h, SPECIES).facts if f.kind == "attrstore" and f.extra.get("obj") == SELF and f.target == attr]
        ctx.check(not writes, "R3", f"Species.{prop}:no-caching", (SPECIES, writes[0].line if writes else fn.lineno),
                  "the getter does not store the looked-up value in the instance (a later user override / table update is honoured)" if not writes else
                  f"the getter assigns self.{writes[0].target}: the first looked-up value is frozen and later user overrides are ignored")
        # lookup order, read off the return facts whatever the spelling (one `or` chain, guard clauses with early returns, a mix):
        # the sources a return has tried are the conditions that were FALSE on its path followed by the operands of the returned
        # `or` chain; each must be the first k of (explicit value, user table, built-in table), and some return tries them all
        def kind_of(x, attr=attr, user=user, table=table):
            if x == ("attr", SELF, attr):
                return "explicit"
            names = {y[2] for y in walk(x) if isinstance(y, tuple) and len(y) == 3 and y[0] == "attr"} | \
                    {y[1] for y in walk(x) if isinstance(y, tuple) and len(y) == 2 and y[0] == "global"}
            if user in names:
                return "user"
            if table and table in names:
                return "table"
            return None

        def falsy(g):
            """source a guard declares empty: (x, False) / (x is None, True) / (x == None, True)"""
            c, pol = norm_guard(g)
            if c[0] == "cmp" and c[1] in (("Is",), ("Eq",)) and len(c[2]) == 2 and c[2][1] == ("const", None):
                c, pol = c[2][0], not pol
            return c if not pol else None
        want = ["explicit", "user"] + (["table"] if table else [])
        rets = [f for f in fl.facts if f.kind == "return" and f.value is not None]
        chains, opaque = [], []
        for f in rets:
            v = _first_truthy(simp(f.value))
            tried = [c for g in f.guards for sg in split_guard((_first_truthy(simp(g[0])), g[1])) for c in [falsy(sg)] if c is not None]
            tried = [c for c in tried if kind_of(c)]
            parts = list(v[2]) if v[0] == "bool" and v[1] == "Or" else [v]
            opaque += [show(x)[:50] for x in parts if kind_of(x) is None]
            chains.append([kind_of(x) for x in tried + parts if kind_of(x)])
        found = "; ".join(" -> ".join(c) for c in chains)
        # a source tested and then returned (or tested twice) counts once, at its first consultation
        dedup = [[k for i, k in enumerate(c) if k not in c[:i]] for c in chains]
        misordered = [c for c in dedup if c != want[:len(c)]]
        complete = any(c == want for c in dedup)
        key_ = f"Species.{prop}:lookup-order"
        if misordered:
            ctx.bad("R3", key_, (SPECIES, fn.lineno), f"a source of lower priority is consulted before one of higher priority ({' -> '.join(misordered[0])})",
                    expected=f"self.{attr} or {user}.get(..) or <built-in>", found=found)
        elif complete:
            ctx.ok("R3", key_, (SPECIES, fn.lineno), "explicit value, then the user table, then the built-in table")
        elif opaque or not rets:
            ctx.unrec("R3", key_, (SPECIES, fn.lineno), f"cannot tell which sources the getter consults: returned {opaque or 'nothing'}")
        else:
            ctx.bad("R3", key_, (SPECIES, fn.lineno), f"no return consults all of {want}", expected=f"self.{attr} or {user}.get(..) or <built-in>", found=found)
        if must_raise:
            raises = [f for f in fl.facts if f.kind == "raise"]
            left = [x[2] for f in fl.facts if f.value is not None for x in walk(simp(f.value)) if isinstance(x, tuple) and len(x) == 5 and x[0] == "meth" and x[1] == SELF]
            left += [c.func.id for c in ast.walk(fn) if isinstance(c, ast.Call) and isinstance(c.func, ast.Name) and (SPECIES, c.func.id) in pkg.functions]
            if raises or not left:
                ctx.check(bool(raises), "R3", f"Species.{prop}:raises", (SPECIES, fn.lineno), "a surface species without any binding energy is refused with an error")
            else:
                ctx.unrec("R3", f"Species.{prop}:raises", (SPECIES, fn.lineno), f"no raise is visible in the getter; it may sit in {sorted(set(left))}, which is not read")


HH = "naunet/grains/hh93grain.py"
RR = "naunet/grains/rr07grain.py"
GR = "naunet/grains/grain.py"
_EB_CHAIN = "        eb = (\n            self._binding_energy\n            or chemistrydata.user_binding_energy.get(self.name)\n            or chemistrydata.rate12_binding_energy.get(self.gasname)\n        )\n"
MUTANTS = [
    {"name": "tunnelling-by-mass", "file": "naunet/grains/hh93grain.py", "old": '        elif re1.name in ["GH", "GH2"]:', "new": '        elif re1.A <= 2:', "rules": ["R12"]},
    {"name": "tunnelling-list-widened", "file": "naunet/grains/hh93grain.py", "old": '        elif re2.name in ["GH", "GH2"]:', "new": '        elif re2.name in ["GH", "GH2", "GD"]:', "rules": ["R12"]},
    {"name": "binding-energy-user-table-before-explicit", "file": SPECIES, "old": _EB_CHAIN,
     "new": "        eb = (\n            chemistrydata.user_binding_energy.get(self.name)\n            or self._binding_energy\n            or chemistrydata.rate12_binding_energy.get(self.gasname)\n        )\n", "rules": ["R3"]},
    {"name": "binding-energy-guard-clauses-table-before-user", "file": SPECIES, "old": _EB_CHAIN,
     "new": "        if self._binding_energy:\n            return self._binding_energy\n        tab = chemistrydata.rate12_binding_energy.get(self.gasname)\n        if tab:\n            return tab\n        eb = chemistrydata.user_binding_energy.get(self.name)\n", "rules": ["R3"]},
    {"name": "binding-energy-user-table-skipped", "file": SPECIES, "old": _EB_CHAIN,
     "new": "        eb = (\n            self._binding_energy\n            or chemistrydata.rate12_binding_energy.get(self.gasname)\n        )\n", "rules": ["R3"]},
    {"name": "create-species-copies-instances", "file": "naunet/component.py", "old": "        if isinstance(species_name, Species):\n            return species_name\n", "new": "        if isinstance(species_name, Species):\n            return __import__('copy').copy(species_name)\n", "rules": ["R8"]},
    {"name": "renderer-swallows-not-implemented", "file": "naunet/templateloader.py", "old": "            rateexprs = [\n                reac.rateexpr(grain_dict.get(reac.grain_group)) for reac in reactions\n            ]", "new": "            rateexprs = []\n            for reac in reactions:\n                try:\n                    rateexprs.append(reac.rateexpr(grain_dict.get(reac.grain_group)))\n                except NotImplementedError:\n                    rateexprs.append('0.0')", "rules": ["R9"]},
    {"name": "binding-table-key-truncated", "file": "naunet/chemistrydata/__init__.py", "old": "                binding_energy.update({elem: float(eb)})", "new": "                binding_energy.update({elem.rstrip('+-'): float(eb)})", "rules": ["R7"]},
    {"name": "binding-table-third-column", "file": "naunet/chemistrydata/__init__.py", "old": "                elem, eb, *other = line.split()", "new": "                elem, _, eb, *other = line.split()", "rules": ["R7"]},
    {"name": "surface-barrier-at-gas-temperature", "file": HH, "old": '        kappa = f"exp(-{a}/{tdust})"', "new": '        kappa = f"exp(-{a}/{reac.symbols.temperature.symbol})"', "rules": ["R5"]},
    {"name": "eb-const-rounded", "file": CONST_C, "old": "{{ s.eb }}", "new": '{{ "%.1f" | format(s.eb) }}', "rules": ["R6"]},
    {"name": "eb-const-int", "file": CONST_C, "old": "{{ s.eb }}", "new": "{{ s.eb | int }}", "rules": ["R6"]},
    {"name": "eb-const-not-for-all-ice", "file": CONST_C, "old": '{% for s in network.species | selectattr("is_surface") -%}\n{{ spec }} double eb_', "new": '{% for s in network.species | selectattr("is_surface") | rejectattr("is_atom") -%}\n{{ spec }} double eb_', "rules": ["R6"]},
    {"name": "recombination-ion-by-position", "file": "naunet/grains/hh93grain.py", "old": "        [spec] = [s for s in reac.reactants if not s.is_grain]\n", "new": "        spec = reac.reactants[0]\n", "rules": ["R2"]},
    {"name": "spec-from-products", "file": HH, "old": "        spec = reac.reactants[0]\n        rate = \" * \".join(\n            [\n                f\"{opt_thd} * {cov}\",", "new": "        spec = reac.products[0]\n        rate = \" * \".join(\n            [\n                f\"{opt_thd} * {cov}\",", "rules": ["R2"]},
    {"name": "base-returns-empty", "file": GR, "old": "            raise ValueError(\"Number of species in H2 desoprtion should be 1.\")\n\n        return NotImplemented", "new": "            raise ValueError(\"Number of species in H2 desoprtion should be 1.\")\n\n        return \"\"", "rules": ["R1"]},
    {"name": "super-call-removed", "file": RR, "old": "    def rate_h2_desorption(self, reac: Reaction) -> str:\n        super().rate_h2_desorption(reac)\n", "new": "    def rate_h2_desorption(self, reac: Reaction) -> str:\n", "rules": ["R1"]},
    {"name": "boltzmann-sign", "file": HH, "old": 'f"exp(-eb_{spec.alias}/({tdust}))"', "new": 'f"exp(eb_{spec.alias}/({tdust}))"', "rules": ["R5"]},
    {"name": "attempt-frequency-sqrt-dropped", "file": HH, "old": 'f"sqrt(2.0*{sites}*kerg*eb_{spec.alias}/(pi*pi*amu*{spec.A}))",\n                f"exp(-eb_{spec.alias}/({tdust}))"', "new": 'f"(2.0*{sites}*kerg*eb_{spec.alias}/(pi*pi*amu*{spec.A}))",\n                f"exp(-eb_{spec.alias}/({tdust}))"', "rules": ["R5"]},
    {"name": "mass-in-numerator", "file": GR, "old": 'f"sqrt(8.0 * kerg * {tgas}/ (pi*amu*{spec.A}))"', "new": 'f"sqrt(8.0 * kerg * {tgas} * {spec.A}/ (pi*amu))"', "rules": ["R5"]},
    {"name": "foreign-switch", "file": HH, "old": 'rate = f"{opt_uvd} * {cov} * ({sym_phot})', "new": 'rate = f"{opt_uvd} * opt_crd * {cov} * ({sym_phot})', "rules": ["R2", "R5"]},
    {"name": "crd-not-linear-in-zeta", "file": RR, "old": '                f"({crrate} / {zism})",\n                f"1.64e-4 * {gxsec} / {mant}",', "new": '                f"sqrt({crrate} / {zism})",\n                f"1.64e-4 * {gxsec} / {mant}",', "rules": ["R5"]},
    {"name": "crd-const-folded-guard", "file": RR, "old": '        rate = f"{eb_crd} >= {spec.binding_energy} ? ({rate}) : 0.0"\n        rate = f"{mantabund} > 1e-30 ? ({rate}) : 0.0"\n        return rate\n\n    def rate_h2_desorption', "new": '        rate = f"({rate})" if 1.21e3 >= spec.binding_energy else "0.0"\n        rate = f"{mantabund} > 1e-30 ? ({rate}) : 0.0"\n        return rate\n\n    def rate_h2_desorption', "rules": ["R5"]},
    {"name": "binding-energy-cached", "file": SPECIES, "old": "    def binding_energy(self) -> float:\n", "new": "    def binding_energy(self) -> float:\n        if self._binding_energy is None:\n            self._binding_energy = chemistrydata.user_binding_energy.get(self.name)\n", "rules": ["R3"]},
    {"name": "notimplemented-swallowed", "file": GR, "old": "        if rate is NotImplemented:\n            raise NotImplementedError(", "new": "        if rate is NotImplemented:\n            return \"0.0\"\n            raise NotImplementedError(", "rules": ["R1"]},
    {"name": "yield-default-changed", "file": RR, "old": "{spec.photon_yield or 0.1}", "new": "{spec.photon_yield or 1e-3}", "rules": ["R5"]},
    {"name": "binding-energy-helper-table-before-user", "edits": [
        {"file": SPECIES, "old": _EB_CHAIN, "new": "        eb = self._lookup_eb()\n"},
        {"file": SPECIES, "old": "    @property\n    def binding_energy(self) -> float:\n", "new": "    def _lookup_eb(self):\n        if self._binding_energy:\n            return self._binding_energy\n        tab = chemistrydata.rate12_binding_energy.get(self.gasname)\n        if tab:\n            return tab\n        return chemistrydata.user_binding_energy.get(self.name)\n\n    @property\n    def binding_energy(self) -> float:\n"}], "rules": ["R3"]},
    {"name": "binding-energy-sequential-ifs-user-skipped", "file": SPECIES, "old": _EB_CHAIN, "new": "        eb = self._binding_energy\n        if not eb:\n            eb = chemistrydata.rate12_binding_energy.get(self.gasname)\n", "rules": ["R3"]},
    {"name": "binding-energy-cached-inside-helper", "edits": [
        {"file": SPECIES, "old": _EB_CHAIN, "new": "        eb = self._lookup_eb()\n"},
        {"file": SPECIES, "old": "    @property\n    def binding_energy(self) -> float:\n", "new": "    def _lookup_eb(self):\n        if not self._binding_energy:\n            self._binding_energy = chemistrydata.user_binding_energy.get(self.name) or chemistrydata.rate12_binding_energy.get(self.gasname)\n        return self._binding_energy\n\n    @property\n    def binding_energy(self) -> float:\n"}], "rules": ["R3"]},
    {"name": "notimplemented-guard-clause-inverted", "file": GR, "old": "        if rate is NotImplemented:\n            raise NotImplementedError(\n                f\"The reaction rate function is not implemented in {self.model}\"\n            )\n\n        return rate\n",
     "new": "        if rate is NotImplemented:\n            return rate\n        raise NotImplementedError(f\"The reaction rate function is not implemented in {self.model}\")\n", "rules": ["R1"]},
    {"name": "base-validation-helper-wrong-type", "edits": [
        {"file": GR, "old": "        if reac.reaction_type != ReactionType.GRAIN_FREEZE:\n            raise ValueError(\"The reaction type is not depletion\")\n", "new": "        self._expect_type(reac, ReactionType.GRAIN_DESORB_THERMAL, \"depletion\")\n"},
        {"file": GR, "old": "    def rate_depletion(self, reac: Reaction) -> str:\n", "new": "    def _expect_type(self, reaction, wanted, what):\n        if reaction.reaction_type != wanted:\n            raise ValueError(f\"The reaction type is not {what}\")\n\n    def rate_depletion(self, reac: Reaction) -> str:\n", "count": 1}], "rules": ["R1"]},
    {"name": "create-species-reparses-instances-by-name", "file": "naunet/component.py", "old": '        if isinstance(species_name, Species):\n            return species_name\n\n        if species_name and species_name not in Species.known_pseudoelements():\n            return Species(species_name, **kwargs)\n\n        return None\n', "new": "        if isinstance(species_name, Species):\n            species_name = species_name.name\n        if species_name and species_name not in Species.known_pseudoelements():\n            return Species(species_name, **kwargs)\n\n        return None\n", "rules": ["R8"]},
]
BENIGN = [
    {"name": "binding-energy-guard-clauses", "file": SPECIES, "old": _EB_CHAIN,
     "new": "        own = self._binding_energy\n        if own:\n            return own\n        usr = chemistrydata.user_binding_energy.get(self.name)\n        if usr:\n            return usr\n        eb = chemistrydata.rate12_binding_energy.get(self.gasname)\n"},
    {"name": "photon-yield-guard-clause", "file": SPECIES, "old": "        return self._photon_yield or chemistrydata.user_photon_yield.get(self.name, 0.0)\n",
     "new": "        if self._photon_yield:\n            return self._photon_yield\n        return chemistrydata.user_photon_yield.get(self.name, 0.0)\n"},
    {"name": "dispatch-tail-as-table-scan", "file": GR,
     "old": "        elif rtype == ReactionType.GRAIN_DESORB_REACTIVE:\n            rate = self.rate_reactive_desorption(reac)\n\n        elif rtype == ReactionType.GRAIN_ECAPTURE:\n            rate = self.rate_electron_capture(reac)\n\n        else:\n            raise ValueError(\n                f\"Unknown reaction type in {self.model} dust model: {rtype}\"\n            )\n",
     "new": "        else:\n            builders = (\n                (ReactionType.GRAIN_DESORB_REACTIVE, \"rate_reactive_desorption\"),\n                (ReactionType.GRAIN_ECAPTURE, \"rate_electron_capture\"),\n            )\n            for known_type, builder_name in builders:\n                if rtype == known_type:\n                    rate = getattr(self, builder_name)(reac)\n                    break\n            else:\n                raise ValueError(\n                    f\"Unknown reaction type in {self.model} dust model: {rtype}\"\n                )\n"},
    {"name": "factors-reordered", "file": HH, "old": '                f"{opt_thd} * {cov}",\n                f"{nMono} * {densites}",', "new": '                f"{nMono} * {densites}",\n                f"{cov} * {opt_thd}",'},
    {"name": "sqrt-as-pow", "file": GR, "old": 'f"sqrt(8.0 * kerg * {tgas}/ (pi*amu*{spec.A}))"', "new": 'f"pow(8.0 * kerg * {tgas}/ (pi*amu*{spec.A}), 0.5)"'},
    {"name": "binding-energy-sequential-ifs", "file": SPECIES, "old": _EB_CHAIN, "new": "        eb = self._binding_energy\n        if not eb:\n            eb = chemistrydata.user_binding_energy.get(self.name)\n        if not eb:\n            eb = chemistrydata.rate12_binding_energy.get(self.gasname)\n"},
    {"name": "binding-energy-lookup-helper", "edits": [
        {"file": SPECIES, "old": _EB_CHAIN, "new": "        eb = self._lookup_eb()\n"},
        {"file": SPECIES, "old": "    @property\n    def binding_energy(self) -> float:\n", "new": "    def _lookup_eb(self):\n        if self._binding_energy:\n            return self._binding_energy\n        usr = chemistrydata.user_binding_energy.get(self.name)\n        if usr:\n            return usr\n        return chemistrydata.rate12_binding_energy.get(self.gasname)\n\n    @property\n    def binding_energy(self) -> float:\n"}]},
    {"name": "photon-yield-local-with-fallback", "file": SPECIES, "old": "        return self._photon_yield or chemistrydata.user_photon_yield.get(self.name, 0.0)\n",
     "new": "        phyld = self._photon_yield\n        if not phyld:\n            phyld = chemistrydata.user_photon_yield.get(self.name, 0.0)\n        return phyld\n"},
    {"name": "dispatch-as-class-level-table-scan", "edits": [
        {"file": GR, "old": "        elif rtype == ReactionType.GRAIN_DESORB_REACTIVE:\n            rate = self.rate_reactive_desorption(reac)\n\n        elif rtype == ReactionType.GRAIN_ECAPTURE:\n            rate = self.rate_electron_capture(reac)\n\n        else:\n            raise ValueError(\n                f\"Unknown reaction type in {self.model} dust model: {rtype}\"\n            )\n",
         "new": "        else:\n            for known_type, builder_name in self._late_builders:\n                if rtype == known_type:\n                    rate = getattr(self, builder_name)(reac)\n                    break\n            else:\n                raise ValueError(\n                    f\"Unknown reaction type in {self.model} dust model: {rtype}\"\n                )\n"},
        {"file": GR, "old": "    def rateexpr(self, reac: Reaction) -> str:\n", "new": "    _late_builders = (\n        (ReactionType.GRAIN_DESORB_REACTIVE, \"rate_reactive_desorption\"),\n        (ReactionType.GRAIN_ECAPTURE, \"rate_electron_capture\"),\n    )\n\n    def rateexpr(self, reac: Reaction) -> str:\n"}]},
    {"name": "notimplemented-guard-clause", "file": GR, "old": "        if rate is NotImplemented:\n            raise NotImplementedError(\n                f\"The reaction rate function is not implemented in {self.model}\"\n            )\n\n        return rate\n",
     "new": "        if rate is not NotImplemented:\n            return rate\n        raise NotImplementedError(f\"The reaction rate function is not implemented in {self.model}\")\n"},
    {"name": "base-validation-in-helper", "edits": [
        {"file": GR, "old": "        if reac.reaction_type != ReactionType.GRAIN_FREEZE:\n            raise ValueError(\"The reaction type is not depletion\")\n", "new": "        self._expect_type(reac, ReactionType.GRAIN_FREEZE, \"depletion\")\n"},
        {"file": GR, "old": "    def rate_depletion(self, reac: Reaction) -> str:\n", "new": "    def _expect_type(self, reaction, wanted, what):\n        if reaction.reaction_type != wanted:\n            raise ValueError(f\"The reaction type is not {what}\")\n\n    def rate_depletion(self, reac: Reaction) -> str:\n", "count": 1}]},
    {"name": "super-call-explicit-base", "file": RR, "old": "    def rate_h2_desorption(self, reac: Reaction) -> str:\n        super().rate_h2_desorption(reac)\n", "new": "    def rate_h2_desorption(self, reac: Reaction) -> str:\n        Grain.rate_h2_desorption(self, reac)\n"},
    {"name": "create-species-if-else", "file": "naunet/component.py", "old": '        if isinstance(species_name, Species):\n            return species_name\n\n        if species_name and species_name not in Species.known_pseudoelements():\n            return Species(species_name, **kwargs)\n\n        return None\n', "new": "        if not isinstance(species_name, Species):\n            if species_name and species_name not in Species.known_pseudoelements():\n                return Species(species_name, **kwargs)\n            return None\n        return species_name\n"},
    {"name": "eb-const-name-through-set", "file": CONST_C, "old": "double eb_{{ s.alias }}", "new": "{% set ice = s.alias -%}\ndouble eb_{{ ice }}", "count": 1},
    {"name": "binding-table-tokens-by-index", "file": "naunet/chemistrydata/__init__.py", "old": "                elem, eb, *other = line.split()\n                binding_energy.update({elem: float(eb)})", "new": "                parts = line.split(None, 2)\n                binding_energy[parts[0]] = float(parts[1])"},
    {"name": "single-reactant-by-unpacking", "file": HH, "old": "        spec = reac.reactants[0]\n        rate = \" * \".join(\n            [\n                f\"{opt_thd} * {cov}\",", "new": "        (spec,) = reac.reactants\n        rate = \" * \".join(\n            [\n                f\"{opt_thd} * {cov}\","},
    {"name": "surface-reactants-by-index", "file": HH, "old": "        re1, re2 = reac.reactants\n", "new": "        re1 = reac.reactants[0]\n        re2 = reac.reactants[1]\n"},
    {"name": "tunnelling-test-as-equalities", "file": HH, "old": '        elif re1.name in ["GH", "GH2"]:', "new": '        elif re1.name == "GH" or re1.name == "GH2":'},
]

_MASS_INIT = "        self._massnumber = 0.0\n        for e in chemistrydata.periodic_table + chemistrydata.isotopes_table:\n"
_CAND = "    def _eb_candidates(self):\n        yield %s\n        yield %s\n        yield chemistrydata.rate12_binding_energy.get(self.gasname)\n\n    @property\n    def binding_energy(self) -> float:\n"
_OWN, _USR = "self._binding_energy", "chemistrydata.user_binding_energy.get(self.name)"
_ONLY_FOR = ("def _only_for(rtype, process):\n    def decorate(builder):\n        def checked(self, reac):\n            if reac.reaction_type != rtype:\n"
             "                raise ValueError(f\"The reaction type is not {process}\")\n            return builder(self, reac)\n        return checked\n    return decorate\n\n\nclass Grain(Component):\n")


def _decorated(member):
    return [{"file": GR, "old": "class Grain(Component):\n", "new": _ONLY_FOR},
            {"file": GR, "old": "    def rate_depletion(self, reac: Reaction) -> str:\n        if reac.reaction_type != ReactionType.GRAIN_FREEZE:\n            raise ValueError(\"The reaction type is not depletion\")\n",
             "new": f"    @_only_for(ReactionType.{member}, \"depletion\")\n    def rate_depletion(self, reac: Reaction) -> str:\n"}]


MUTANTS += [
    {"name": "massnumber-from-table-by-gasname", "file": SPECIES, "old": _MASS_INIT,
     "new": "        tabulated = chemistrydata.rate12_binding_energy.get(self.gasname)\n        if tabulated:\n            self._massnumber = tabulated\n            return self._massnumber\n" + _MASS_INIT, "rules": ["R13"]},
    {"name": "binding-energy-candidates-generator-user-first", "edits": [
        {"file": SPECIES, "old": _EB_CHAIN, "new": "        eb = next(filter(None, self._eb_candidates()), None)\n"},
        {"file": SPECIES, "old": "    @property\n    def binding_energy(self) -> float:\n", "new": _CAND % (_USR, _OWN)}], "rules": ["R3"]},
    {"name": "type-validation-decorator-wrong-type", "edits": _decorated("GRAIN_DESORB_THERMAL"), "rules": ["R1"]},
]
BENIGN += [
    {"name": "binding-energy-candidates-generator", "edits": [
        {"file": SPECIES, "old": _EB_CHAIN, "new": "        eb = next(filter(None, self._eb_candidates()), None)\n"},
        {"file": SPECIES, "old": "    @property\n    def binding_energy(self) -> float:\n", "new": _CAND % (_OWN, _USR)}]},
    {"name": "type-validation-decorator", "edits": _decorated("GRAIN_FREEZE")},
    {"name": "massnumber-local-accumulator", "file": SPECIES,
     "old": "        self._massnumber = 0.0\n        for e in chemistrydata.periodic_table + chemistrydata.isotopes_table:\n            self._massnumber += self.element_count.get(e.Symbol, 0) * (\n                float(e.NumberofNeutrons) + float(e.NumberofProtons)\n            )\n",
     "new": "        total = 0.0\n        for e in chemistrydata.periodic_table + chemistrydata.isotopes_table:\n            total += self.element_count.get(e.Symbol, 0) * (\n                float(e.NumberofNeutrons) + float(e.NumberofProtons)\n            )\n        self._massnumber = total\n"},
    {"name": "guard-written-the-other-way-round", "file": RR, "old": 'rate = f"{eb_h2d} >= {spec.binding_energy} ? ({rate}) : 0.0"', "new": 'rate = f"{spec.binding_energy} <= {eb_h2d} ? ({rate}) : 0.0"'},
]


# ------------------------------------------------------------------ R12  who tunnels (HH93)

TUNNELLING = {"GH", "GH2"}       # Hasegawa & Herbst 1993: quantum tunnelling for atomic and molecular hydrogen on the surface, nothing else


def _r12_tunnelling(ctx, pkg):
    """In the HH93 surface rate the quantum terms (diffusion by tunnelling, tunnelling through the activation barrier) are switched on
    by WHICH species reacts: surface H and H2.  Every condition that guards a term built with the quantum factor is a membership test
    of a reactant's name in a list within {GH, GH2} -- a test on the mass number lets deuterium (A = 2) tunnel, a wider list lets
    heavier species tunnel."""
    import ast as _ast
    HF = "naunet/grains/hh93grain.py"
    ci = pkg.cls("HH93Grain")
    meths = {k: fn for k, fn in ci.methods.items() if isinstance(fn, _ast.FunctionDef)}
    # (each method read with the private helpers it was split into put back -- the shared surface helper and the public rate_* methods
    # stay calls: the quantum factor read in an extracted block is still read by the method the block came from)
    keep = tuple(sorted({k for k in meths if k.startswith("rate_")} | {_SURF[0]}))
    for k in list(meths):
        try:
            meths[k] = pkg.expanded("HH93Grain", k, keep=keep)
        except Exception:
            pass
    uses_q = {k for k, fn in meths.items() if any(isinstance(n, _ast.Attribute) and n.attr == "quantum_diffusion_rate_factor" for n in _ast.walk(fn))}
    if not uses_q:
        ctx.unrec("R12", "HH93:tunnelling species", (HF, ci.node.lineno), "no method of HH93Grain reads the quantum diffusion factor")
        return
    # methods reached from those (selection helpers)
    todo, scope = list(uses_q), set(uses_q)
    while todo:
        k = todo.pop()
        for n in _ast.walk(meths[k]):
            if isinstance(n, _ast.Call) and isinstance(n.func, _ast.Attribute) and isinstance(n.func.value, _ast.Name) and n.func.value.id in ("self", "cls") and n.func.attr in meths \
                    and n.func.attr not in scope and not n.func.attr.startswith("rate_"):
                scope.add(n.func.attr)
                todo.append(n.func.attr)
    n_ok = 0
    for k in sorted(scope):
        fn = meths[k]
        conds = []
        for n in _ast.walk(fn):
            if isinstance(n, (_ast.If, _ast.IfExp, _ast.While)):
                conds.append(n.test)
            elif isinstance(n, _ast.comprehension):
                conds += n.ifs
            elif isinstance(n, _ast.Return) and n.value is not None and isinstance(n.value, (_ast.Compare, _ast.BoolOp)) and k not in uses_q:
                conds.append(n.value)          # a predicate helper: what it returns IS the condition
            elif isinstance(n, _ast.Call):
                # a test handed over as an argument (`_Reactant(eb, mass, re1.name in ["GH", "GH2"])`): decided where it is read
                conds += [a for a in list(n.args) + [kw.value for kw in n.keywords] if isinstance(a, (_ast.Compare, _ast.BoolOp))]
        atoms = []
        for c in conds:
            todo_ = [c]
            while todo_:
                x = todo_.pop()
                if isinstance(x, _ast.BoolOp):
                    todo_ += x.values
                elif isinstance(x, _ast.UnaryOp) and isinstance(x.op, _ast.Not):
                    todo_.append(x.operand)
                elif isinstance(x, _ast.Call) and isinstance(x.func, _ast.Name) and x.func.id in ("any", "all") and x.args and isinstance(x.args[0], (_ast.GeneratorExp, _ast.ListComp)):
                    todo_.append(x.args[0].elt)
                elif isinstance(x, _ast.Name):
                    # a named test: `light1 = re1.name in [...]` ... `x if light1 else y`
                    loc = [y.value for y in _ast.walk(fn) if isinstance(y, _ast.Assign) and len(y.targets) == 1 and isinstance(y.targets[0], _ast.Name) and y.targets[0].id == x.id]
                    if len(loc) == 1 and isinstance(loc[0], (_ast.Compare, _ast.BoolOp, _ast.UnaryOp, _ast.Call)):
                        todo_.append(loc[0])
                else:
                    atoms.append(x)
        for a in atoms:
            src = _ast.unparse(a)
            if isinstance(a, _ast.Compare) and len(a.ops) == 1 and isinstance(a.ops[0], (_ast.Eq, _ast.NotEq)) and isinstance(a.left, _ast.Attribute) \
                    and isinstance(a.comparators[0], _ast.Constant) and isinstance(a.comparators[0].value, str):
                # `x.name == "GH"` is `x.name in ["GH"]`
                a = _ast.copy_location(_ast.Compare(left=a.left, ops=[_ast.In()], comparators=[_ast.copy_location(_ast.List(elts=[a.comparators[0]], ctx=_ast.Load()), a)]), a)
            if isinstance(a, _ast.Compare) and len(a.ops) == 1 and isinstance(a.ops[0], (_ast.In, _ast.NotIn)) and isinstance(a.left, _ast.Attribute) and a.left.attr in ("name", "basename", "gasname", "alias"):
                lst = a.comparators[0]
                if isinstance(lst, _ast.Name):
                    loc = [x.value for x in _ast.walk(fn) if isinstance(x, _ast.Assign) and len(x.targets) == 1 and isinstance(x.targets[0], _ast.Name) and x.targets[0].id == lst.id]
                    if len(loc) == 1:
                        lst = loc[0]
                if isinstance(lst, (_ast.Attribute, _ast.Name)):
                    nm = lst.attr if isinstance(lst, _ast.Attribute) else lst.id
                    _, val = pkg.resolve_attr("HH93Grain", nm)
                    if val is None:
                        val = next((x.value for x in pkg.modules[HF].body if isinstance(x, _ast.Assign) and isinstance(x.targets[0], _ast.Name) and x.targets[0].id == nm), None)
                    lst = val if val is not None else lst
                try:
                    names = set(_ast.literal_eval(lst))
                except Exception:
                    ctx.unrec("R12", f"HH93Grain.{k}:tunnelling species", (HF, a.lineno), f"cannot read the list of tunnelling species: {src[:80]}")
                    continue
                ok = a.left.attr == "name" and names <= TUNNELLING and bool(names)
                n_ok += ok
                ctx.check(ok, "R12", f"HH93Grain.{k}:tunnelling species", (HF, a.lineno), "tunnelling is switched on for surface H and H2 by name" if ok else
                          f"the species that tunnel are selected by `{src}`: Hasegawa & Herbst 1993 let only atomic and molecular hydrogen (GH, GH2) tunnel -- a heavier species (or an ion / isotopologue "
                          "sharing the basename) gets the quantum diffusion and barrier terms", expected="<reactant>.name in ['GH', 'GH2']", found=src[:100])
            elif any(isinstance(x, _ast.Attribute) and x.attr in ("A", "massnumber", "mass", "n_atoms", "element_count") for x in _ast.walk(a)) and isinstance(a, _ast.Compare):
                ctx.bad("R12", f"HH93Grain.{k}:tunnelling species", (HF, a.lineno),
                        f"the species that tunnel are selected by mass / composition (`{src}`): atomic deuterium (A = 2) and every other species passing the test get the quantum diffusion and "
                        "barrier-tunnelling terms that Hasegawa & Herbst 1993 give to atomic and molecular hydrogen only", expected="<reactant>.name in ['GH', 'GH2']", found=src[:100])
    ctx.floor("R12", "name-based tunnelling selections", n_ok, 1, (HF, ci.node.lineno))


# ---- wave 4: everyday spellings of the eb_ loops, the base validation and the accretion arms
_EB_C = '{% for s in network.species | selectattr("is_surface") -%}\n{{ spec }} double eb_{{ s.alias }} = {{ s.eb }};\n{% endfor %}\n'
_EB_H = '{% for s in network.species | selectattr("is_surface") -%}\nextern {{ spec }} double eb_{{ s.alias }};\n{% endfor %}\n'
BENIGN += [
    {"name": "eb-loop-condition-instead-of-selectattr", "edits": [
        {"file": CONST_C, "old": _EB_C, "new": '{% for ice in network.species if ice.is_surface -%}\n{{ spec }} double eb_{{ ice.alias }} = {{ ice.eb }};\n{% endfor %}\n'},
        {"file": CONST_H, "old": _EB_H, "new": '{% for ice in network.species if ice.is_surface -%}\nextern {{ spec }} double eb_{{ ice.alias }};\n{% endfor %}\n'}]},
    {"name": "eb-if-inside-the-loop", "edits": [
        {"file": CONST_C, "old": _EB_C, "new": '{% for s in network.species -%}\n{% if s.is_surface -%}\n{{ spec }} double eb_{{ s.alias }} = {{ s.eb }};\n{% endif -%}\n{% endfor %}\n'},
        {"file": CONST_H, "old": _EB_H, "new": '{% for s in network.species -%}\n{% if s.is_surface -%}\nextern {{ spec }} double eb_{{ s.alias }};\n{% endif -%}\n{% endfor %}\n'}]},
    {"name": "eb-ice-list-set-once", "file": CONST_C, "old": _EB_C, "new": '{% set ices = network.species | selectattr("is_surface") | list -%}\n{% for ice in ices -%}\n{% set energy = ice.eb -%}\n{{ spec }} double eb_{{ ice.alias }} = {{ energy }};\n{% endfor %}\n'},
    {"name": "base-validation-spelled-is-not", "file": GR, "old": "        if reac.reaction_type != ReactionType.GRAIN_FREEZE:", "new": "        if reac.reaction_type is not ReactionType.GRAIN_FREEZE:"},
    {"name": "rr07-accreting-species-unpacked", "file": RR, "old": "        super().rate_depletion(reac)\n\n        spec = reac.reactants[0]\n", "new": "        _ = super().rate_depletion(reac)\n\n        (spec,) = reac.reactants\n"},
]
MUTANTS += [
    {"name": "eb-only-for-strongly-bound-ices", "file": CONST_C, "old": _EB_C, "new": _EB_C.replace(" -%}\n{{ spec", " if s.eb > 1000 -%}\n{{ spec", 1), "rules": ["R6"]},
    {"name": "eb-for-the-gas-species", "file": CONST_C, "old": _EB_C, "new": _EB_C.replace('selectattr("is_surface")', 'rejectattr("is_surface")'), "rules": ["R6"]},
    {"name": "eb-if-inside-the-loop-negated", "file": CONST_C, "old": _EB_C, "new": '{% for s in network.species -%}\n{% if not s.is_surface -%}\n{{ spec }} double eb_{{ s.alias }} = {{ s.eb }};\n{% endif -%}\n{% endfor %}\n', "rules": ["R6"]},
]
