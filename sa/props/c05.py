"""C05 -- gas-phase rate laws: valid C, total dispatch, agreement with the published law of each database code."""
from __future__ import annotations

import ast
import re

from .. import calg
from ..pymodel import package
from ..ratemodel import model as ratemodel, SELF
from ..valueflow import Flow, show, simp, subst, walk

EXPLANATION = (
    "Over every variant (dispatch arm x truthiness of the optional beta/gamma factors x shielding sub-branch) of rateexpr in Reaction, "
    "KIDAReaction, UMISTReaction, LEEDSReaction, UCLCHEMReaction, extracted by use-def expansion: R1 wherever a coefficient hole (alpha/beta/"
    "gamma) directly follows a literal + or -, the returned string passes through Reaction._beautify, whose table maps ++ -- +- -+ to one "
    "operator of the right sign; R2 every entry of formula2type / code2type / rtype2type / reactant2type reaches a rate template, the grain "
    "delegate or an explicit raise, no defined type silently gets the constant 0.0, and the grain-delegated types of Reaction.rateexpr are "
    "exactly the types Grain.rateexpr dispatches on; R3 the variant reached by composing the class's code table with its dispatch chain is "
    "algebraically equivalent (canonical form over positive reals) to the reference law of that database code, with beta/gamma = 0 where the "
    "code omits the factor; R4 rateexpr / rate_* are not memoised (their result depends on coefficients that __hash__/__eq__ ignore); "
    "R5 the expression of reaction i is assigned to k[i] of the same enumerate position over the unfiltered reaction list (shared with C06.R1); "
    "R8 the list of rate statements has one entry per reaction: no filter / slice on its spine between `reactions` and the positional override rateeqns[idx].")
ASSUMPTIONS = [
    "reference laws are the published formulae transcribed in DESIGN.md Appendix A (KIDA help, McElroy+2013, Walsh+2015, UCLCHEM rates.f90)",
    "floating-point evaluation at extreme magnitudes and repr(float) of inf/nan are not decided",
    "that each literal symbol (zeta, Av, omega, ...) is declared is C10's business",
]
ENGINES = ["pymodel", "valueflow", "calg", "ratemodel"]

KOOIJ = "alpha * pow(Tgas/300.0, beta) * exp(-gamma/Tgas)"
IP1 = "alpha * beta * (0.62 + 0.4767*gamma*sqrt(300.0/Tgas))"
IP2 = "alpha * beta * (1 + 0.0967*gamma*sqrt(300.0/Tgas) + gamma*gamma/10.526*(300.0/Tgas))"
PHOT = "alpha * exp(-gamma*Av)"

# reference laws keyed by the database's own code  (DESIGN Appendix A)
REF = {
    "KIDAReaction": ("formula", "formula2type", {1: "alpha * zeta", 2: PHOT, 3: KOOIJ, 4: IP1, 5: IP2, 6: "RAISE"}),
    "UMISTReaction": ("reaction_type", "code2type", {
        **{c: KOOIJ for c in ("AD", "CD", "CE", "DR", "IN", "MN", "NN", "RA", "REA", "RR")},
        "PH": PHOT, "CP": "alpha", "CR": "alpha * pow(Tgas/300.0, beta) * gamma / (1 - omega)"}),
    "LEEDSReaction": ("rtype", "rtype2type", {
        1: KOOIJ, 2: "alpha * (zeta_cr + zeta_xr) / zism",
        3: "alpha * ((zeta_cr + zeta_xr)/zism) * pow(Tgas/300.0, beta) * gamma / (1 - omega)",
        4: {"plain": "G0 * alpha * exp(-gamma*Av)",
            "shielded": "G0 * alpha * exp(-gamma*Av) * GetShieldingFactor(IDX_R1ALIAS, h2col, R1NAMEcol, Tgas, 0)"},
        5: "UNIMPLEMENTED",
        6: "GRAIN", 7: "GRAIN", 8: "GRAIN", 9: "GRAIN", 10: "GRAIN",
        11: "alpha * ((zeta_cr + zeta_xr)/zism) * pow(Tgas/300.0, beta) * gamma / (1 - omega)",
        12: {"plain": "G0 * alpha * exp(-gamma*Av)",
             "shielded": "G0 * alpha * exp(-gamma*Av) * GetShieldingFactor(IDX_R1ALIAS, h2col, R1NAMEcol, Tgas, 0)"},
        13: "GRAIN", 14: "GRAIN", 20: "GRAIN"}),
    "UCLCHEMReaction": ("reaction_type", "reactant2type", {
        None: KOOIJ, "CRP": "alpha * zeta / zism", "CRPHOT": "alpha * (zeta/zism) * pow(Tgas/300.0, beta) * gamma / (1 - omega)",
        "PHOTON": {"plain": "G0 * alpha * exp(-gamma*Av) / 1.7",
                   "shielded": "2.0e-10 * G0 * GetShieldingFactor(IDX_R1ALIAS, h2col, R1NAMEcol, Tgas, 1) * GetGrainScattering(Av, lambdabar) / 1.7"},
        "FREEZE": "GRAIN", "DESOH2": "GRAIN", "DESCR": "GRAIN", "DEUVCR": "GRAIN", "THERM": "GRAIN",
        "DIFF": "RAISE", "CHEMDES": "RAISE"}),
    "Reaction": ("reaction_type", None, {100: KOOIJ, 101: "alpha * zeta", 102: PHOT, 110: IP1, 111: IP2,
                                         120: "alpha * pow(Tgas/300.0, beta) * gamma / (1 - omega)"}),
}
# which first reactants get the self-shielded photo law (full species names)
SHIELDED = {("LEEDSReaction", 4): ["H2", "CO", "N2"], ("LEEDSReaction", 12): ["GH2", "GCO", "GN2"], ("UCLCHEMReaction", "PHOTON"): ["CO"]}
# ... and the column density each of them is shielded by, for arms written per species (name -> column table)
SHIELD_COLUMN = {("LEEDSReaction", 4): {"H2": "h2col", "CO": "cocol", "N2": "n2col"}, ("LEEDSReaction", 12): {"GH2": "h2col", "GCO": "cocol", "GN2": "n2col"},
                 ("UCLCHEMReaction", "PHOTON"): {"CO": "cocol"}}
GAS_CLASSES = ["Reaction", "KIDAReaction", "UMISTReaction", "LEEDSReaction", "UCLCHEMReaction"]
COEFF = {("attr", SELF, "alpha"): "alpha", ("attr", SELF, "beta"): "beta", ("attr", SELF, "gamma"): "gamma"}


# ------------------------------------------------------------------ dispatch evaluation

_ORD = {"Lt": lambda a, b: a < b, "LtE": lambda a, b: a <= b, "Gt": lambda a, b: a > b, "GtE": lambda a, b: a >= b,
        "Eq": lambda a, b: a == b, "NotEq": lambda a, b: a != b, "Is": lambda a, b: a == b, "IsNot": lambda a, b: a != b}


def eval_cond(rm, cls, cond, dvar, value):
    """Truth of a dispatch condition for dispatch variable `dvar` = value; None if the condition is not about dvar.  Understood:
    (chained) comparisons of the dispatch variable with constants / enum members (== != is < <= > >=, either side), membership in a
    display, a range or the keys of a dict display."""
    def is_dvar(x):
        return x == ("attr", SELF, dvar) or (dvar == "reaction_type" and x == ("attr", ("param", "reac"), "reaction_type")) \
            or (x[0] == "call" and x[1] == ("global", "int") and len(x[2]) == 1 and not x[3] and is_dvar(x[2][0])) \
            or (x[0] == "attr" and x[2] == "value" and is_dvar(x[1]))

    def val(x):
        return value if is_dvar(x) else rm.enum_of_ir(cls, x)
    if cond[0] == "cmp" and len(cond[1]) == 1 and cond[1][0] in ("In", "NotIn"):
        op = cond[1][0]
        l, r = cond[2]
        if is_dvar(l):
            vals = None
            if r[0] in ("list", "tuple", "set"):
                vals = [rm.enum_of_ir(cls, x) for x in r[1]]
            elif r[0] == "dict":
                vals = [rm.enum_of_ir(cls, k_) for k_, _v in r[1]]
            elif r[0] == "call" and r[1] == ("global", "range") and all(a[0] == "const" for a in r[2]):
                vals = list(range(*[a[1] for a in r[2]]))
            elif r[0] == "call" and r[1] in (("global", "frozenset"), ("global", "set"), ("global", "tuple"), ("global", "list")) and len(r[2]) == 1 and not r[3] \
                    and r[2][0][0] in ("list", "tuple", "set"):
                vals = [rm.enum_of_ir(cls, x) for x in r[2][0][1]]
            if vals is None or any(v is None for v in vals):
                return None
            return (value in vals) if op == "In" else (value not in vals)
        return None
    if cond[0] == "cmp" and all(o in _ORD for o in cond[1]) and any(is_dvar(x) for x in cond[2]):
        xs = [val(x) for x in cond[2]]
        if any(x is None for x in xs):
            return None
        try:
            return all(_ORD[o](a, b) for o, a, b in zip(cond[1], xs, xs[1:]))
        except TypeError:
            return None
    return None


def coeff_assumption(cond, pol):
    """A path condition that is a statement about a coefficient being zero: -> (name, is_zero) or None."""
    c = cond
    if c in COEFF:
        return COEFF[c], not pol
    if c[0] == "unop" and c[1] == "Not" and c[2] in COEFF:
        return COEFF[c[2]], pol
    if c[0] == "cmp" and len(c[1]) == 1 and c[2][0] in COEFF and c[2][1][0] == "const" and c[2][1][1] in (0, 0.0):
        if c[1][0] == "Eq":
            return COEFF[c[2][0]], pol
        if c[1][0] == "NotEq":
            return COEFF[c[2][0]], not pol
    return None


def eval3(rm, cls, cond, dvar, value):
    """Three-valued truth of a (possibly compound) dispatch condition for dvar = value: True / False / None (depends on
    something else).  not / and / or are evaluated with Kleene's rules, so `rtype == 5 or rtype in range(15, 20)` is decided
    for every code exactly like the two separate arms it may have been merged from."""
    if cond[0] == "unop" and cond[1] == "Not":
        t = eval3(rm, cls, cond[2], dvar, value)
        return None if t is None else not t
    if cond[0] == "bool":
        vals = [eval3(rm, cls, p, dvar, value) for p in cond[2]]
        if cond[1] == "And":
            return False if any(x is False for x in vals) else True if all(x is True for x in vals) else None
        return True if any(x is True for x in vals) else False if all(x is False for x in vals) else None
    if cond[0] == "const":
        return bool(cond[1])
    return eval_cond(rm, cls, cond, dvar, value)


def arms_for(rm, cls, variants, dvar, value):
    """Variants whose dispatch path is reachable for dvar = value -> [(variant, residual conditions not about dvar)]."""
    out = []
    for v in variants:
        ok = True
        extra = []
        todo = list(v.conds)
        while todo and ok:
            cond, pol = todo.pop(0)
            t = eval3(rm, cls, cond, dvar, value)
            if t is not None:
                if t != pol:
                    ok = False
                continue
            # undecided: split into the parts that are still open
            if cond[0] == "unop" and cond[1] == "Not":
                todo.insert(0, (cond[2], not pol))
                continue
            if cond[0] == "bool":
                conj = (cond[1] == "And") == pol          # (A and B) true / (A or B) false: every part has the polarity
                parts = list(cond[2])
                vals = [eval3(rm, cls, p, dvar, value) for p in parts]
                rest = [p for p, x in zip(parts, vals) if x is None]     # the decided parts are neutral here (else t were decided)
                if conj:
                    todo = [(p, pol) for p in rest] + todo
                elif len(rest) == 1:
                    todo.insert(0, (rest[0], pol))
                else:
                    extra.append(((cond[0], cond[1], tuple(rest)), pol))
                continue
            extra.append((cond, pol))
        if ok:
            out.append((v, extra))
    return out


def name_selection(cond):
    """A condition that selects species by (some view of) their name -> (the tested expression, sorted literal names | None, True when the
    condition holds FOR the listed names).  Understood: `x in [..]` / `x not in (..)`, `x == "CO"` / `x != "CO"` (a one-name list), and an
    `or` of such tests of the same expression.  None for anything else."""
    if cond[0] == "cmp" and len(cond[1]) == 1 and len(cond[2]) == 2:
        op, (lhs, rhs) = cond[1][0], cond[2]
        if "name" not in show(lhs) and "name" in show(rhs) and op in ("Eq", "NotEq"):
            lhs, rhs = rhs, lhs
        if "name" not in show(lhs):
            return None
        if op in ("In", "NotIn"):
            lit = sorted(x[1] for x in rhs[1]) if rhs[0] in ("list", "tuple", "set") and all(x[0] == "const" and isinstance(x[1], str) for x in rhs[1]) else None
            return lhs, lit, op == "In"
        if op in ("Eq", "NotEq") and rhs[0] == "const" and isinstance(rhs[1], str):
            return lhs, [rhs[1]], op == "Eq"
        return None
    if cond[0] == "unop" and cond[1] == "Not":
        inner = name_selection(cond[2])
        return None if inner is None else (inner[0], inner[1], not inner[2])
    if cond[0] == "bool":
        # `x == "A" or x == "B"` selects [A, B];  `x != "A" and x != "B"` (not .. and not ..) is its negation
        parts = [name_selection(p) for p in cond[2]]
        want = cond[1] == "Or"
        if all(p is not None and p[2] == want and p[1] is not None and p[0] == parts[0][0] for p in parts):
            return parts[0][0], sorted({n for p in parts for n in p[1]}), want
    return None


def _about_law(cond) -> bool:
    """residual path conditions that select a sub-law (coefficient is zero / who is self-shielded) rather than the dispatch arm"""
    if coeff_assumption(cond, True) is not None:
        return True
    return name_selection(cond) is not None


def variant_text(v):
    """C text of a variant with coefficient holes named; other holes get descriptive placeholders."""
    txt = v.text
    names = {}
    for h, ir in v.holes.items():
        x = ir[1] if ir[0] == "fmt" and ir[2] is None else ir
        if x in COEFF:
            names[h] = COEFF[x]
        elif x[0] == "attr" and x[2] == "alias":
            names[h] = "R1ALIAS"
        elif x[0] == "sub" and x[1][0] == "attr" and x[1][2] == "alias":
            names[h] = "R1ALIAS"      # alias[1:] of a surface species
        elif x[0] == "meth" and x[2] == "lower":
            names[h] = "R1NAME"
        else:
            names[h] = None
    txt = re.sub(r"H\d+_", lambda m: names.get(m.group(0)) or m.group(0), txt)
    return txt, names


def check(ctx):
    rm = ratemodel(ctx.tree)
    pkg = package(ctx.tree)
    allv = {}
    for cls in GAS_CLASSES:
        ci = pkg.cls(cls)
        ctx.saw(ci.file, f"{cls}.rateexpr")
        allv[cls] = rm.variants(cls)
    nvar = sum(1 for vs in allv.values() for v in vs if v.kind == "text")
    ctx.stats["variants_enumerated"] = nvar
    ctx.floor("R3", "rate template variants", nvar, 40)
    _r1(ctx, rm, pkg, allv)
    _r2_r3(ctx, rm, pkg, allv)
    _r4(ctx, pkg)
    _r8(ctx, pkg)
    # the law of reaction i is what is assigned to k[i] (shared with C06.R1: statement / index / rate expression of the same reaction)
    from .c06 import _r1 as assignment_rule
    ctx.absorb(assignment_rule, "R5")
    # ... and nothing else writes k[]: no clamp / filter after the generated assignments (who-may-write rule, all back-ends)
    from .. import cwriters as W
    nw = W.check_writers(ctx, "R6", [W.RATES, W.ODE, W.FEX, W.JAC], W.RATE_ARRAYS, "the rate coefficients")
    ctx.floor("R6", "declarations of k/kh/kc met", nw, 12)
    # occurrences count: no set / dict keyed by the species stands between a reactant list and the terms built from it
    from ..multiplicity import rule as multiplicity_rule
    multiplicity_rule(ctx, "R7", ['reaction'], "the rate coefficient")


# ------------------------------------------------------------------ R1

def _r1(ctx, rm, pkg, allv):
    n = 0
    for cls, vs in allv.items():
        for v in vs:
            if v.kind != "text":
                continue
            risky = []
            for h, ir in v.holes.items():
                x = ir[1] if ir[0] == "fmt" else ir
                signed = any(y in COEFF for y in walk(x))
                if not signed:
                    continue
                for m in re.finditer(re.escape(h), v.text):
                    if m.start() > 0 and v.text[m.start() - 1] in "+-":
                        risky.append((h, v.text[max(0, m.start() - 6):m.end()]))
            if not risky:
                continue
            n += 1
            key = f"{cls}.rateexpr:{v.text}"
            decs = [ast.unparse(d) for d in rm.flow(cls, "rateexpr")[1].decorator_list]
            if not v.beautified and decs:
                # (a decorator may be what cleans the returned string: what it does with the result is not read here)
                ctx.unrec("R1", key, (v.file, v.line), f"rateexpr is wrapped by the decorator(s) {decs}: whether the returned string is cleaned by _beautify is not visible")
                continue
            ctx.check(v.beautified, "R1", key, (v.file, v.line),
                      "a signed coefficient directly follows a literal sign; the string is cleaned by _beautify before it is returned" if v.beautified else
                      f"coefficient placed directly after a literal sign ({risky[0][1]!r}) and the string is returned without _beautify: "
                      "a negative value yields `--` (e.g. gamma=-5 gives exp(--5.0/Tgas))",
                      expected="return self._beautify(rate)", found="return rate")
    ctx.floor("R1", "sign-adjacent variants", n, 15)
    # the clean-up table itself, read off the value _beautify returns: a chain of str.replace(old, new) over its argument -- however the
    # chain is spelled (method chain, successive assignments, a loop over a literal / module-level table of pairs, unrolled at parse time)
    bc, fn = pkg.resolve("Reaction", "_beautify")          # (wherever in the MRO it is defined)
    if fn is None:
        fn = pkg.method("Reaction", "_beautify")
    bfile = pkg.cls(bc).file
    ctx.saw(bfile, f"{bc}._beautify")
    W = (bfile, fn.lineno)
    fl = Flow(fn, bfile, consts=rm.module_consts(bfile))
    rets = [f for f in fl.facts if f.kind == "return"]
    params = [a.arg for a in fn.args.args][1:]
    chain, base = [], None
    if len(rets) == 1 and rets[0].value is not None:
        # (a table read through self/cls is the class-level display it is bound to; a fold over it -- functools.reduce -- is unfolded by simp)
        v = simp(subst(simp(rets[0].value), rm.class_consts("Reaction")))
        while v[0] == "meth" and v[2] == "replace" and len(v[3]) == 2 and not v[4] and all(a[0] == "const" and isinstance(a[1], str) for a in v[3]):
            chain.append((v[3][0][1], v[3][1][1]))
            v = v[1]
        base = v
        chain.reverse()
    if not chain or not params or base != ("param", params[0]):
        ctx.unrec("R1", "_beautify:table", W, "the value _beautify returns is not a chain of str.replace(<text>, <text>) over its argument: "
                  f"{show(simp(rets[0].value))[:120] if len(rets) == 1 and rets[0].value is not None else f'{len(rets)} return statements'}")
        return
    table = {}
    for k, w in chain:
        table.setdefault(k, w)
    want = {"++": "+", "--": "+", "+-": "-", "-+": "-"}
    for k, w in want.items():
        ctx.check(table.get(k) == w, "R1", f"_beautify:{k}", W, f"'{k}' is rewritten to '{w}'", expected=repr(w), found=repr(table.get(k)))
    ctx.ok("R1", "_beautify:returns-cleaned", W, "the cleaned string is what is returned")


# ------------------------------------------------------------------ R2 + R3

def _canon(text):
    return calg.canon_str(text)


def _r2_r3(ctx, rm, pkg, allv):
    total = 0
    for cls, (dvar, table_attr, refs) in REF.items():
        ci = pkg.cls(cls)
        vs = allv[cls]
        if table_attr:
            table = rm.code_table(cls, table_attr)
            tc, tnode = pkg.resolve_attr(cls, table_attr)
        else:
            table = {v: (str(v), v) for v in refs}
        codes = list(table.keys())
        if cls == "UCLCHEMReaction":
            codes = codes + [None]
        # every table entry must have a reference (a new code needs a reviewed law)
        for code in codes:
            total += 1
            if code not in refs:
                ctx.bad("R2", f"{cls}:{code}:unreferenced", (ci.file, 0), f"code {code!r} of {cls}.{table_attr} has no reference law in the checker's table (DESIGN Appendix A)")
                continue
            if code is None:
                value = rm.enum_members(cls).get("UCLCHEM_MA")
            elif dvar == "reaction_type":
                value = table[code][1]
            else:
                value = code
            if value is None:
                ctx.unrec("R2", f"{cls}:{code}", (ci.file, 0), f"cannot resolve the ReactionType value of {table[code][0]}")
                continue
            arms = arms_for(rm, cls, vs, dvar, value)
            ref = refs[code]
            key = f"{cls}:{table_attr or 'type'}[{code!r}]"
            kinds = {a.kind for a, _ in arms}
            where = (arms[0][0].file, arms[0][0].line) if arms else (ci.file, 0)
            if not arms:
                ctx.bad("R2", key, where, "no arm of rateexpr is reachable for this code")
                continue
            # a dispatch condition that could not be evaluated for this code (a table / helper the analysis does not see through)
            # leaves arms of several kinds "reachable": that is not evidence about the code
            open_ = sorted({show(c)[:70] for _, extra in arms for c, _p in extra if not _about_law(c)})
            want_kind = {"RAISE": {"raise"}, "GRAIN": {"delegate"}}.get(ref if isinstance(ref, str) else "", None if ref == "UNIMPLEMENTED" else {"text"})
            if open_ and want_kind is not None and kinds != want_kind:
                ctx.unrec("R2", key, where, f"cannot decide which arm of rateexpr this code takes: condition(s) {open_} are not understood (arms found: {sorted(kinds)})")
                continue
            if ref == "RAISE":
                ctx.check(kinds == {"raise"}, "R2", key, where, "this code is refused with an explicit error", expected="raise", found=str(sorted(kinds)))
                continue
            if ref == "GRAIN":
                ctx.check(kinds == {"delegate"}, "R2", key, where, "this code is delegated to the grain model", expected="grain.rateexpr(self)", found=str(sorted(kinds)))
                continue
            if ref == "UNIMPLEMENTED":
                const0 = all(a.kind == "text" and a.text.strip() in ("0.0", "0") for a, _ in arms)
                ctx.check(not const0, "R2", key, where,
                          "a defined reaction type silently gets the constant rate 0.0 instead of its law or an error (source marks it TODO)" if const0
                          else "type is implemented or refused", expected="rate law or raise", found="rate = \"0.0\"")
                continue
            if kinds != {"text"}:
                ctx.bad("R2", key, where, f"expected a rate template for this code, found {sorted(kinds)}")
                continue
            ctx.ok("R2", key, where, "code reaches a rate template")
            # R3: compare each variant with the reference
            selections = []          # per variant that tests the reactant's name: (shielded?, names selected | None, names excluded, tested views, variant)
            sel_open = []
            for v, extra in arms:
                txt, names = variant_text(v)
                zero = {}
                for c, val in v.assume.items():
                    if c in COEFF:
                        zero[COEFF[c]] = not val
                unknown, unknown_c = [], []
                pos, neg, views = [], set(), []
                # (tests decided while the optional parts of the text were enumerated are conditions of the variant like those of its path)
                for cond, pol in list(extra) + [(c, val) for c, val in v.assume.items() if c not in COEFF]:
                    ca = coeff_assumption(cond, pol)
                    ns = None if ca else name_selection(cond)
                    if ca:
                        zero[ca[0]] = ca[1]
                    elif ns is not None:
                        # who is shielded is part of the law: the condition holds for / excludes a literal list of names
                        lhs, lit, positive = ns
                        views.append(lhs)
                        if lit is None:
                            sel_open.append(show(cond)[:100])
                        elif positive == pol:
                            pos.append(set(lit))
                        else:
                            neg |= set(lit)
                    else:
                        unknown.append(show(cond)[:80])
                        unknown_c.append((cond, pol))
                branch = "shielded" if pos else "plain"
                chosen = (set.intersection(*pos) - neg) if pos else None
                if chosen is not None and not chosen and not sel_open:
                    continue        # the name is required to be in a list and excluded from all of it: not a case that exists
                if views:
                    selections.append((branch == "shielded", chosen, neg, views, v))
                vkey = f"{key}:{'/'.join(k + ('=0' if z else '!=0') for k, z in sorted(zero.items())) or 'all'}:{branch}" + \
                    (f":{'+'.join(sorted(chosen))}" if chosen is not None and len(selections) > 1 and sum(1 for s_ in selections if s_[0]) > 1 else "")
                if unknown_c and all(_value_cond(c) for c, _p in unknown_c) and v.raw is not None:
                    # the FORM of the law depends on the value of a coefficient (a special case for beta = 0.5, for integer beta ..): decided by
                    # writing the expression out for probe values of that coefficient, each compared with the reference at that value
                    _probe_values(ctx, vkey, v, unknown_c, zero, ref[branch] if isinstance(ref, dict) else ref)
                    continue
                if unknown or any(n is None for n in names.values()) or v.seqs:
                    ctx.unrec("R3", vkey, (v.file, v.line), f"variant has unrecognised conditions/holes: {unknown} {[h for h, n in names.items() if n is None]}"
                              + (f" / joined sequence(s) {sorted(v.seqs)}" if v.seqs else ""))
                    continue
                reftxt = ref[branch] if isinstance(ref, dict) else ref
                # a variant that holds for ONE named species may spell that species' column density out (a table name -> column)
                cols = SHIELD_COLUMN.get((cls, code), {})
                if chosen is not None and len(chosen) == 1 and next(iter(chosen)) in cols and "R1NAMEcol" in reftxt and "R1NAMEcol" not in txt:
                    reftxt = reftxt.replace("R1NAMEcol", cols[next(iter(chosen))])
                env = {k: 0.0 for k, z in zero.items() if z}
                try:
                    a = calg.canon_str(txt, env)
                    b = calg.canon_str(reftxt, env)
                except calg.CParseError as ex:
                    ctx.bad("R3", vkey, (v.file, v.line), f"rate template is not a C expression: {ex}", found=txt)
                    continue
                ctx.check(a.equiv(b), "R3", vkey, (v.file, v.line),
                          f"{txt!r} == reference law" if a.equiv(b) else "rate template differs from the reference law of this database code",
                          expected=f"{reftxt}  [{b.show()[:160]}]", found=f"{txt}  [{a.show()[:160]}]")
            if selections or sel_open:
                # exactly the listed species are self-shielded, selected by their full name (Species.name carries the charge and the surface
                # prefix; basename / alias views do not) -- decided over ALL variants of the code: one test against a list, or one arm per name
                want = SHIELDED.get((cls, code))
                skey = f"{key}:shielded-species"
                swhere = (selections[0][4].file, selections[0][4].line) if selections else where
                views = [lhs for s_ in selections for lhs in s_[3]]
                odd = [lhs for lhs in views if not (lhs[0] == "attr" and lhs[2] in ("name", "basename", "gasname", "alias"))]
                other = [lhs for lhs in views if lhs[0] == "attr" and lhs[2] in ("basename", "gasname", "alias")]
                if want is None or sel_open:
                    ctx.unrec("R3", skey, swhere, f"shielding selection {sel_open[:1] or [show(views[0])[:80]]} has no reference list / is not a literal list")
                elif odd:
                    ctx.unrec("R3", skey, swhere, f"cannot see which view of the reactant's name selects self-shielding: {show(odd[0])[:80]}")
                elif other:
                    ctx.bad("R3", skey, swhere, "self-shielding is selected by something other than the reactant's full name, so species that merely share a base name (ions, surface forms) get a different law",
                            expected=f"<first reactant>.name in {want}", found=f"{show(other[0])[:80]} tested against {sorted(set().union(*[s_[1] or set() for s_ in selections], *[s_[2] for s_ in selections]))}")
                else:
                    got = sorted(set().union(*[s_[1] for s_ in selections if s_[0]], set()))
                    leaked = sorted(set().union(*[set(want) - s_[2] for s_ in selections if not s_[0]], set()))
                    ctx.check(got == sorted(want) and not leaked, "R3", skey, swhere, "self-shielding applies to exactly the species of the database's law",
                              expected=str(sorted(want)), found=str(got) + (f"; the unshielded law is also reachable for {leaked}" if leaked else ""))
    ctx.floor("R2", "code table entries", total, 44)
    # sibling agreement: the types Reaction.rateexpr hands to the grain == the types Grain.rateexpr dispatches to a rate builder.  Decided
    # by EVALUATING both dispatches for every ReactionType value (whatever the spelling: list / tuple / set / class-level table /
    # comparison chain), not by reading a list off the source
    gv = rm.variants("Grain")
    gtypes, rtypes, open_ = set(), set(), set()
    for tval in sorted(set(rm.basic_types().values())):
        for who, vs, acc in (("Grain", gv, gtypes), ("Reaction", allv["Reaction"], rtypes)):
            arms = arms_for(rm, who, vs, "reaction_type", tval)
            # (the grain's own `if rate is NotImplemented: raise` is about what the builder returns, not about which builder is taken)
            about_result = lambda c: any(x == ("global", "NotImplemented") for x in walk(c))
            und = {show(c)[:70] for _, extra in arms for c, _p in extra if not _about_law(c) and not about_result(c)}
            kinds = {a.kind for a, extra in arms if not any(about_result(c) and p_ for c, p_ in extra)}
            if arms and kinds == {"delegate"}:
                acc.add(tval)
            elif und:
                # a dispatch condition that is not understood leaves this value undecided -- whatever arms stay "reachable"
                open_ |= und
            elif who == "Grain" and kinds - {"raise", "notimplemented"}:
                # the grain's dispatch ends in something that is neither a rate builder nor a refusal: not understood
                open_.add(f"Grain.rateexpr yields {sorted(kinds)} for type {tval}")
    ctx.floor("R2", "grain-dispatched types", len(gtypes), 9)
    if open_ and gtypes != rtypes:
        ctx.unrec("R2", "Reaction.rateexpr grain list == Grain.rateexpr chain", ("naunet/grains/grain.py", 0),
                  f"cannot decide which types are handed to / dispatched by the grain model: condition(s) {sorted(open_)[:3]} are not understood")
    else:
        ctx.check(gtypes == rtypes, "R2", "Reaction.rateexpr grain list == Grain.rateexpr chain", ("naunet/grains/grain.py", 0),
                  "the types the native class hands to the grain are exactly the types the grain dispatches on",
                  expected=str(sorted(gtypes)), found=str(sorted(rtypes)))


# ------------------------------------------------------------------ R3: laws whose form depends on a coefficient's value

class _Unsupported(Exception):
    pass


class _Sym(str):
    """a coefficient kept symbolic: prints as its name, is truthy, takes part in no arithmetic"""


_CMP = {"Eq": lambda a, b: a == b, "NotEq": lambda a, b: a != b, "Lt": lambda a, b: a < b, "LtE": lambda a, b: a <= b, "Gt": lambda a, b: a > b,
        "GtE": lambda a, b: a >= b, "Is": lambda a, b: a is b, "IsNot": lambda a, b: a is not b, "In": lambda a, b: a in b, "NotIn": lambda a, b: a not in b}
_BIN = {"Add": lambda a, b: a + b, "Sub": lambda a, b: a - b, "Mult": lambda a, b: a * b, "Div": lambda a, b: a / b, "FloorDiv": lambda a, b: a // b,
        "Mod": lambda a, b: a % b, "Pow": lambda a, b: a ** b}
_PURE = {"abs": abs, "float": float, "int": int, "str": str, "len": len, "round": round, "min": min, "max": max, "bool": bool, "list": list, "tuple": tuple}
_COEFF_ATOMS = set(COEFF)


def _value_cond(cond) -> bool:
    """a condition that only reads coefficients (alpha / beta / gamma) and literals through arithmetic, comparisons and number builtins"""
    seen = False
    for x in walk(cond):
        if not isinstance(x, tuple) or not x or not isinstance(x[0], str):
            continue
        if x in _COEFF_ATOMS:
            seen = True
        elif x == SELF or x[0] in ("const", "cmp", "bool", "unop", "binop") or x[0] in _CMP:
            continue
        elif x[0] == "global" and x[1] in _PURE:
            continue
        elif x[0] == "call" and x[1][0] == "global" and x[1][1] in _PURE and not x[3]:
            continue
        elif x[0] == "meth" and x[2] == "is_integer" and not x[3] and not x[4]:
            continue
        else:
            return False
    return seen


def _pyeval(ir, env):
    """Value of a literal-like IR under `env` ({IR node: Python value}) -- a small evaluator over the IR itself (numbers, text, displays,
    comprehensions over them, f-strings, join, number builtins); nothing of naunet is run.  Raises _Unsupported for anything else."""
    if ir in env:
        return env[ir]
    k = ir[0]
    try:
        if k == "const":
            return ir[1]
        if k == "fstr":
            out = []
            for p_ in ir[1]:
                if p_[0] == "const":
                    out.append(p_[1])
                    continue
                val = _pyeval(p_[1], env)
                spec = p_[2]
                if isinstance(spec, tuple):
                    spec = _pyeval(spec, env)
                if p_[3] not in (-1, None):
                    val = {115: str, 114: repr, 97: ascii}[p_[3]](val)
                if isinstance(val, _Sym) and spec:
                    raise _Unsupported("format spec on a symbolic coefficient")
                out.append(format(val, spec or ""))
            return "".join(out)
        if k == "join":
            return _pyeval(ir[1], env).join(list(_pyeval(ir[2], env)))
        if k in ("list", "tuple"):
            out = []
            for e in ir[1]:
                if e[0] == "star":
                    out.extend(_pyeval(e[1], env))
                else:
                    out.append(_pyeval(e, env))
            return out if k == "list" else tuple(out)
        if k == "dict":
            return {_pyeval(a, env): _pyeval(b, env) for a, b in ir[1]}
        if k == "binop" and ir[1] in _BIN:
            a, b = _pyeval(ir[2], env), _pyeval(ir[3], env)
            if isinstance(a, _Sym) or isinstance(b, _Sym):
                raise _Unsupported("arithmetic on a symbolic coefficient")
            return _BIN[ir[1]](a, b)
        if k == "unop":
            a = _pyeval(ir[2], env)
            if ir[1] == "Not":
                return not a
            if isinstance(a, _Sym):
                raise _Unsupported("arithmetic on a symbolic coefficient")
            return -a if ir[1] == "USub" else +a
        if k == "cmp":
            vals = [_pyeval(x, env) for x in ir[2]]
            if any(isinstance(x, _Sym) for x in vals):
                raise _Unsupported("comparison of a symbolic coefficient")
            return all(_CMP[o](a, b) for o, a, b in zip(ir[1], vals, vals[1:]))
        if k == "bool":
            val = None
            for x in ir[2]:
                val = _pyeval(x, env)
                if bool(val) != (ir[1] == "And"):
                    return val
            return val
        if k in ("ifexp", "phi") and len(ir) == 4:
            return _pyeval(ir[2] if _pyeval(ir[1], env) else ir[3], env)
        if k == "call" and ir[1][0] == "global" and ir[1][1] in _PURE and not ir[3]:
            args = [_pyeval(a, env) for a in ir[2]]
            if any(isinstance(a, _Sym) for a in args) and ir[1][1] != "str":
                raise _Unsupported("number builtin on a symbolic coefficient")
            return _PURE[ir[1][1]](*args)
        if k == "call" and ir[1] == ("global", "filter") and len(ir[2]) == 2 and ir[2][0] == ("const", None) and not ir[3]:
            return [x for x in _pyeval(ir[2][1], env) if x]
        if k == "meth" and ir[2] == "is_integer" and not ir[3]:
            return float(_pyeval(ir[1], env)).is_integer()
        if k == "meth" and ir[2] == "get" and len(ir[3]) in (1, 2) and not ir[4]:
            d = _pyeval(ir[1], env)
            if isinstance(d, dict):
                return d.get(_pyeval(ir[3][0], env), _pyeval(ir[3][1], env) if len(ir[3]) == 2 else None)
        if k == "sub":
            base = _pyeval(ir[1], env)
            if ir[2][0] == "slice":
                lo, hi, st = (_pyeval(x, env) for x in ir[2][1:4])
                return base[lo:hi:st]
            return base[_pyeval(ir[2], env)]
        if k == "comp" and ir[1] in ("list", "gen") and len(ir[3]) == 1 and ir[3][0][0] is not None:
            tg, it, ifs = ir[3][0]
            out = []
            for item in _pyeval(it, env):
                e2 = dict(env)
                if tg[0] == "bv":
                    e2[tg] = item
                elif tg[0] == "tuple" and all(t is not None and t[0] == "bv" for t in tg[1]) and len(tg[1]) == len(item):
                    e2.update(zip(tg[1], item))
                else:
                    raise _Unsupported("comprehension target")
                if all(_pyeval(c, e2) for c in ifs):
                    out.append(_pyeval(ir[2], e2))
            return out
    except _Unsupported:
        raise
    except Exception as ex:         # (a TypeError / KeyError / ZeroDivisionError of the little evaluation is "cannot evaluate", never a verdict)
        raise _Unsupported(f"{type(ex).__name__}: {ex}")
    raise _Unsupported(show(ir)[:60])


_PROBES = (-3.0, -2.0, -1.5, -1.0, -0.5, 0.5, 1.0, 1.5, 2.0, 3.0, 4.0, 0.37, -2.7)


def _probe_values(ctx, vkey, v, vconds, zero, reftxt):
    """R3 for a variant whose conditions compare a coefficient with numbers (`abs(b) == 0.5`, `b > 0`, `float(b).is_integer() and b <= 3`): for
    every probe value of that coefficient that satisfies the variant's conditions, the expression the code writes (evaluated from the
    variant's IR with that number in place, the other coefficients kept symbolic) must be the reference law at that value.  A mismatch is a
    concrete counterexample; no probe satisfying the conditions, or an expression that cannot be written out, is UNRECOGNISED."""
    where = (v.file, v.line)
    names = sorted({COEFF[x] for c, _p in vconds for x in walk(c) if isinstance(x, tuple) and x in _COEFF_ATOMS})
    if len(names) != 1:
        ctx.unrec("R3", vkey, where, f"the form of the law depends on the values of several coefficients at once ({names}): not enumerated")
        return
    name = names[0]
    atom = next(k_ for k_, n_ in COEFF.items() if n_ == name)
    # the literals the conditions mention, their neighbours and negatives join the probes
    lits = {float(x[1]) for c, _p in vconds for x in walk(c) if isinstance(x, tuple) and len(x) == 2 and x[0] == "const" and type(x[1]) in (int, float) and abs(x[1]) < 1e6}
    probes = sorted(set(_PROBES) | {s_ * (l_ + d_) for l_ in lits for d_ in (0.0, 1.0, -1.0, 0.5) for s_ in (1.0, -1.0)} - {0.0})
    if zero.get(name) is True:
        probes = [0.0]
    elif name not in zero:
        probes = [0.0] + probes
    tried, bad_eval = [], None
    for p_ in probes:
        env = {atom: p_}
        for k_, n_ in COEFF.items():
            if n_ != name:
                env[k_] = 0.0 if zero.get(n_) else _Sym(n_)
        try:
            if not all(bool(_pyeval(c, env)) == pol for c, pol in vconds):
                continue
            text = _pyeval(v.raw, env)
        except _Unsupported as ex:
            bad_eval = str(ex)
            break
        if not isinstance(text, str):
            bad_eval = f"the value is not text: {text!r}"[:80]
            break
        tried.append(p_)
        envn = {name: p_, **{k_: 0.0 for k_, z in zero.items() if z and k_ != name}}
        try:
            a = calg.canon_str(text, envn)
            b = calg.canon_str(reftxt, envn)
        except calg.CParseError as ex:
            ctx.bad("R3", vkey, where, f"for {name} = {p_} the generated rate `{text}` is not a C expression: {ex}", found=text)
            return
        if not a.equiv(b):
            ctx.bad("R3", vkey, where, f"for {name} = {p_} the generated rate differs from the reference law of this database code (the form of the expression depends on the "
                    f"value of {name}: {'; '.join(('' if pol else 'not ') + show(c)[:50] for c, pol in vconds)[:160]})",
                    expected=f"{reftxt} at {name} = {p_}  [{b.show()[:120]}]", found=f"{text}  [{a.show()[:120]}]")
            return
    if bad_eval is not None:
        ctx.unrec("R3", vkey, where, f"the form of the law depends on the value of {name} and the expression cannot be written out for a probe value: {bad_eval}")
    elif not tried:
        ctx.unrec("R3", vkey, where, f"the form of the law depends on the value of {name}; no probe value satisfies {[show(c)[:50] for c, _p in vconds]}")
    else:
        ctx.ok("R3", vkey, where, f"value-dependent form: equals the reference law for {name} in {tried[:8]}{' ..' if len(tried) > 8 else ''}")


# ------------------------------------------------------------------ R8  (positional statement lists)

TL = "naunet/templateloader.py"
_LEN_KEEPING = ("list", "tuple", "iter", "tqdm", "enumerate", "zip", "map", "reversed", "sorted")


def _spine(v, bases, depth=0):
    """The SPINE of a list-valued expression: the chain of comprehensions / zip / enumerate / map / copies that leads from the base
    sequence(s) to the list, as opposed to the expressions that build one ELEMENT.  -> (evidence, open): `evidence` the constructs on the
    spine that can change the NUMBER of entries (a comprehension filter, filter(..), a slice), `open` what is not understood."""
    ev, op = [], []
    if depth > 12:
        return ev, ["nesting too deep"]
    v = simp(v)
    if bases(v):
        return ev, op
    k = v[0]
    if k in ("phi", "ifexp") and len(v) == 4:
        for arm in (v[2], v[3]):
            e_, o_ = _spine(arm, bases, depth + 1)
            ev += e_
            op += o_
    elif k == "copy":
        return _spine(v[1], bases, depth + 1)
    elif k == "comp" and v[1] in ("list", "gen") and len(v[3]) == 1:
        tg, it, ifs = v[3][0]
        ev += [f"comprehension filter `if {show(c)[:60]}`" for c in ifs]
        e_, o_ = _spine(it, bases, depth + 1)
        ev += e_
        op += o_
    elif k == "comp":
        op.append(f"comprehension with {len(v[3])} loops: {show(v)[:60]}")
    elif k == "call" and v[1][0] == "global" and v[1][1] in _LEN_KEEPING and v[2]:
        seqs = v[2][1:] if v[1][1] == "map" else v[2][:1] if v[1][1] in ("enumerate", "sorted", "reversed", "list", "tuple", "iter", "tqdm") else v[2]
        for a in seqs:
            e_, o_ = _spine(a, bases, depth + 1)
            ev += e_
            op += o_
    elif k == "call" and v[1] in (("global", "filter"), ("global", "compress"), ("attr", ("global", "itertools"), "compress"), ("global", "takewhile"), ("global", "dropwhile")):
        ev.append(f"{show(v[1])}(..): {show(v)[:60]}")
    elif k == "sub" and v[2][0] == "slice":
        ev.append(f"slice {show(v)[:60]}")
        e_, o_ = _spine(v[1], bases, depth + 1)
        ev += e_
        op += o_
    else:
        op.append(show(v)[:80])
    return ev, op


def _r8(ctx, pkg):
    """The statement of reaction i sits at POSITION i of the list _assign_rates returns: _prepare_ode_content overrides `rateeqns[idx]` by
    the reaction's position (rate_modifier), and the templates paste the list in order.  So the list has exactly one entry per reaction:
    nothing on its spine -- from `reactions` to the returned list, and from the call to the positional store -- filters, slices or
    compacts it (a skipped "0.0" placeholder shifts every later statement under the override of another reaction)."""
    fn = pkg.method("TemplateLoader", "_assign_rates")
    ctx.saw(TL, "TemplateLoader._assign_rates")
    fl = Flow(fn, TL, resolver=lambda name: pkg.resolve("TemplateLoader", name)[1])
    params = [a.arg for a in fn.args.args]
    rets = [f for f in fl.facts if f.kind == "return" and f.value is not None]
    n = 0
    for f in rets:
        v = simp(f.value)
        if v[0] == "acc":
            from ..valueflow import loop_built_seq
            lb = loop_built_seq(fl, v[1])
            if lb is None:
                # not "one entry per iteration".  ONE append that stands under a condition inside its loop is a filter written as a loop
                apps = [a_ for a_ in fl.facts if a_.kind == "append" and a_.target == v[1]]
                if len(apps) == 1 and len(apps[0].loops) == 1 and apps[0].guards[apps[0].loops[0].gdepth:]:
                    g_ = apps[0].guards[apps[0].loops[0].gdepth:]
                    ctx.bad("R8", "_assign_rates:one-statement-per-reaction", (TL, apps[0].line), "a statement is appended only under a condition (" +
                            "; ".join(("" if p_ else "not ") + show(c_)[:50] for c_, p_ in g_[:2]) + "): the list no longer has one entry per reaction, while "
                            "_prepare_ode_content overrides `rateeqns[idx]` by the reaction's POSITION", expected="one statement per reaction", found="conditional append")
                continue        # (a list filled by a loop this rule does not read: R5 says what it thinks of it)
            v = lb[0].iter
        ev, op = _spine(v, lambda x: x[0] == "param" and x[1] in params)
        n += 1
        key = "_assign_rates:one-statement-per-reaction"
        if ev:
            ctx.bad("R8", key, (TL, f.line), "the list of rate statements is filtered on its way from `reactions` to the returned list (" + "; ".join(ev[:2]) + "): it no longer has one entry "
                    "per reaction, while _prepare_ode_content overrides `rateeqns[idx]` by the reaction's POSITION -- the rate_modifier of one reaction replaces the statement of another, "
                    "whose coefficient is then never assigned", expected="one statement per reaction, in the order of `reactions`", found=ev[0])
        elif not op:
            ctx.ok("R8", key, (TL, f.line), "no filter / slice between `reactions` and the returned statement list")
    # ... and between the call and the positional store
    pn = pkg.method("TemplateLoader", "_prepare_ode_content")
    ctx.saw(TL, "TemplateLoader._prepare_ode_content")
    pf = Flow(pn, TL)
    stores = [f for f in pf.facts if f.kind == "store" and f.loops and f.index is not None and any(isinstance(x, tuple) and x and x[0] == "idx" for x in walk(simp(f.index)))]
    for tgt in sorted({f.target for f in stores}):
        inits = [f for f in pf.facts if f.kind == "init" and f.target == tgt]
        if len(inits) != 1 or not any(x[0] == "meth" and x[2] == "_assign_rates" for x in walk(simp(inits[0].value)) if isinstance(x, tuple) and len(x) == 5):
            continue
        ev, op = _spine(inits[0].value, lambda x: x[0] == "meth" and len(x) == 5 and x[2] == "_assign_rates")
        n += 1
        key = f"_prepare_ode_content:{tgt}[position]"
        if ev:
            ctx.bad("R8", key, (TL, inits[0].line), f"`{tgt}` is filtered (" + "; ".join(ev[:2]) + ") between _assign_rates(..) and the store `" + tgt + "[idx] = ..` that addresses a reaction's statement by "
                    "the reaction's position: the override lands on the statement of another reaction", expected=f"{tgt} = self._assign_rates(..)", found=show(simp(inits[0].value))[:120])
        elif not op:
            ctx.ok("R8", key, (TL, inits[0].line), f"`{tgt}[idx]` addresses the list _assign_rates returned, entry for entry")


# ------------------------------------------------------------------ R4

CACHES = {"lru_cache", "cache", "cached_property", "memoize", "memoized"}


def _r4(ctx, pkg):
    from ..ratemodel import surface_helper
    SURF = surface_helper(pkg)
    n = 0
    for ci in pkg.classes.values():
        if not (ci.file.startswith("naunet/reactions/") or ci.file.startswith("naunet/grains/") or ci.file == "naunet/thermalprocess.py"):
            continue
        for mname, fn in ci.methods.items():
            if mname == "rateexpr" or mname.startswith("rate_") or mname == SURF:
                n += 1
                decs = [ast.unparse(d) for d in fn.decorator_list]
                bad = [d for d in decs if any(c in d for c in CACHES)]
                ctx.check(not bad, "R4", f"{ci.name}.{mname}:not-memoised", (ci.file, fn.lineno),
                          "rate builder is evaluated afresh for every reaction" if not bad else
                          f"rate builder is memoised ({bad[0]}): Reaction.__hash__/__eq__ ignore alpha/beta/gamma, so a reaction equal to an earlier one "
                          "reuses that reaction's rate string", found=", ".join(decs))
    # ... and no memoised WRAPPER around a rate builder anywhere in the package (`@lru_cache def _rateexpr(reac, grain): return
    # reac.rateexpr(grain)` in the renderer): the memo is keyed by the reaction's hash / equality all the same
    wrappers = [(f, name, fn) for (f, name), fn in pkg.functions.items()] + [(ci.file, f"{ci.name}.{m}", fn) for ci in pkg.classes.values() for m, fn in ci.methods.items()]
    for f, name, fn in wrappers:
        decs = [ast.unparse(d) for d in fn.decorator_list]
        memo = [d for d in decs if any(c in d for c in CACHES)]
        if not memo:
            continue
        calls = [c for c in ast.walk(fn) if isinstance(c, ast.Call) and isinstance(c.func, ast.Attribute) and (c.func.attr == "rateexpr" or c.func.attr.startswith("rate_"))]
        if calls:
            ctx.bad("R4", f"{name}:memoised wrapper of a rate builder", (f, fn.lineno),
                    f"`{name}` is memoised ({memo[0]}) and returns what `{ast.unparse(calls[0].func)}` builds: Reaction.__hash__/__eq__ ignore alpha/beta/gamma (and the "
                    "temperature window), so a reaction equal to an earlier one -- of this network or of one rendered before in the same process -- gets that reaction's rate string",
                    expected="the rate expression is built afresh from each reaction's own coefficients", found=", ".join(decs))
    ctx.floor("R4", "rate builders", n, 30)


R = "naunet/reactions/reaction.py"
K = "naunet/reactions/kidareaction.py"
U = "naunet/reactions/umistreaction.py"
L = "naunet/reactions/leedsreaction.py"
UC = "naunet/reactions/uclchemreaction.py"
MUTANTS = [
    {"name": "evalrates-clamps-negative", "file": "naunet/templates/cvode/src/naunet_rates.cpp.j2", "old": "    // clang-format on\n\n    return NAUNET_SUCCESS;\n}\n\n// clang-format off\n{% if general.device == \"gpu\" -%} __device__ {% endif -%}\nint EvalHeatingRates", "new": "    // clang-format on\n\n    for (int i = 0; i < NREACTIONS; i++) {\n        if (k[i] < 0.0) k[i] = 0.0;\n    }\n    return NAUNET_SUCCESS;\n}\n\n// clang-format off\n{% if general.device == \"gpu\" -%} __device__ {% endif -%}\nint EvalHeatingRates", "rules": ["R6"]},
    {"name": "ip1-constant", "file": K, "old": "0.62 + 0.4767*{c}", "new": "0.62 + 0.4667*{c}", "rules": ["R3"]},
    {"name": "kooij-300-to-30", "file": U, "old": 'f"pow(Tgas/300.0, {b})" if b else "",', "new": 'f"pow(Tgas/30.0, {b})" if b else "",', "rules": ["R3"]},
    {"name": "crphot-albedo-dropped", "file": U, "old": 'rate = f"{a} * pow(Tgas/300.0, {b}) * {c} / (1-omega)"', "new": 'rate = f"{a} * pow(Tgas/300.0, {b}) * {c}"', "rules": ["R3"]},
    {"name": "formula2type-4-5-swapped", "file": K, "old": "            rate = f\"{a} * {b} * (0.62 + 0.4767*{c}*sqrt(300.0/Tgas))\"\n        elif formula == 5:", "new": "            rate = f\"{a} * {b} * (0.62 + 0.4767*{c}*sqrt(300.0/Tgas))\"\n        elif formula == 6:", "rules": ["R2", "R3"]},
    {"name": "code2type-cp-cr-swapped", "edits": [{"file": U, "old": '"CP": ReactionType.UMIST_CP,', "new": '"CP": ReactionType.UMIST_CR,'}], "rules": ["R3"]},
    {"name": "umist-beautify-removed", "file": U, "old": "        rate = self._beautify(rate)\n        return rate\n\n    def _parse_string(self, react_string) -> None:\n        self.source = \"umist\"", "new": "        return rate\n\n    def _parse_string(self, react_string) -> None:\n        self.source = \"umist\"", "rules": ["R1"]},
    {"name": "native-beautify-removed", "file": R, "old": "        rate = self._beautify(rate)\n        return rate\n\n    def to_string", "new": "        return rate\n\n    def to_string", "rules": ["R1"]},
    {"name": "beautify-minusminus", "file": R, "old": '.replace("--", "+")', "new": '.replace("--", "-")', "rules": ["R1"]},
    {"name": "photon-sign", "file": K, "old": 'f"exp(-{c}*Av)" if c else ""', "new": 'f"exp({c}*Av)" if c else ""', "rules": ["R3"]},
    {"name": "leeds-cr-without-xray", "file": L, "old": 'rate = f"{a} * (zeta_cr + zeta_xr) / zism"', "new": 'rate = f"{a} * zeta_cr / zism"', "rules": ["R3"]},
    {"name": "uclchem-habing-factor", "file": UC, "old": 'rate = f"G0 * {a} * exp(-{c}*Av) / 1.7"', "new": 'rate = f"G0 * {a} * exp(-{c}*Av)"', "rules": ["R3"]},
    {"name": "kida-gamma0-shortcut", "file": K, "old": "        if formula == 1:\n            rate = f\"{a} * zeta\"", "new": "        if formula in (4, 5) and not c:\n            rate = f\"{a} * {b}\"\n        elif formula == 1:\n            rate = f\"{a} * zeta\"", "rules": ["R3"]},
    {"name": "renderer-memoises-rate-strings", "file": "naunet/templateloader.py",
     "old": "class TemplateLoader:", "new": "from functools import lru_cache\n\n\n@lru_cache(maxsize=None)\ndef _rateexpr(reac, grain=None):\n    return reac.rateexpr(grain) if grain else reac.rateexpr()\n\n\nclass TemplateLoader:", "rules": ["R4"]},
    {"name": "rateexpr-lru-cache", "file": U, "old": "    def rateexpr(self, grain: Grain = None) -> str:", "new": "    @__import__('functools').lru_cache(maxsize=None)\n    def rateexpr(self, grain: Grain = None) -> str:", "rules": ["R4"]},
    {"name": "native-type-gap", "file": R, "old": "        elif rtype == ReactionType.GAS_KIDA_IP2:", "new": "        elif rtype == ReactionType.GAS_THREEBODY:", "rules": ["R2", "R3"]},
    {"name": "grain-list-missing-type", "file": R, "old": "            ReactionType.GRAIN_DESORB_H2,\n", "new": "", "rules": ["R2"]},
    {"name": "leeds-shield-basename", "file": L, "old": 'if re1.name in ["H2", "CO", "N2"]:', "new": 'if re1.basename in ["H2", "CO", "N2"]:', "rules": ["R3"]},
    {"name": "leeds-shield-list", "file": L, "old": 'if re1.name in ["H2", "CO", "N2"]:', "new": 'if re1.name in ["H2", "CO", "N2", "H2+"]:', "rules": ["R3"]},
    {"name": "leeds-shield-flag", "file": L, "old": 'shield = f"GetShieldingFactor(IDX_{re1.alias}, h2col, {re1.name.lower()}col, Tgas, 0)"', "new": 'shield = f"GetShieldingFactor(IDX_{re1.alias}, h2col, {re1.name.lower()}col, Tgas, 1)"', "rules": ["R3"]},
]
BENIGN = [
    {"name": "factors-reordered", "file": K, "old": 'rate = f"{a} * {b} * (0.62 + 0.4767*{c}*sqrt(300.0/Tgas))"', "new": 'rate = f"{b} * (0.4767*{c}*sqrt(300.0/Tgas) + 0.62) * {a}"'},
    {"name": "sqrt-as-pow", "file": K, "old": 'rate = f"{a} * {b} * (0.62 + 0.4767*{c}*sqrt(300.0/Tgas))"', "new": 'rate = f"{a} * {b} * (0.62 + 0.4767*{c}*pow(Tgas/300.0, -0.5))"'},
    {"name": "local-renamed", "file": U, "old": "        rtype = self.reaction_type\n\n        if rtype == self.ReactionType.UMIST_TWOBODY:", "new": "        rtype = self.reaction_type\n        kind = rtype\n\n        if kind == self.ReactionType.UMIST_TWOBODY:"},
]

# ---- spellings accepted since the round-4 benign sets (each also as a seeded defect written in the new spelling) ----
_BEAUT_OLD = '        rate = (\n            rate_string.replace("++", "+")\n            .replace("--", "+")\n            .replace("+-", "-")\n            .replace("-+", "-")\n        )\n'
_BEAUT_LOOP = '        rate = rate_string\n        for doubled, single in _SIGNS:\n            rate = rate.replace(doubled, single)\n'
_CLS_OLD = 'class Reaction(Component):\n    """Class of chemical reactions"""\n'
_GLIST_OLD = ('        elif rtype in [\n            ReactionType.GRAIN_FREEZE,\n            ReactionType.GRAIN_DESORB_THERMAL,\n            ReactionType.GRAIN_DESORB_COSMICRAY,\n'
              '            ReactionType.GRAIN_DESORB_PHOTON,\n            ReactionType.GRAIN_DESORB_REACTIVE,\n            ReactionType.GRAIN_DESORB_H2,\n            ReactionType.GRAIN_RECOMINE,\n'
              '            ReactionType.GRAIN_ECAPTURE,\n            ReactionType.SURFACE_TWOBODY,\n        ]:\n')
_GTUPLE = ('_ON_GRAIN = (\n    ReactionType.GRAIN_FREEZE,\n    ReactionType.GRAIN_DESORB_THERMAL,\n    ReactionType.GRAIN_DESORB_COSMICRAY,\n    ReactionType.GRAIN_DESORB_PHOTON,\n'
           '    ReactionType.GRAIN_DESORB_REACTIVE,\n    ReactionType.GRAIN_DESORB_H2,\n    ReactionType.GRAIN_RECOMINE,\n    ReactionType.GRAIN_ECAPTURE,\n    ReactionType.SURFACE_TWOBODY,\n)\n\n\n')
_UMIST_CHAIN = ('        elif rtype == self.ReactionType.UMIST_PH:\n            rate = f"{a} * exp(-{c}*Av)"\n        elif rtype == self.ReactionType.UMIST_CP:\n            rate = f"{a}"\n'
                '        elif rtype == self.ReactionType.UMIST_CR:\n            rate = f"{a} * pow(Tgas/300.0, {b}) * {c} / (1-omega)"\n        else:\n            raise RuntimeError(\n'
                '                f"Code {self.code} has not been defined! Please extend the definition"\n            )\n')


def _umist_table(ph_law):
    return ('        else:\n            laws = (\n                (self.ReactionType.UMIST_PH, lambda: ' + ph_law + '),\n                (self.ReactionType.UMIST_CP, lambda: f"{a}"),\n'
            '                (self.ReactionType.UMIST_CR, lambda: f"{a} * pow(Tgas/300.0, {b}) * {c} / (1-omega)"),\n            )\n            for known, law in laws:\n'
            '                if rtype == known:\n                    return self._beautify(law())\n            raise RuntimeError(\n'
            '                f"Code {self.code} has not been defined! Please extend the definition"\n            )\n')


_LEEDS4_OLD = ('            rate = f"G0 * {a} * exp(-{c}*Av)"\n            if re1.name in ["H2", "CO", "N2"]:\n'
               '                shield = f"GetShieldingFactor(IDX_{re1.alias}, h2col, {re1.name.lower()}col, Tgas, 0)"\n                rate = f"{rate} * {shield}"\n')
_LEEDS_DEF = '    def rateexpr(self, grain: Grain = None) -> str:\n        a = self.alpha\n        b = self.beta\n        c = self.gamma\n        rtype = self.rtype\n'


def _leeds_helper(names):
    return ('    _selfshielded = ' + names + '\n\n    def _photolaw(self, who, names, skip):\n        rate = f"G0 * {self.alpha} * exp(-{self.gamma}*Av)"\n        if who.name in names:\n'
            '            rate = f"{rate} * GetShieldingFactor(IDX_{who.alias[skip:]}, h2col, {who.name[skip:].lower()}col, Tgas, 0)"\n        return rate\n\n') + _LEEDS_DEF


BENIGN += [
    {"name": "beautify-loop-over-module-table", "edits": [
        {"file": R, "old": _BEAUT_OLD, "new": _BEAUT_LOOP},
        {"file": R, "old": _CLS_OLD, "new": '_SIGNS = (("++", "+"), ("--", "+"), ("+-", "-"), ("-+", "-"))\n\n\n' + _CLS_OLD}]},
    {"name": "grain-types-module-tuple", "edits": [
        {"file": R, "old": _GLIST_OLD, "new": "        elif rtype in _ON_GRAIN:\n"},
        {"file": R, "old": _CLS_OLD, "new": _GTUPLE + _CLS_OLD}]},
    {"name": "umist-table-of-closures", "file": U, "old": _UMIST_CHAIN, "new": _umist_table('f"{a} * exp(-{c}*Av)"')},
    {"name": "leeds-merged-zero-arms", "file": L, "old": "        elif rtype in range(15, 20):\n", "new": "        elif rtype == 15 or rtype in range(16, 20):\n"},
    {"name": "leeds-shield-helper-class-list", "edits": [
        {"file": L, "old": _LEEDS4_OLD, "new": "            rate = self._photolaw(re1, self._selfshielded, 0)\n"},
        {"file": L, "old": _LEEDS_DEF, "new": _leeds_helper('["H2", "CO", "N2"]')}]},
    {"name": "umist-factors-appended", "file": U,
     "old": '            rate = " * ".join(\n                s\n                for s in [\n                    f"{a}",\n                    f"pow(Tgas/300.0, {b})" if b else "",\n'
            '                    f"exp(-{c}/Tgas)" if c else "",\n                ]\n                if s\n            )\n',
     "new": '            factors = [f"{a}"]\n            if b:\n                factors.append(f"pow(Tgas/300.0, {b})")\n            if c:\n                factors.append(f"exp(-{c}/Tgas)")\n'
            '            rate = " * ".join(filter(None, factors))\n'},
]
MUTANTS += [
    {"name": "beautify-loop-table-wrong-sign", "edits": [
        {"file": R, "old": _BEAUT_OLD, "new": _BEAUT_LOOP},
        {"file": R, "old": _CLS_OLD, "new": '_SIGNS = (("++", "+"), ("--", "-"), ("+-", "-"), ("-+", "-"))\n\n\n' + _CLS_OLD}], "rules": ["R1"]},
    {"name": "grain-module-tuple-missing-type", "edits": [
        {"file": R, "old": _GLIST_OLD, "new": "        elif rtype in _ON_GRAIN:\n"},
        {"file": R, "old": _CLS_OLD, "new": _GTUPLE.replace("    ReactionType.GRAIN_DESORB_H2,\n", "") + _CLS_OLD}], "rules": ["R2"]},
    {"name": "umist-closure-table-photon-sign", "file": U, "old": _UMIST_CHAIN, "new": _umist_table('f"{a} * exp({c}*Av)"'), "rules": ["R3"]},
    {"name": "leeds-merged-arm-swallows-type", "file": L, "old": "        elif rtype in range(15, 20):\n", "new": "        elif rtype == 20 or rtype in range(15, 20):\n", "rules": ["R2"]},
    {"name": "leeds-class-list-extra-species", "edits": [
        {"file": L, "old": _LEEDS4_OLD, "new": "            rate = self._photolaw(re1, self._selfshielded, 0)\n"},
        {"file": L, "old": _LEEDS_DEF, "new": _leeds_helper('["H2", "CO", "N2", "H2+"]')}], "rules": ["R3"]},
]

# ---- spellings accepted since the round-5 benign sets (each also as a seeded defect written in the new spelling) ----
G = "naunet/grains/grain.py"
_CLS_ATTR_OLD = '    format = "naunet"\n'
_BEAUT_FOLD = '        rate = reduce(lambda acc, fix: acc.replace(fix[0], fix[1]), self._sign_fixes, rate_string)\n'


def _sign_table(mm):
    return _CLS_ATTR_OLD + '\n    _sign_fixes = (("++", "+"), ("--", "' + mm + '"), ("+-", "-"), ("-+", "-"))\n'


_KIDA_HEAD = '    def rateexpr(self, grain: Grain = None) -> str:\n        a = self.alpha\n'
_KIDA_TAIL = '        rate = self._beautify(rate)\n        return rate\n\n    def _parse_string(self, react_string) -> None:\n        self.source = "kida"'
_KIDA_ARM1 = '        if formula == 1:\n            rate = f"{a} * zeta"\n        elif formula == 2:\n'


def _kida_pipeline(outer):
    """rateexpr = clean-up of a private helper that holds the whole chain (one arm as a guard clause, the refusing arms inside)"""
    return [{"file": K, "old": _KIDA_HEAD, "new": '    def rateexpr(self, grain: Grain = None) -> str:\n        return ' + outer + '\n\n    def _law(self) -> str:\n        a = self.alpha\n'},
            {"file": K, "old": _KIDA_ARM1, "new": '        if formula == 1:\n            return f"{a} * zeta"\n        if formula == 2:\n'},
            {"file": K, "old": _KIDA_TAIL, "new": '        return rate\n\n    def _parse_string(self, react_string) -> None:\n        self.source = "kida"'}]


_GRAIN_ARMS = [("GRAIN_RECOMINE", "rate_recombination"), ("GRAIN_FREEZE", "rate_depletion"), ("GRAIN_DESORB_THERMAL", "rate_thermal_desorption"),
               ("GRAIN_DESORB_PHOTON", "rate_photon_desorption"), ("GRAIN_DESORB_COSMICRAY", "rate_cosmicray_desorption"), ("GRAIN_DESORB_H2", "rate_h2_desorption"),
               ("SURFACE_TWOBODY", "rate_surface_twobody"), ("GRAIN_DESORB_REACTIVE", "rate_reactive_desorption"), ("GRAIN_ECAPTURE", "rate_electron_capture")]
_GRAIN_CHAIN = "".join(("        if" if i == 0 else "        elif") + f" rtype == ReactionType.{t}:\n            rate = self.{m}(reac)\n\n" for i, (t, m) in enumerate(_GRAIN_ARMS)) \
    + "        else:\n            raise ValueError("
_GRAIN_SCAN = ("        for known, builder in self._builders:\n            if rtype == known:\n                rate = getattr(self, builder)(reac)\n                break\n\n"
               "        else:\n            raise ValueError(")
_GRAIN_DEF = "    def rateexpr(self, reac: Reaction) -> str:\n        rtype = reac.reaction_type\n"


def _grain_table(skip=None):
    return [{"file": G, "old": _GRAIN_CHAIN, "new": _GRAIN_SCAN},
            {"file": G, "old": _GRAIN_DEF, "new": "    _builders = (\n" + "".join(f'        (ReactionType.{t}, "{m}"),\n' for t, m in _GRAIN_ARMS if t != skip) + "    )\n\n" + _GRAIN_DEF}]


BENIGN += [
    {"name": "beautify-fold-over-class-table", "edits": [{"file": R, "old": _BEAUT_OLD, "new": _BEAUT_FOLD}, {"file": R, "old": _CLS_ATTR_OLD, "new": _sign_table("+")}]},
    {"name": "kida-chain-in-private-helper", "edits": _kida_pipeline("self._beautify(self._law())")},
    {"name": "grain-chain-as-class-table-scan", "edits": _grain_table()},
]
MUTANTS += [
    {"name": "beautify-fold-class-table-wrong-sign", "edits": [{"file": R, "old": _BEAUT_OLD, "new": _BEAUT_FOLD}, {"file": R, "old": _CLS_ATTR_OLD, "new": _sign_table("-")}], "rules": ["R1"]},
    {"name": "kida-helper-result-not-cleaned", "edits": _kida_pipeline("self._law()"), "rules": ["R1"]},
    {"name": "grain-class-table-missing-type", "edits": _grain_table("GRAIN_DESORB_H2"), "rules": ["R2"]},
]


def _kida_dict(const):
    """two of the laws looked up in a local table keyed by the formula number"""
    return {"file": K, "old": _KIDA_ARM1, "new": '        laws = {1: f"{a} * zeta", 4: f"{a} * {b} * (0.62 + ' + const + '*{c}*sqrt(300.0/Tgas))"}\n'
            '        if formula in laws:\n            rate = laws[formula]\n        elif formula == 2:\n'}


BENIGN += [dict(_kida_dict("0.4767"), name="kida-laws-in-local-dict"),
           {"name": "kida-formula-range-test", "file": K, "old": "        elif formula == 6:\n", "new": "        elif 5 < formula <= 6:\n"}]
MUTANTS += [dict(_kida_dict("0.4667"), name="kida-local-dict-wrong-constant", rules=["R3"]),
            {"name": "kida-range-test-swallows-ip2", "file": K, "old": "        elif formula == 5:\n", "new": "        elif formula > 5:\n", "rules": ["R2", "R3"]}]

RT = "naunet/reactiontype.py"
_RT_END = "    UNKNOWN = 999\n    DUMMY = 1000\n"


def _grain_types_imported(skip=""):
    """the grain-delegated types kept in the module that defines ReactionType and imported from there"""
    tup = _GTUPLE.replace("_ON_GRAIN", "ON_GRAIN").replace(skip, "") if skip else _GTUPLE.replace("_ON_GRAIN", "ON_GRAIN")
    return [{"file": RT, "old": _RT_END, "new": _RT_END + "\n\n" + tup.rstrip("\n") + "\n"},
            {"file": R, "old": "from ..reactiontype import ReactionType\n", "new": "from ..reactiontype import ReactionType, ON_GRAIN\n"},
            {"file": R, "old": _GLIST_OLD, "new": "        elif rtype in ON_GRAIN:\n"}]


BENIGN.append({"name": "grain-types-imported-tuple", "edits": _grain_types_imported()})
MUTANTS.append({"name": "grain-imported-tuple-missing-type", "edits": _grain_types_imported("    ReactionType.GRAIN_DESORB_H2,\n"), "rules": ["R2"]})
BENIGN.append({"name": "kida-law-by-percent-format", "file": K, "old": '            rate = f"{a} * zeta"\n', "new": '            rate = "%s * zeta" % a\n'})
MUTANTS.append({"name": "kida-percent-format-wrong-symbol", "file": K, "old": '            rate = f"{a} * zeta"\n', "new": '            rate = "%s * zeta * %s" % (a, b)\n', "rules": ["R3"]})

_GRAIN_IMPORT = "from ..reactiontype import ReactionType\n\nif TYPE_CHECKING:\n"
_GRAIN_SCAN_NT = ("        for entry in self._builders:\n            if rtype == entry.rtype:\n                rate = getattr(self, entry.method)(reac)\n                break\n\n"
                  "        else:\n            raise ValueError(")


def _grain_namedtuple_table(skip=None):
    """the same table with namedtuple rows, read by field name"""
    return [{"file": G, "old": _GRAIN_IMPORT, "new": 'from ..reactiontype import ReactionType\nfrom collections import namedtuple\n\n_Builder = namedtuple("_Builder", "rtype method")\n\nif TYPE_CHECKING:\n'},
            {"file": G, "old": _GRAIN_CHAIN, "new": _GRAIN_SCAN_NT},
            {"file": G, "old": _GRAIN_DEF, "new": "    _builders = (\n" + "".join(f'        _Builder(ReactionType.{t}, method="{m}"),\n' for t, m in _GRAIN_ARMS if t != skip) + "    )\n\n" + _GRAIN_DEF}]


BENIGN.append({"name": "grain-chain-as-namedtuple-table", "edits": _grain_namedtuple_table()})
MUTANTS.append({"name": "grain-namedtuple-table-missing-type", "edits": _grain_namedtuple_table("GRAIN_RECOMINE"), "rules": ["R2"]})


def _kida_templates(zeta):
    """two laws kept as class-level text templates keyed by the formula number, filled in with str.format"""
    return [{"file": K, "old": _KIDA_ARM1, "new": '        if formula in self._templates:\n            rate = self._templates[formula].format(a=a, b=b, c=c)\n        elif formula == 2:\n'},
            {"file": K, "old": _KIDA_HEAD, "new": '    _templates = {1: "{a} * ' + zeta + '", 4: "{a} * {b} * (0.62 + 0.4767*{c}*sqrt(300.0/Tgas))"}\n\n' + _KIDA_HEAD}]


BENIGN.append({"name": "kida-laws-as-class-templates", "edits": _kida_templates("zeta")})
MUTANTS.append({"name": "kida-class-template-wrong-symbol", "edits": _kida_templates("zeta * Av"), "rules": ["R3"]})


def _kida_module_function(expo):
    """the modified-Arrhenius product built by a module-level helper function"""
    return [{"file": K, "old": '            rate = " * ".join(\n                s\n                for s in [\n                    f"{a}",\n                    f"pow(Tgas/300.0, {b})" if b else "",\n'
             '                    f"exp(-{c}/Tgas)" if c else "",\n                ]\n                if s\n            )\n        elif formula == 4:', "new": '            rate = _arrhenius(a, b, c)\n        elif formula == 4:'},
            {"file": K, "old": "class KIDAReaction(Reaction):\n", "new": 'def _arrhenius(a, b, c):\n    factors = [f"{a}", f"pow(Tgas/300.0, {b})" if b else "", f"exp(' + expo + '{c}/Tgas)" if c else ""]\n'
             '    return " * ".join(s for s in factors if s)\n\n\nclass KIDAReaction(Reaction):\n'}]


BENIGN.append({"name": "kida-arrhenius-by-module-function", "edits": _kida_module_function("-")})
MUTANTS.append({"name": "kida-module-function-sign", "edits": _kida_module_function(""), "rules": ["R3"]})


# ---- spellings accepted since the round-6 benign sets / rules added for the round-6 seeds ----
def _leeds_column_table(view, cocol="cocol"):
    """who is self-shielded (and by which column density) looked up in a class-level table keyed by the reactant's name"""
    return [{"file": L, "old": _LEEDS4_OLD, "new": '            rate = f"G0 * {a} * exp(-{c}*Av)"\n            coldens = self._shield_columns.get(re1.' + view + ')\n            if coldens is not None:\n'
             '                shield = f"GetShieldingFactor(IDX_{re1.alias}, h2col, {coldens}, Tgas, 0)"\n                rate = f"{rate} * {shield}"\n'},
            {"file": L, "old": _LEEDS_DEF, "new": '    _shield_columns = {"H2": "h2col", "CO": "' + cocol + '", "N2": "n2col"}\n\n' + _LEEDS_DEF}]


BENIGN.append({"name": "leeds-shield-column-table-by-name", "edits": _leeds_column_table("name")})
MUTANTS += [{"name": "leeds-shield-column-table-by-basename", "edits": _leeds_column_table("basename"), "rules": ["R3"]},
            {"name": "leeds-shield-column-table-wrong-column", "edits": _leeds_column_table("name", "h2col"), "rules": ["R3"]}]
BENIGN.append({"name": "uclchem-shield-by-equality", "file": UC, "old": 'if re1.name in ["CO"]:', "new": 'if re1.name == "CO":'})
MUTANTS.append({"name": "uclchem-shield-by-equality-other-species", "file": UC, "old": 'if re1.name in ["CO"]:', "new": 'if re1.name == "CO" or re1.name == "N2":', "rules": ["R3"]})

TLF = "naunet/templateloader.py"
_ENUM_OLD = "            for ridx, (trange, rateexpr) in enumerate(zip(tranges, rateexprs))\n        ]\n\n        return rateassign\n"
MUTANTS += [
    {"name": "assign-rates-skips-zero-placeholders", "file": TLF, "old": _ENUM_OLD,
     "new": "            for ridx, (trange, rateexpr) in enumerate(zip(tranges, rateexprs))\n            if rateexpr != \"0.0\"\n        ]\n\n        return rateassign\n", "rules": ["R8"]},
    {"name": "ode-content-compacts-rate-statements", "file": TLF, "old": "        rateeqns = self._assign_rates(rate_sym, reactions, grains)\n",
     "new": "        rateeqns = [eq for eq in self._assign_rates(rate_sym, reactions, grains) if not eq.endswith(\"= 0.0;\")]\n", "rules": ["R8"]},
]
BENIGN.append({"name": "assign-rates-returns-list-of-generator", "file": TLF, "old": "        return rateassign\n\n    def _prepare_ode_content(", "new": "        return list(iter(rateassign))\n\n    def _prepare_ode_content("})

# the form of the law may depend on a coefficient's VALUE only where every case is still the law (decided on probe values)
_K_POW = 'f"pow(Tgas/300.0, {b})" if b else "",'
BENIGN.append({"name": "kida-unit-exponent-written-without-pow", "file": K, "old": _K_POW, "new": '("(Tgas/300.0)" if b == 1 else f"pow(Tgas/300.0, {b})") if b else "",'})
MUTANTS += [{"name": "kida-negative-exponent-dropped", "file": K, "old": _K_POW, "new": '("(Tgas/300.0)" if b == 1 else f"pow(Tgas/300.0, {b})") if b > 0 else "",', "rules": ["R3"]},
            {"name": "kida-half-exponent-inverted", "file": K, "old": _K_POW, "new": '("1.0/sqrt(Tgas/300.0)" if abs(b) == 0.5 else f"pow(Tgas/300.0, {b})") if b else "",', "rules": ["R3"]}]

# R5 (shared with C06.R1) in the spelling "statement records": a dataclass holds the pieces, a method of it writes the text
_RA_OLD = ('        rateassign = [\n            "\\n".join(\n                [\n                    f"if ({trange}) {{",\n                    f"{rate_sym}[{ridx}] = {rateexpr};",\n'
           '                    f"}}",\n                ]\n            )\n            if trange\n            else f"{rate_sym}[{ridx}] = {rateexpr};"\n'
           '            for ridx, (trange, rateexpr) in enumerate(zip(tranges, rateexprs))\n        ]\n\n        return rateassign\n')
_RA_CLS = ('@dataclass\nclass _Stmt:\n    symbol: str\n    index: int\n    window: str\n    expr: str\n\n    def code(self) -> str:\n        assign = f"{self.symbol}[{self.index}] = {self.expr};"\n'
           '        if not self.window:\n            return assign\n        return "\\n".join([f"if ({self.window}) {{", assign, f"}}"])\n\n\n')


def _stmt_records(index):
    return [{"file": TLF, "old": _RA_OLD, "new": '        stmts = [_Stmt(rate_sym, ' + index + ', trange, rateexpr) for ridx, (trange, rateexpr) in enumerate(zip(tranges, rateexprs))]\n\n'
             '        return [stm.code() for stm in stmts]\n'},
            {"file": TLF, "old": "class TemplateLoader:\n", "new": _RA_CLS + "class TemplateLoader:\n"}]


BENIGN.append({"name": "assign-rates-statement-records", "edits": _stmt_records("ridx")})
MUTANTS.append({"name": "assign-rates-statement-records-shifted-index", "edits": _stmt_records("ridx + 1"), "rules": ["R5"]})

MUTANTS.append({"name": "assign-rates-loop-skips-zero-placeholders", "file": TLF, "old": _RA_OLD,
                "new": '        rateassign = []\n        for ridx, (trange, rateexpr) in enumerate(zip(tranges, rateexprs)):\n            if rateexpr == "0.0":\n                continue\n'
                       '            assign = f"{rate_sym}[{ridx}] = {rateexpr};"\n            rateassign.append(f"if ({trange}) {{\\n{assign}\\n}}" if trange else assign)\n\n        return rateassign\n', "rules": ["R8"]})
BENIGN.append({"name": "assign-rates-loop-one-append-per-reaction", "file": TLF, "old": _RA_OLD,
               "new": '        rateassign = []\n        for ridx, (trange, rateexpr) in enumerate(zip(tranges, rateexprs)):\n'
                      '            assign = f"{rate_sym}[{ridx}] = {rateexpr};"\n            rateassign.append(f"if ({trange}) {{\\n{assign}\\n}}" if trange else assign)\n\n        return rateassign\n'})
