"""E5: statement parser for the C++ driver functions inside the templates, and
the small dataflow queries C19 needs (flag discipline, guarded returns).

Beyond the parser (`parse_body`, `walk`):
 * `walk` knows guard clauses: after `if (c) { ..; return/throw/break/continue; }` the following statements of the block
   run under `!c` (conds carry (kind, tokens, polarity, originating statement));
 * `truth` / `guards_truth`: three-valued evaluation of a C condition under concrete values of some identifiers
   (`cvflag = -3`), so that a test is recognised by what it decides, not by how it is spelt;
 * `inline_calls`: a call `helper(a, b);` / `x = helper(a, b);` of a function defined in the same file is replaced by its body
   under C++ parameter passing (by-value parameters the helper writes are fresh copies, reference / pointer parameters alias);
 * `const_defs`: named numeric constants of file / class scope (`static const int N = 5;`, `#define N 5`);
 * `copies`: the whole-array copies a statement performs (index loop, memcpy, std::copy, std::copy_n);
 * `Sym`: straight-line symbolic execution (scalars as C expressions over the values at the start, arrays as named
   values, branches decided by the concrete values) -- what a piece of code leaves in `dt`, `t0`, `ab` for a given flag;
 * `Fn`: positions and definitions of a function's locals (`expand` replaces a once-defined local by its definition);
 * `handler_entry_states`: the states in which a `catch` handler can be entered (one per statement of the try block that may throw).
"""
from __future__ import annotations

import re

from . import calg

TOK = re.compile(r"""
    \s+
  | (?P<str>"(?:\\.|[^"\\])*")
  | (?P<chr>'(?:\\.|[^'\\])*')
  | (?P<num>(?:\d+\.\d*|\.\d+|\d+)(?:[eE][+-]?\d+)?[fFuUlL]*)
  | (?P<id>[A-Za-z_]\w*)
  | (?P<op><<<|>>>|->|::|\+\+|--|&&|\|\||[<>=!+\-*/%&|^]=|<<|>>|[-+*/%<>=!&|^~?:;,.(){}\[\]])
""", re.X)


class CStmtError(Exception):
    pass


DEFINE = re.compile(r"^[ \t]*#[ \t]*define[ \t]+(\w+)\(([^)\n]*)\)((?:\\\n|[^\n])*)", re.M)


def macro_defs(text: str) -> dict:
    """function-like macros `#define NAME(a, b) body` of a file: {NAME: ([params], body)}"""
    out = {}
    for m in DEFINE.finditer(text):
        out[m.group(1)] = ([p.strip() for p in m.group(2).split(",") if p.strip()], m.group(3).replace("\\\n", " ").strip())
    return out


def expand_macros(text: str, defs: dict, depth=0) -> str:
    """`NAME(x, y)` -> the macro's body with its parameters replaced (as the preprocessor does, minus # and ##)"""
    if not defs or depth > 4:
        return text
    pat = re.compile(r"\b(" + "|".join(map(re.escape, defs)) + r")\s*\(")
    out = []
    i = 0
    while True:
        m = pat.search(text, i)
        if not m:
            out.append(text[i:])
            break
        ls = text.rfind("\n", 0, m.start()) + 1
        if text[ls:m.start()].lstrip().startswith("#"):        # the definition itself
            out.append(text[i:m.end()])
            i = m.end()
            continue
        j, d = m.end(), 1
        while j < len(text) and d:
            d += text[j] == "("
            d -= text[j] == ")"
            j += 1
        args, cur, d = [], "", 0
        for ch in text[m.end():j - 1]:
            if ch == "," and d == 0:
                args.append(cur)
                cur = ""
            else:
                d += ch in "([{"
                d -= ch in ")]}"
                cur += ch
        if cur.strip() or args:
            args.append(cur)
        params, body = defs[m.group(1)]
        out.append(text[i:m.start()])
        if len(args) == len(params):
            bind = {p_: a.strip() for p_, a in zip(params, args)}
            sub = re.sub(r"\b(" + "|".join(map(re.escape, params)) + r")\b", lambda mm: bind[mm.group(1)], body) if params else body
            out.append(" " + expand_macros(sub, {k: v for k, v in defs.items() if k != m.group(1)}, depth + 1) + " ")
        else:
            out.append(text[m.start():j])
        i = j
    return "".join(out)


CONSTDEF = re.compile(r"^[ \t]*(?:(?:static|inline|extern)\s+)*(?:constexpr|const)\s+(?:(?:static|const|unsigned|signed|long|short)\s+)*\w+\s+(\w+)\s*(?:=\s*([^;{}]+)|\{([^;{}]*)\})\s*;", re.M)
OBJDEF = re.compile(r"^[ \t]*#[ \t]*define[ \t]+(\w+)[ \t]+([^\n\\]+?)[ \t]*$", re.M)


def const_defs(text: str, known=None) -> dict:
    """named numeric constants a piece of C++ text (file / class scope) defines -- `static const int N = 5;`, `constexpr double B{10.0};`,
    `#define N 5`, `#define M (N + 1)` -- as {name: number}.  A name defined twice with different values (conditional
    compilation) or by anything that is not a number (or by such a name) is left out."""
    text = re.sub(r"//[^\n]*", "", text)
    defs = sorted(list(CONSTDEF.finditer(text)) + list(OBJDEF.finditer(text)), key=lambda x: x.start())
    banned = set()
    for _ in range(4):
        vals = dict(known or {})
        seen = {}
        for m in defs:
            name = m.group(1)
            rhs = m.group(2) if m.group(2) is not None else (m.group(3) if m.re is CONSTDEF else None)
            try:
                v = value(tokenize(rhs), vals) if rhs and rhs.strip() and name not in banned else UNK
            except CStmtError:
                v = UNK
            if isinstance(v, bool) or not isinstance(v, (int, float)) or (name in seen and seen[name] != v):
                v = UNK
            seen[name] = v
            vals.pop(name, None)
            if v is not UNK:
                vals[name] = v
        bad = {k for k, v in seen.items() if v is UNK}
        if bad <= banned:
            break
        banned |= bad
    return {k: v for k, v in seen.items() if v is not UNK}


def const_tokens(v):
    """a number as expression tokens"""
    t = repr(v)
    return [t] if v >= 0 else ["(", "-", t[1:], ")"]


def tokenize(s: str):
    lines = []
    cont = False
    for l in s.split("\n"):                 # preprocessor lines (with their continuation lines) are not statements
        drop = cont or l.lstrip().startswith("#")
        cont = drop and l.rstrip().endswith("\\")
        lines.append("" if drop else l)
    s = "\n".join(lines)
    out = []
    i = 0
    while i < len(s):
        m = TOK.match(s, i)
        if not m:
            raise CStmtError(f"cannot tokenise at {s[i:i + 20]!r}")
        i = m.end()
        if m.lastgroup:
            out.append(m.group(m.lastgroup))
    return out


class P:
    def __init__(self, toks):
        self.t = toks
        self.i = 0

    def peek(self, k=0):
        return self.t[self.i + k] if self.i + k < len(self.t) else None

    def eat(self, v=None):
        x = self.peek()
        if x is None or (v is not None and x != v):
            raise CStmtError(f"expected {v!r}, found {x!r} near {' '.join(self.t[max(0, self.i - 6):self.i + 4])}")
        self.i += 1
        return x

    def until(self, closers, consume=True):
        """tokens up to a closer at depth 0."""
        depth = 0
        out = []
        while True:
            x = self.peek()
            if x is None:
                raise CStmtError("unexpected end of text")
            if depth == 0 and x in closers:
                if consume:
                    self.i += 1
                return out
            if x in "([{":
                depth += 1
            elif x in ")]}":
                depth -= 1
            out.append(x)
            self.i += 1

    def paren(self):
        self.eat("(")
        return self.until((")",))

    def stmt(self):
        x = self.peek()
        if x == "{":
            self.eat("{")
            body = []
            while self.peek() != "}":
                body.append(self.stmt())
            self.eat("}")
            return ("block", body)
        if x == "if":
            self.eat()
            c = self.paren()
            th = self.stmt()
            el = None
            if self.peek() == "else":
                self.eat()
                el = self.stmt()
            return ("if", c, th, el)
        if x == "for":
            self.eat()
            self.eat("(")
            init = self.until((";",))
            cond = self.until((";",))
            inc = self.until((")",))
            return ("for", init, cond, inc, self.stmt())
        if x == "while":
            self.eat()
            c = self.paren()
            return ("while", c, self.stmt())
        if x == "do":
            self.eat()
            b = self.stmt()
            self.eat("while")
            c = self.paren()
            if self.peek() == ";":          # (a macro body may leave the semicolon to its caller)
                self.eat(";")
            if norm(c) in ("0", "false") and not any(x[0] in ("break", "continue") and not any(g[0] in ("for", "while") for g in cs) for x, cs in walk(b)):
                return b                    # `do { .. } while (0)`: the statements, once
            return ("dowhile", c, b)
        if x == "return":
            self.eat()
            return ("return", self.until((";",)))
        if x in ("break", "continue"):
            self.eat()
            self.eat(";")
            return (x,)
        if x == "throw":
            self.eat()
            return ("throw", self.until((";",)))
        if x == "switch":
            return self.switch()
        if x == "try":
            self.eat()
            b = self.stmt()
            hs = []
            while self.peek() == "catch":
                self.eat()
                d = self.paren()
                hs.append((d, self.stmt()))
            return ("try", b, hs)
        if x == ";":
            self.eat()
            return ("expr", [])
        return ("expr", self.until((";",)))


def _switch(self):
    """`switch (E) { case A: case B: S..; break; default: T.. }` is read as the chain `if (E == A || E == B) { S.. } else { T.. }`
    (cases are disjoint; E is a plain value here).  A case that falls through into the next one is not understood."""
    self.eat("switch")
    e = self.paren()
    self.eat("{")
    arms = []          # (labels | None for default, [stmts])
    labels, body, open_ = [], [], False
    while self.peek() != "}":
        x = self.peek()
        if x in ("case", "default"):
            if open_ and body:
                if not always_exits(("block", body)):
                    raise CStmtError("a switch case falls through into the next one")
                arms.append((labels, body))
                labels, body = [], []
            open_ = True
            self.eat()
            if x == "case":
                lab = []
                while self.peek() != ":" or (self.peek(1) == ":" ):
                    lab.append(self.eat())
                labels.append(lab)
            else:
                labels.append(None)
            self.eat(":")
            continue
        if not open_:
            raise CStmtError("statement before the first case of a switch")
        body.append(self.stmt())
    self.eat("}")
    if open_:
        arms.append((labels, body))
    chain = None
    default = None
    for labs, body in arms:
        def unbreak(b):      # the `break` that ends the case (possibly inside the case's own braces)
            if b and b[-1] == ("break",):
                return b[:-1]
            if b and b[-1][0] == "block":
                return b[:-1] + [("block", unbreak(b[-1][1]))]
            return b
        body = unbreak(body)
        if any(st[0] == "break" and not any(g[0] in ("for", "while") for g in c) for b in body for st, c in walk(b)):
            raise CStmtError("a `break` in the middle of a switch case")
        if None in labs:
            default = ("block", body)
            labs = [l for l in labs if l is not None]
            if not labs:
                continue
        cond = []
        for l in labs:
            cond += (["||"] if cond else []) + ["("] + list(e) + [")", "=="] + ["("] + l + [")"]
        arms_if = ["if", cond, ("block", body), None]
        if chain is None:
            chain = first = arms_if
        else:
            chain[3] = arms_if
            chain = arms_if
    if chain is None:
        return default or ("block", [])
    chain[3] = default

    def freeze(a):
        return ("if", a[1], a[2], freeze(a[3]) if isinstance(a[3], list) else a[3])
    return freeze(first)


P.switch = _switch


def parse_body(text: str):
    """text of a function body including its braces."""
    p = P(tokenize(text))
    st = p.stmt()
    return st


def txt(tokens) -> str:
    return " ".join(tokens)


def norm(tokens) -> str:
    return "".join(tokens)


JUMPS = ("return", "throw", "break", "continue")


def always_exits(st) -> bool:
    """control never reaches the statement after `st` (it ends in return / throw / break / continue on every path)"""
    k = st[0]
    if k in JUMPS:
        return True
    if k == "block":
        return any(always_exits(s) for s in st[1])
    if k == "if":
        return st[3] is not None and always_exits(st[2]) and always_exits(st[3])
    return False


def walk(st, conds=()):
    """yield (stmt, conds) with conds = tuple of (kind, tokens, polarity, originating statement).
    Guard clauses count: the statements that follow `if (c) { ..leave.. }` inside a block are under (c, False), those that
    follow `if (c) {..} else { ..leave.. }` under (c, True)."""
    yield st, conds
    k = st[0]
    if k == "block":
        extra = ()
        for s in st[1]:
            yield from walk(s, conds + extra)
            if s[0] == "if":
                th, el = always_exits(s[2]), s[3] is not None and always_exits(s[3])
                if th and not el:
                    extra += (("if", tuple(s[1]), False, s),)
                elif el and not th:
                    extra += (("if", tuple(s[1]), True, s),)
    elif k == "if":
        yield from walk(st[2], conds + (("if", tuple(st[1]), True, st),))
        if st[3] is not None:
            yield from walk(st[3], conds + (("if", tuple(st[1]), False, st),))
    elif k == "for":
        yield from walk(st[4], conds + (("for", tuple(st[2]), True, st),))
    elif k in ("while", "dowhile"):
        yield from walk(st[2], conds + (("while", tuple(st[1]), True, st),))
    elif k == "try":
        yield from walk(st[1], conds + (("try", (), True, st),))
        for d, b in st[2]:
            yield from walk(b, conds + (("catch", tuple(d), True, st),))


def assigned_call(tokens):
    """`[type] var = Callee(args)`  ->  (var, callee, [arg token lists]) else None."""
    if "=" not in tokens:
        return None
    i = tokens.index("=")
    lhs, rhs = tokens[:i], tokens[i + 1:]
    if not lhs or not re.match(r"[A-Za-z_]\w*$", lhs[-1]) or len(rhs) < 3 or rhs[1] != "(" or rhs[-1] != ")":
        return None
    if not re.match(r"[A-Za-z_]\w*$", rhs[0]):
        return None
    depth = 0
    args, cur = [], []
    for t in rhs[2:-1]:
        if t in "([{":
            depth += 1
        elif t in ")]}":
            depth -= 1
        if t == "," and depth == 0:
            args.append(cur)
            cur = []
        else:
            cur.append(t)
    if cur:
        args.append(cur)
    return lhs[-1], rhs[0], args


def reads(tokens, var):
    """does the token list read `var` (other than as the target of a plain assignment)?"""
    toks = list(tokens)
    if "=" in toks:
        i = toks.index("=")
        if toks[:i] and toks[i - 1] == var and all(t not in ("[", "]") for t in toks[:i]):
            toks = toks[i + 1:]
    return var in toks


# ------------------------------------------------------------------ flag discipline

def unchecked_flags(body, producers, opaque=None, unknown=None):
    """Dataflow over the statement tree: a variable assigned from a call to one of `producers` must be read
    before it is overwritten or the function returns.  -> [(var, callee, how)]
    `opaque(name, var)`: can a call `name(..)` read `var` without naming it (a local closure that captured it, a function that
    could not be looked into)?  Such a call may be the test: the pending status is dropped from the verdict and listed in
    `unknown` as (var, callee, name) instead of being reported as untested."""
    problems = []

    def reads(toks, v):
        if _reads(toks, v):
            return True
        if opaque is not None:
            for j, t in enumerate(toks):
                if IDENT.match(t) and toks[j + 1:j + 2] == ["("] and not (j and toks[j - 1] in (".", "->", "::")) and opaque(t, v):
                    if unknown is not None and (v, t) not in [(a, c) for a, b, c in unknown]:
                        unknown.append((v, None, t))
                    return True
        return False

    def run(st, pending):
        k = st[0]
        if k == "block":
            for s in st[1]:
                pending = run(s, pending)
                if pending is None:
                    return None
            return pending
        if k == "expr":
            toks = st[1]
            ac = assigned_call(toks)
            pend = dict(pending)
            # reads inside the statement clear pending flags (arguments of the call itself count as reads)
            for v in list(pend):
                if reads(toks, v):
                    del pend[v]
            if ac and producers(ac[1]):
                var = ac[0]
                if var in pend:
                    problems.append((var, pend[var], f"overwritten by the result of {ac[1]} before it was tested"))
                pend[var] = ac[1]
            elif ac is None and "=" in toks:
                i = toks.index("=")
                if i >= 1 and toks[i - 1] in pend and "[" not in toks[:i]:
                    problems.append((toks[i - 1], pend[toks[i - 1]], "overwritten before it was tested"))
                    del pend[toks[i - 1]]
            return pend
        if k == "if":
            pend = {v: c for v, c in pending.items() if not reads(st[1], v)}
            a = run(st[2], dict(pend))
            b = run(st[3], dict(pend)) if st[3] is not None else dict(pend)
            if a is None and b is None:
                return None
            out = {}
            for x in (a, b):
                if x:
                    out.update(x)
            return out
        if k in ("for", "while", "dowhile"):
            cond = st[2] if k == "for" else st[1]
            bodyst = st[4] if k == "for" else st[2]
            pend = dict(pending)
            if k == "for":
                r = run(("expr", st[1]), pend)
                pend = r if r is not None else pend
            pend = {v: c for v, c in pend.items() if not reads(cond, v)}
            after_once = run(bodyst, dict(pend))
            if k == "dowhile" and not after_once:
                return after_once            # the body ran: what it read is read (None: it always leaves)
            if after_once:
                # second iteration: anything still pending that gets re-assigned is an overwrite -- unless the loop condition,
                # evaluated in between, reads it (`for (..; k < n && flag == RETRY; ..) flag = call();`)
                again = run(bodyst, {v: c for v, c in after_once.items() if not reads(cond, v)})
                merged = dict(pend)
                merged.update(after_once)
                if again:
                    merged.update(again)
                return merged
            return pend if after_once is None else dict(pend)
        if k == "return":
            pend = {v: c for v, c in pending.items() if not reads(st[1], v)}
            for v, c in pend.items():
                problems.append((v, c, f"never tested before `return {txt(st[1])}`"))
            return None
        if k == "throw":
            return None
        if k in ("break", "continue"):
            return dict(pending)
        if k == "try":
            a = run(st[1], dict(pending))
            out = dict(a or {})
            for d, b in st[2]:
                r = run(b, dict(pending))
                if r:
                    out.update(r)
            return out
        return dict(pending)

    _reads = globals()["reads"]
    end = run(body, {})
    if end:
        for v, c in end.items():
            problems.append((v, c, "never tested before the function ends"))
    # de-duplicate
    seen = set()
    out = []
    for p in problems:
        if p not in seen:
            seen.add(p)
            out.append(p)
    return out


# ------------------------------------------------------------------ expressions: casts, concrete three-valued evaluation

IDENT = re.compile(r"[A-Za-z_]\w*$")
CAST_TYPES = {"realtype", "double", "float", "int", "long", "unsigned", "bool", "size_t", "sunindextype", "sunrealtype"}
ASSIGN_OPS = ("=", "+=", "-=", "*=", "/=", "%=", "&=", "|=", "^=")


def strip_casts(tokens):
    """`(realtype)x`, `static_cast<realtype>(x)` -> `x` / `(x)` (value-preserving for the comparisons made here)"""
    out = []
    i, n = 0, len(tokens)
    while i < n:
        t = tokens[i]
        if t == "(" and i + 3 < n and tokens[i + 1] in CAST_TYPES and tokens[i + 2] == ")" and not (out and IDENT.match(out[-1])) \
                and (IDENT.match(tokens[i + 3]) or tokens[i + 3] in ("(", "-", "+", "!") or tokens[i + 3][0].isdigit() or tokens[i + 3][0] == "."):
            i += 3
            continue
        if t in ("static_cast", "reinterpret_cast") and i + 4 < n and tokens[i + 1] == "<" and tokens[i + 2] in CAST_TYPES and tokens[i + 3] == ">" and tokens[i + 4] == "(":
            i += 4
            continue
        out.append(t)
        i += 1
    return out


UNK = None
_CONST = {"true": True, "false": False, "NULL": 0, "nullptr": 0}


def _ev(e, env):
    k = e[0]
    if k == "num":
        v = e[1]
        return int(v) if re.fullmatch(r"\d+", e[2]) else v
    if k == "id":
        if e[1] in env:
            return env[e[1]]
        return _CONST.get(e[1], UNK)
    if k == "neg":
        v = _ev(e[1], env)
        return UNK if v is UNK else -v
    if k == "not":
        v = _ev(e[1], env)
        return UNK if v is UNK else (not v)
    if k == "cond":
        c = _ev(e[1], env)
        if c is UNK:
            a, b = _ev(e[2], env), _ev(e[3], env)
            return a if (a is not UNK and a == b) else UNK
        return _ev(e[2], env) if c else _ev(e[3], env)
    if k == "bin":
        op = e[1]
        a, b = _ev(e[2], env), _ev(e[3], env)
        if op == "&&":
            if (a is not UNK and not a) or (b is not UNK and not b):
                return False
            return UNK if a is UNK or b is UNK else True
        if op == "||":
            if (a is not UNK and a) or (b is not UNK and b):
                return True
            return UNK if a is UNK or b is UNK else False
        if a is UNK or b is UNK:
            return UNK
        try:
            if op == "==":
                return a == b
            if op == "!=":
                return a != b
            if op == "<":
                return a < b
            if op == ">":
                return a > b
            if op == "<=":
                return a <= b
            if op == ">=":
                return a >= b
            if op == "+":
                return a + b
            if op == "-":
                return a - b
            if op == "*":
                return a * b
            if op == "/":
                return (a // b if isinstance(a, int) and isinstance(b, int) and not isinstance(a, bool) else a / b) if b else UNK
            if op == "%":
                return a % b if b else UNK
        except TypeError:
            return UNK
    return UNK


def value(tokens, env):
    """value of a C expression under {identifier: number / bool}; None when it depends on anything else"""
    try:
        return _ev(calg.parse(" ".join(strip_casts(list(tokens)))), env)
    except calg.CParseError:
        return UNK


def truth(tokens, env):
    v = value(tokens, env)
    return None if v is UNK else bool(v)


def guards_truth(conds, env):
    """conjunction of the `if` conditions (with their polarity) a statement runs under: False as soon as one is false,
    True when all are known true, None otherwise.  Loop / try contexts do not restrict."""
    res = True
    for g in conds:
        if g[0] != "if":
            continue
        t = truth(g[1], env)
        if t is None:
            res = None
            continue
        if t != g[2]:
            return False
    return res


# ------------------------------------------------------------------ assignments, locals

def _top_split(tokens, seps):
    depth = 0
    parts, cur = [], []
    for t in tokens:
        if t in ("(", "[", "{"):
            depth += 1
        elif t in (")", "]", "}"):
            depth -= 1
        if depth == 0 and t in seps:
            parts.append(cur)
            cur = []
        else:
            cur.append(t)
    parts.append(cur)
    return parts


def assignments(tokens):
    """scalar variables an expression statement (or for-header part) writes: [(name, op, rhs tokens | None, is_declaration)].
    op is an assignment operator, '++' / '--', or '&' (address handed to a call: value unknown afterwards)."""
    out = []
    toks = list(tokens)
    if not toks:
        return out
    depth = 0
    at = None
    for i, t in enumerate(toks):
        if t in ("(", "[", "{"):
            depth += 1
        elif t in (")", "]", "}"):
            depth -= 1
        elif depth == 0 and t in ASSIGN_OPS:
            at = i
            break
    if at is not None:
        lhs, rhs = toks[:at], toks[at + 1:]
        if lhs and IDENT.match(lhs[-1]) and not any(x in ("[", ".", "->", "(") for x in lhs):
            out.append((lhs[-1], toks[at], rhs, len(lhs) > 1))
        elif lhs and "[" in lhs and IDENT.match(lhs[0]):
            out.append((lhs[0], "[]" + toks[at], rhs, False))
    elif len(toks) == 2 and toks[1] in ("++", "--") and IDENT.match(toks[0]):
        out.append((toks[0], toks[1], None, False))
    elif len(toks) == 2 and toks[0] in ("++", "--") and IDENT.match(toks[1]):
        out.append((toks[1], toks[0], None, False))
    for i, t in enumerate(toks):
        if t == "&" and i + 1 < len(toks) and IDENT.match(toks[i + 1]) and i >= 1 and toks[i - 1] in ("(", ","):
            out.append((toks[i + 1], "&", None, False))
    return out


def written(st) -> set:
    """names of the variables (scalars and arrays) written anywhere inside a statement"""
    names = set()
    for s, _ in walk(st):
        parts = [s[1]] if s[0] == "expr" else [s[1], s[3]] if s[0] == "for" else []
        for pt in parts:
            for nm, op, rhs, decl in assignments(pt):
                names.add(nm)
        if s[0] == "expr":
            for d, src, n in copies(s) or []:
                names.add(d)
    return names


class Fn:
    """document order of a function's statements and the definitions of its locals"""

    def __init__(self, body):
        self.body = body
        self.seq = list(walk(body))
        self.pos = {id(s): i for i, (s, c) in enumerate(self.seq)}
        self.defs = {}
        for i, (s, c) in enumerate(self.seq):
            parts = [s[1]] if s[0] == "expr" else [s[1], s[3]] if s[0] == "for" else []
            for pt in parts:
                for nm, op, rhs, decl in assignments(pt):
                    self.defs.setdefault(nm, []).append((i, op, rhs, decl))
            if s[0] in ("if", "while"):
                # `if (++n > m)`: n is incremented when the test is made (op '++cond', at the position of the test)
                for j, t in enumerate(s[1]):
                    if t in ("++", "--") and j + 1 < len(s[1]) and IDENT.match(s[1][j + 1]) and not (j and (IDENT.match(s[1][j - 1]) or s[1][j - 1] in (")", "]"))):
                        self.defs.setdefault(s[1][j + 1], []).append((i, t + "cond", None, False))
                    elif t in ("++", "--") and j and IDENT.match(s[1][j - 1]) and not (j > 1 and s[1][j - 2] in (".", "->")):
                        # `if (n++ >= m)`: incremented by the test as well (which compares the value before)
                        self.defs.setdefault(s[1][j - 1], []).append((i, t + "cond", None, False))

    def written_between(self, names, p, q) -> bool:
        return any(p < i < q for nm in names for i, op, rhs, decl in self.defs.get(nm, ()))

    def expand(self, tokens, at, depth=0, keep=()):
        """replace every local that has exactly one definition `type name = expr;` before position `at` -- with nothing
        `expr` reads written in between -- by `(expr)`: `bool ok = flag >= 0; .. if (ok)` is a test on flag
        (`keep`: names the caller gives values to itself)"""
        out = []
        toks = list(tokens)
        for j, t in enumerate(toks):
            d = self.defs.get(t)
            if d and t not in keep and len(d) == 1 and d[0][1] == "=" and d[0][3] and d[0][0] < at and depth < 6 \
                    and not (j + 1 < len(toks) and toks[j + 1] == "(") and not (j and toks[j - 1] in (".", "->", "::")):
                rhs = d[0][2]
                reads_ = {x for x in rhs if IDENT.match(x)}
                if not self.written_between(reads_, d[0][0], at):
                    out += ["("] + self.expand(rhs, d[0][0], depth + 1, keep) + [")"]
                    continue
            out.append(t)
        return out


# ------------------------------------------------------------------ whole-array copies

def copies(st):
    """[(dst, src, n)] when `st` does nothing but copy n leading elements of array src into dst (one or more pairs), else None:
    `for (int i = 0; i < n; i++) { dst[i] = src[i]; .. }`, memcpy(dst, src, n * sizeof(T)), std::copy(src, src + n, dst),
    std::copy_n(src, n, dst)."""
    if st[0] == "for":
        init, cond, inc = st[1], st[2], st[3]
        if len(init) < 3 or init[-2:] != ["=", "0"] or not IDENT.match(init[-3]):
            return None
        i = init[-3]
        if len(cond) < 3 or cond[0] != i or cond[1] != "<":
            return None
        n = norm(cond[2:])
        if norm(inc) not in (f"{i}++", f"++{i}", f"{i}+=1", f"{i}={i}+1"):
            return None
        body = st[4][1] if st[4][0] == "block" else [st[4]]
        res = []
        for b in body:
            if b[0] != "expr":
                return None
            t = b[1]
            if not t:
                continue
            if len(t) == 9 and IDENT.match(t[0]) and t[1:5] == ["[", i, "]", "="] and IDENT.match(t[5]) and t[6:] == ["[", i, "]"]:
                res.append((t[0], t[5], n))
            else:
                return None
        return res or None
    if st[0] == "expr" and st[1]:
        t = list(st[1])
        while len(t) > 2 and t[1] == "::":
            t = t[2:]
        if len(t) >= 4 and t[1] == "(" and t[-1] == ")" and t[0] in ("memcpy", "copy", "copy_n", "memmove"):
            args = _top_split(t[2:-1], (",",))
            if len(args) != 3:
                return None
            if t[0] in ("memcpy", "memmove") and len(args[0]) == 1 and len(args[1]) == 1:
                m = re.fullmatch(r"(.+)\*sizeof\(\w+\)|sizeof\(\w+\)\*(.+)", norm(args[2]))
                return [(args[0][0], args[1][0], (m.group(1) or m.group(2)).strip("()"))] if m else None
            if t[0] == "copy" and len(args[0]) == 1 and len(args[2]) == 1 and len(args[1]) >= 3 and args[1][0] == args[0][0] and args[1][1] == "+":
                return [(args[2][0], args[0][0], norm(args[1][2:]))]
            if t[0] == "copy_n" and len(args[0]) == 1 and len(args[2]) == 1:
                return [(args[2][0], args[0][0], norm(args[1]))]
    return None


# ------------------------------------------------------------------ helper functions defined in the same file

def param_decls(header: str):
    """parameters of `type name(type a, type *b, const T &c, type d = 1)`: [(name, kind, type tokens)] with kind
    'value' (the callee works on a copy), 'ref' or 'ptr' (the callee works on the caller's object); None when not understood"""
    m = re.search(r"\(((?:[^()]|\([^()]*\))*)\)\s*(const)?\s*(:[^{};]*)?$", header.strip(), re.S)
    if not m:
        return None
    inner = m.group(1).strip()
    if not inner or inner == "void":
        return []
    out = []
    for piece in _top_split(tokenize(inner), (",",)):
        if "=" in piece:
            piece = piece[:piece.index("=")]
        core = piece[:piece.index("[")] if "[" in piece else piece
        ids = [j for j, x in enumerate(core) if IDENT.match(x)]
        if not ids:
            return None
        kind = "ref" if "&" in piece or "&&" in piece else "ptr" if "*" in piece or "[" in piece else "value"
        out.append((core[ids[-1]], kind, core[:ids[-1]]))
    return out


def params_of(header: str):
    """parameter names of `type name(type a, type *b, type c = 1)`"""
    d = param_decls(header)
    return None if d is None else [x[0] for x in d]


def sole_call(tokens):
    """`Callee(args)` and nothing else -> (callee, [arg token lists]) else None"""
    toks = list(tokens)
    if len(toks) < 3 or not IDENT.match(toks[0]) or toks[1] != "(" or toks[-1] != ")":
        return None
    d = 0
    for j, t in enumerate(toks[1:], 1):
        d += t == "("
        d -= t == ")"
        if d == 0 and j < len(toks) - 1:
            return None
    return toks[0], ([a for a in _top_split(toks[2:-1], (",",))] if len(toks) > 3 else [])


def declared_locals(body) -> set:
    """names a function body declares (`T x = e;`, `T x;`, `T x[n];`, for-header declarations)"""
    names = set()
    for s, _ in walk(body):
        parts = [s[1]] if s[0] == "expr" else [s[1]] if s[0] == "for" else []
        for pt in parts:
            for nm, op, rhs, decl in assignments(pt):
                if decl and op == "=":
                    names.add(nm)
            core = pt[:pt.index("[")] if "[" in pt else pt
            if len(core) >= 2 and all(IDENT.match(x) or x == "*" for x in core) and IDENT.match(core[-1]) and core[0] not in ("return", "delete", "goto", "new"):
                names.add(core[-1])
    return names


def _idents(st) -> set:
    out = set()
    for s, _ in walk(st):
        for pt in s[1:]:
            if isinstance(pt, list) and (not pt or isinstance(pt[0], str)):
                out.update(t for t in pt if IDENT.match(t))
        if s[0] == "try":
            for d, b in s[2]:
                out.update(t for t in d if IDENT.match(t))
    return out


def inline_calls(st, helpers, depth=0, used=None):
    """helpers: {name: (parameters, parsed body)} of functions defined in the same file, parameters either names or the
    (name, kind, type) triples of `param_decls`.  A statement that is exactly `name(args);`, `x = name(args);` or
    `T x = name(args);` becomes the helper's body (extracted code is still this code) under C++ parameter passing:
      * a reference / pointer parameter IS the caller's object: the argument is written in its place;
      * a by-value parameter the helper never writes is its argument; one it writes (assigns, hands out `&p`) is a fresh
        local copy `T p__byval = arg;` -- what the helper does to it never reaches the caller's variable;
      * the helper may `return e;` only as its last statement; the call's target then receives e.  When e is a local of the
        helper (`int r = 0; ..; return r;`) that local is the target itself;
      * other locals of the helper are renamed when the caller uses the same name.
    A call nested in an expression (statement, condition, return value) is replaced too when the helper is pure (writes nothing
    but its own locals, calls nothing but libm / stdio): `{ return e; }` by `(e)` in place, a longer body through a temporary
    `auto name__ret = name(args);` placed before the statement.  Inlined statements are spliced into the enclosing block."""
    if used is None:
        used = _idents(st)
    k = st[0]
    rec = lambda x: inline_calls(x, helpers, depth, used)

    def toks_(t):
        return _expr_inline(t, helpers)

    def hoisted(tokens, rebuild):
        """statement `rebuild(tokens)` with the calls of pure helpers inside `tokens` moved into temporaries before it"""
        tokens, pre = _hoist(toks_(tokens), helpers, used)
        out = rebuild(tokens)
        if not pre:
            return out
        pre = [inline_calls(x, helpers, depth + 1, used) for x in pre]
        return ("block", [y for x in pre for y in (x[1] if x[0] == "block" else [x])] + [out])
    if k == "block":
        out = []
        for s in st[1]:
            r = rec(s)
            if r is not s and s[0] != "block" and r[0] == "block":
                out.extend(r[1])
            else:
                out.append(r)
        return ("block", out)
    if k == "if":
        return hoisted(st[1], lambda c: ("if", c, rec(st[2]), None if st[3] is None else rec(st[3])))
    if k == "for":
        return ("for", toks_(st[1]), toks_(st[2]), toks_(st[3]), rec(st[4]))
    if k in ("while", "dowhile"):
        return (k, toks_(st[1]), rec(st[2]))
    if k == "try":
        return ("try", rec(st[1]), [(d, rec(b)) for d, b in st[2]])
    if k in ("return", "throw") and depth < 4:
        return hoisted(st[1], lambda c: (k, c))
    if k == "expr" and len(st[1]) >= 3 and depth < 4:
        toks = st[1]
        target = None
        call = sole_call(toks)
        if call is None and "=" in toks:
            i = toks.index("=")
            if i and IDENT.match(toks[i - 1]):
                call, target = sole_call(toks[i + 1:]), toks[:i]
        if call and call[0] in helpers:
            r = _inlined(call[0], call[1], target, helpers[call[0]], used)
            if r is not None:
                used |= _idents(r)
                return inline_calls(r, helpers, depth + 1, used)
        return hoisted(toks, lambda c: ("expr", c) if c != toks else st)
    return st


def _hinfo(helper):
    """(parameters, statements before the final return | None, returned expression | None, pure?) of a helper.  The
    statements are None when the helper returns from the middle (guard clauses: `_unreturn` restructures it); the whole
    result is None when it returns from inside a loop / try."""
    params, body = helper[0], helper[1]
    if body[0] != "block":
        return None
    params = [p if isinstance(p, tuple) else (p, "subst", []) for p in params]
    stmts = list(body[1])
    rets = [(s, c) for s, c in walk(body) if s[0] == "return"]
    ret = None
    if rets and not (len(rets) == 1 and stmts and stmts[-1] is rets[0][0]):
        if any(g[0] not in ("if", "try", "catch") for s, c in rets for g in c):
            return None
        stmts = None
    elif rets:
        ret = list(rets[0][0][1])
        stmts = stmts[:-1]
    own = declared_locals(body) | {p for p, kind, typ in params if kind == "value"}
    pure = written(body) <= own and not may_throw(body)
    return params, stmts, ret, pure


def _has_return(st) -> bool:
    return any(s[0] == "return" for s, _ in walk(st))


def _unreturn(stmts, assign, budget=None):
    """statements of a helper that returns from the middle -> the same computation without `return`: `return e;` becomes
    `assign(e)` and what followed it runs in the other arm of the `if` that guarded it:
        if (c) { A; return x; }  B; return y;      ->      if (c) { A; r = x; } else { B; r = y; }"""
    budget = budget if budget is not None else [200]
    out = []
    for i, s in enumerate(stmts):
        rest = list(stmts[i + 1:])
        budget[0] -= 1
        if budget[0] < 0:
            raise CStmtError("helper too branchy to restructure")
        if s[0] == "return":
            return out + assign(list(s[1]))
        if not _has_return(s):
            out.append(s)
            continue
        if s[0] == "block":
            return out + _unreturn(list(s[1]) + rest, assign, budget)
        if s[0] == "if":
            th = list(s[2][1]) if s[2][0] == "block" else [s[2]]
            el = [] if s[3] is None else list(s[3][1]) if s[3][0] == "block" else [s[3]]

            def ends(b):
                return bool(b) and (b[-1][0] == "return" or (b[-1][0] == "if" and b[-1][3] is not None and ends([b[-1][2]] if b[-1][2][0] != "block" else b[-1][2][1])
                                                             and ends([b[-1][3]] if b[-1][3][0] != "block" else b[-1][3][1])))
            a = _unreturn(th + ([] if ends(th) else rest), assign, budget)
            b = _unreturn(el + ([] if ends(el) else rest), assign, budget)
            return out + [("if", s[1], ("block", a), ("block", b) if b else None)]
        if s[0] == "try" and (not rest or (len(rest) == 1 and rest[0][0] == "return")):
            # `try { ..; return a; } catch (..) { ..; return b; } return c;`: every arm ends by assigning the result -- its own,
            # or (falling out of the try statement) the one that follows, which cannot throw
            def arm(b):
                return ("block", _unreturn((list(b[1]) if b[0] == "block" else [b]) + rest, assign, budget))
            return out + [("try", arm(s[1]), [(d, arm(b)) for d, b in s[2]])]
        raise CStmtError("return inside a loop")
    return out


def _calls_in(tokens, helpers):
    """(i, j, name, args) of the calls `name(args)` = tokens[i:j] of helpers inside an expression"""
    for i, t in enumerate(tokens):
        if t in helpers and i + 1 < len(tokens) and tokens[i + 1] == "(" and not (i and tokens[i - 1] in (".", "->", "::")):
            d = 0
            for j in range(i + 1, len(tokens)):
                d += tokens[j] == "("
                d -= tokens[j] == ")"
                if d == 0:
                    inner = tokens[i + 2:j]
                    yield i, j + 1, t, ([a for a in _top_split(inner, (",",))] if inner else [])
                    break


def _expr_inline(tokens, helpers, depth=0):
    """`name(args)` of a pure helper `{ return e; }` -> `(e)` with the parameters replaced by the (parenthesised) arguments"""
    tokens = list(tokens)
    if depth > 4:
        return tokens
    for i, j, name, args in _calls_in(tokens, helpers):
        h = _hinfo(helpers[name])
        args = _with_defaults(args, helpers[name])
        # (replaced in place nothing is re-ordered: the helper need not be pure, it only must not write anything)
        if h and h[1] == [] and h[2] and (h[3] or not written(helpers[name][1])) and len(args) == len(h[0]) and all(args):
            m = {p[0]: (list(a) if len(a) == 1 else ["("] + list(a) + [")"]) for p, a in zip(h[0], args)}
            return _expr_inline(tokens[:i] + ["("] + _subst_tokens(h[2], m) + [")"] + tokens[j:], helpers, depth + 1)
    return tokens


def _first_evaluated(tokens, i) -> bool:
    """is the call starting at tokens[i] evaluated first and unconditionally in the expression?  (leftmost operand, possibly
    after `x =` / `T x =`, an opening parenthesis or a unary operator)"""
    before = list(tokens[:i])
    if "=" in before:
        j = before.index("=")
        if not j or not all(IDENT.match(x) or x == "*" for x in before[:j]):
            return False
        before = before[j + 1:]
    return all(x in ("(", "!", "-", "+") for x in before)


def _hoist(tokens, helpers, used, lazy_ok=True):
    """calls of helpers nested inside an expression -> (tokens with temporaries, [`auto tmp = call;`]): a pure helper anywhere
    (evaluating it early, or although a `&&` would have skipped it, changes nothing), any other helper only where it is
    evaluated first and unconditionally"""
    tokens = list(tokens)
    pre = []
    for _ in range(4):
        for i, j, name, args in _calls_in(tokens, helpers):
            h = _hinfo(helpers[name])
            args = _with_defaults(args, helpers[name])
            if h and h[1] != [] and (h[2] or h[1] is None) and (h[3] or (not pre and _first_evaluated(tokens, i))) \
                    and len(args) == len(h[0]) and all(args) and not (i == 0 and j == len(tokens)):
                tmp, n = f"{name}__ret", 1
                while tmp in used:
                    n += 1
                    tmp = f"{name}__ret{n}"
                used.add(tmp)
                pre.append(("expr", ["auto", tmp, "="] + tokens[i:j]))
                tokens = tokens[:i] + [tmp] + tokens[j:]
                break
        else:
            break
    return tokens, pre


DROPPED = "__dropped"         # suffix of the name that receives the result of an inlined helper whose caller ignores it


def param_defaults(header: str):
    """default arguments of `type name(type a, type b = 1)` by position: [None, ['1']]; None when not understood"""
    m = re.search(r"\(((?:[^()]|\([^()]*\))*)\)\s*(const)?\s*(:[^{};]*)?;?$", header.strip(), re.S)
    if not m:
        return None
    inner = m.group(1).strip()
    if not inner or inner == "void":
        return []
    return [piece[piece.index("=") + 1:] if "=" in piece else None for piece in _top_split(tokenize(inner), (",",))]


def _with_defaults(args, helper):
    """the arguments of a call with the trailing ones it leaves out filled in from the helper's default arguments (third
    element of the helper, by position; taken from the definition or from the declaration in the class header)"""
    n = len(helper[0])
    if len(args) < n and len(helper) > 2 and helper[2] and len(helper[2]) == n and all(helper[2][len(args):]):
        return list(args) + [list(d) for d in helper[2][len(args):]]
    return args


def _inlined(callee, args, target, helper, used):
    h = _hinfo(helper)
    args = _with_defaults(args, helper)
    if h is None or len(args) != len(h[0]) or any(not a for a in args):
        return None                         # (returns from inside a loop: not modelled)
    params, stmts, ret, _ = h
    body = helper[1]
    multi = stmts is None
    if target is not None and not ret and not multi:
        return None
    core = body if multi else ("block", stmts)
    W = written(core)
    argids = {t for a in args for t in a if IDENT.match(t)}
    taken = used | argids | _idents(body) | {p[0] for p in params}
    m = {}
    prelude = []

    def fresh(base):
        nm, n = base, 1
        while nm in taken:
            n += 1
            nm = f"{base}{n}"
        taken.add(nm)
        return nm
    for (p, kind, typ), a in zip(params, args):
        if kind == "value" and p in W:
            cp = fresh(p + "__byval")
            prelude.append(("expr", list(typ) + [cp, "="] + list(a)))
            m[p] = [cp]
        else:
            m[p] = list(a) if len(a) == 1 else ["("] + list(a) + [")"]
    locs = declared_locals(core) - set(m)
    simple = target is not None and not any(x in (".", "->", "[", "::", "*") for x in target)
    elided = None
    if ret and len(ret) == 1 and ret[0] in locs and simple:
        v, L = target[-1], ret[0]
        if v not in argids and (v == L or v not in _idents(core)):
            elided = L
            m[L] = [v]
    for L in sorted(locs):
        if L != elided and L in (used | argids):
            m[L] = [fresh(f"{L}__{callee}")]
    if multi:
        # guard-clause returns: every `return e;` assigns the target, the rest of the helper is the other arm
        if target is not None and len(target) > 1:
            prelude.append(("expr", list(target)))
        tgt = [fresh(callee + DROPPED)] if target is None else [target[-1]] if simple else list(target)

        def assign(e):
            return [("expr", tgt + ["="] + e)] if e else []
        try:
            return ("block", prelude + _unreturn(_subst_stmt(body, m)[1], assign))
        except CStmtError:
            return None
    new = [_subst_stmt(s, m) for s in stmts]
    if elided is not None:
        v = target[-1]
        # the declaration of the result local is the (first) assignment of the target
        for j, s in enumerate(new):
            if s[0] == "expr" and v in s[1] and (s[1][-1] == v or "=" in s[1] and s[1][s[1].index("=") - 1] == v):
                i = s[1].index(v)
                if i and all(IDENT.match(x) or x == "*" for x in s[1][:i]):
                    new[j] = ("expr", (list(target[:-1]) if len(target) > 1 else []) + s[1][i:])
                break
    elif ret is not None:
        r = _subst_tokens(ret, m)
        # (a result the caller ignores is kept under a name of its own: a dropped status can be seen)
        new.append(("expr", (list(target) if target is not None else ["auto", fresh(callee + DROPPED)]) + ["="] + r))
    return ("block", prelude + new)


def _subst_tokens(tokens, m):
    out = []
    for j, t in enumerate(tokens):
        if t in m and not (j and tokens[j - 1] in (".", "->", "::")):
            r = m[t]
            if len(r) == 4 and r[0] == "(" and r[1] == "&" and r[3] == ")":
                # a pointer parameter bound to `&x`: `*p` is x, `p` as a whole call argument is `&x`
                if out and out[-1] == "*" and (len(out) == 1 or not (IDENT.match(out[-2]) or out[-2] in (")", "]") or out[-2][0].isdigit())):
                    out[-1:] = [r[2]]
                    continue
                if out and out[-1] in ("(", ",") and j + 1 < len(tokens) and tokens[j + 1] in (")", ","):
                    r = r[1:3]
            out += r
        else:
            out.append(t)
    return out


def _subst_stmt(st, m):
    k = st[0]
    if k == "block":
        return ("block", [_subst_stmt(s, m) for s in st[1]])
    if k == "if":
        return ("if", _subst_tokens(st[1], m), _subst_stmt(st[2], m), None if st[3] is None else _subst_stmt(st[3], m))
    if k == "for":
        return ("for", _subst_tokens(st[1], m), _subst_tokens(st[2], m), _subst_tokens(st[3], m), _subst_stmt(st[4], m))
    if k in ("while", "dowhile"):
        return (k, _subst_tokens(st[1], m), _subst_stmt(st[2], m))
    if k == "try":
        return ("try", _subst_stmt(st[1], m), [(d, _subst_stmt(b, m)) for d, b in st[2]])
    if k in ("expr", "return", "throw"):
        return (k, _subst_tokens(st[1], m))
    return tuple(list(st))                   # (a statement of its own: positions are kept per object)


# ------------------------------------------------------------------ straight-line symbolic execution

class Unknown(Exception):
    """the code does something the symbolic executor does not model"""


OPAQUE = "__opaque"
NO_EFFECT_CALLS = {"fprintf", "printf", "fflush", "puts", "fputs", "assert"}


class Sym:
    """State: scalars {name: C expression over the symbols of the initial state}, arrays {name: name of the array value held},
    concrete {name: number} for the variables branches are decided on.  `run` executes statements in order; an `if` whose
    condition is decided by the concrete values takes that branch; an undecided `if` is followed on both sides (a side that
    leaves the function / loop is recorded in `side_exits` and dropped; what two sides that fall through leave differently becomes an unknown value)."""

    def __init__(self, scalars=None, arrays=None, concrete=None, stop=None, skip=None):
        self.s = dict(scalars or {})
        self.a = dict(arrays or {})
        self.c = dict(concrete or {})
        self.stop = stop or (lambda st: False)
        self.skip = skip or (lambda st, sym: False)  # skip(st, state): statements stepped over (a loop the caller takes as run to its end)
        self.side_exits = []
        self._fresh = 0

    def clone(self):
        o = Sym(self.s, self.a, self.c, self.stop, self.skip)
        o.side_exits = self.side_exits
        o._fresh = self._fresh
        return o

    def state(self):
        return (dict(self.s), dict(self.a), dict(self.c))

    def opaque(self, name):
        self._fresh += 1
        return f"{name}{OPAQUE}{self._fresh}"

    def subst(self, tokens):
        out = []
        toks = list(tokens)
        for j, t in enumerate(toks):
            if t in self.s and not (j + 1 < len(toks) and toks[j + 1] == "(") and not (j and toks[j - 1] in (".", "->", "::")):
                out.append("(" + self.s[t] + ")")
            else:
                out.append(t)
        return " ".join(out)

    def expr(self, name):
        return self.s.get(name, name)

    def arr(self, name, depth=0):
        """the array value `name` holds; `const T *from = cond ? a : b;` makes `from` another name of a (or b)"""
        if name in self.s and depth < 4:
            v = self.s[name].replace(" ", "")
            while v.startswith("(") and v.endswith(")"):
                v = v[1:-1]
            if IDENT.match(v) and v != name:
                return self.arr(v, depth + 1)
        return self.a.get(name, name)

    def name(self, name, depth=0):
        """the array a pointer local stands for"""
        if name in self.s and depth < 4:
            v = self.s[name].replace(" ", "")
            while v.startswith("(") and v.endswith(")"):
                v = v[1:-1]
            if IDENT.match(v) and v != name:
                return self.name(v, depth + 1)
        return name

    def pick(self, tokens):
        """`c ? a : b` with c decided by the concrete values is a (or b)"""
        if "?" not in tokens:
            return list(tokens)
        env = self._env()

        def rec(e):
            k = e[0]
            if k == "cond":
                c = _ev(e[1], env)
                return rec(e[2] if c else e[3]) if c is not UNK else ("cond", e[1], rec(e[2]), rec(e[3]))
            if k in ("neg", "not"):
                return (k, rec(e[1]))
            if k == "bin":
                return ("bin", e[1], rec(e[2]), rec(e[3]))
            if k == "call":
                return ("call", e[1], [rec(a) for a in e[2]])
            return e
        try:
            return tokenize(calg.unparse(rec(calg.parse(" ".join(tokens)))))
        except (calg.CParseError, CStmtError):
            return list(tokens)

    def _env(self):
        env = dict(self.c)
        for k, v in self.s.items():
            if k not in env and re.fullmatch(r"\(*-?\d+(\.\d*)?\)*", v.replace(" ", "")):
                w = v.replace(" ", "").strip("()")
                env[k] = int(w) if re.fullmatch(r"-?\d+", w) else float(w)
            elif k not in env and v.replace(" ", "").strip("()") in ("true", "false"):
                env[k] = v.replace(" ", "").strip("()") == "true"
        return env

    def _assign(self, nm, op, rhs, decl):
        if op == "&":
            self.s[nm] = self.opaque(nm)
            self.c.pop(nm, None)
            return
        if op.startswith("[]"):
            self.a[nm] = self.opaque(nm)
            return
        old = self.expr(nm)
        if op in ("++", "--"):
            new = f"({old}) {op[0]} 1"
            cv = value([nm, op[0], "1"], self._env())
        else:
            r = self.subst(self.pick(strip_casts(rhs)))
            new = r if op == "=" else f"({old}) {op[0]} ({r})"
            cv = value(rhs if op == "=" else [nm, op[0], "("] + list(rhs) + [")"], self._env())
        if any(IDENT.match(x) and j + 1 < len(rhs or []) and rhs[j + 1] == "(" and x not in ("log10", "log", "pow", "exp", "sqrt", "fabs", "abs", "min", "max", "fmin", "fmax")
               for j, x in enumerate(rhs or [])):
            # the result of an unknown call
            new = self.opaque(nm)
            cv = UNK
        self.s[nm] = new
        if cv is UNK:
            self.c.pop(nm, None)
        elif nm in self.c or decl:
            self.c[nm] = cv

    def run(self, st):
        """-> None (fell through) | ('stop', st) | ('return', tokens) | ('throw',) | ('break',) | ('continue',)"""
        k = st[0]
        if self.stop(st):
            return ("stop", st)
        if self.skip(st, self):
            return None
        if k == "block":
            for s in st[1]:
                r = self.run(s)
                if r is not None:
                    return r
            return None
        if k == "expr":
            toks = st[1]
            if not toks:
                return None
            cp = copies(st)
            if cp:
                for d, src, n in cp:
                    self.a[self.name(d)] = self.arr(src) if n == "NEQUATIONS" else self.opaque(d)
                return None
            asg = assignments(toks)
            for nm, op, rhs, decl in asg:
                self._assign(nm, op, rhs, decl)
            if not asg and len(toks) >= 3 and toks[1] == "(" and toks[0] not in NO_EFFECT_CALLS:
                # a call this model knows nothing about: the arrays it is handed may change
                for t in toks[2:]:
                    if t in self.a:
                        self.a[t] = self.opaque(t)
            return None
        if k == "if":
            t = truth(st[1], self._env())
            if t is True:
                return self.run(st[2])
            if t is False:
                return self.run(st[3]) if st[3] is not None else None
            a, b = self.clone(), self.clone()
            ra = a.run(st[2])
            rb = b.run(st[3]) if st[3] is not None else None
            if ra is not None and ra[0] == "stop" or rb is not None and rb[0] == "stop":
                raise Unknown(f"the point of interest is under the undecided condition `{txt(st[1])}`")
            if ra is not None and rb is not None:
                raise Unknown(f"both sides of the undecided `if ({txt(st[1])})` leave")
            if ra is not None:
                self.side_exits.append((st, ra))
                self.s, self.a, self.c, self._fresh = b.s, b.a, b.c, max(a._fresh, b._fresh)
                return None
            if rb is not None:
                self.side_exits.append((st, rb))
                self.s, self.a, self.c, self._fresh = a.s, a.a, a.c, max(a._fresh, b._fresh)
                return None
            self._fresh = max(a._fresh, b._fresh)
            if a.state() != b.state():
                # join: what the two sides leave differently is a value nobody knows (it compares equal to nothing)
                for mine, x, y in ((self.s, a.s, b.s), (self.a, a.a, b.a)):
                    for k in set(x) | set(y):
                        mine[k] = x[k] if k in x and k in y and x[k] == y[k] else self.opaque(k)
                self.c = {k: v for k, v in a.c.items() if k in b.c and b.c[k] == v and type(b.c[k]) is type(v)}
                return None
            self.s, self.a, self.c = a.s, a.a, a.c
            return None
        if k == "for":
            cp = copies(st)
            if cp:
                for d, src, n in cp:
                    self.a[self.name(d)] = self.arr(src) if n == "NEQUATIONS" else self.opaque(d)
                return None
        if k in ("for", "while", "dowhile", "try"):
            w = written(st)
            hdr = {nm for nm, op, rhs, decl in assignments(st[1])} if k == "for" else set()
            touched = (w - hdr) & (set(self.s) | set(self.a) | set(self.c))
            if touched or any(s[0] in ("return", "throw") for s, _ in walk(st)):
                raise Unknown(f"a `{k}` statement that writes {sorted(touched) or 'nothing tracked but may leave the function'}")
            for nm in w:
                self.s[nm] = self.opaque(nm)
            return None
        if k == "return":
            return ("return", st[1])
        if k in ("throw", "break", "continue"):
            return (k,)
        raise Unknown(f"statement kind {k}")


NO_THROW_CALLS = NO_EFFECT_CALLS | {"sizeof", "static_cast", "reinterpret_cast", "const_cast", "log10", "log", "pow", "exp", "sqrt", "fabs", "abs", "min", "max", "fmin", "fmax"}


def may_throw(st) -> bool:
    """can executing `st` raise a C++ exception?  A `throw`, a `new`, or any call other than stdio / libm ones; assignments,
    arithmetic and indexing of scalars cannot."""
    for s, _ in walk(st):
        if s[0] == "throw":
            return True
        for pt in ([s[1]] if s[0] in ("expr", "return", "if", "while", "dowhile") else [s[1], s[2], s[3]] if s[0] == "for" else []):
            for j, t in enumerate(pt):
                if t in ("new", "throw") or (IDENT.match(t) and j + 1 < len(pt) and pt[j + 1] == "(" and t not in NO_THROW_CALLS and t not in CAST_TYPES
                                             and t not in ("if", "while", "for", "switch", "return")):
                    return True
    return False


def handler_entry_states(sym, block):
    """The states in which a handler of `try block` can be entered, `sym` being the state before the `try`: one per statement
    of the block that may throw -- everything before it has run, the statement itself has not completed (the result of the
    throwing call is not assigned; what it was handed by address, and what a compound statement writes, is unknown).
    Statements after the last one that may throw never precede the handler (`try { run(); ok = true; } catch ..`).
    -> [Sym]; raises Unknown when the block is not straight-line enough to be followed."""
    states = []
    cur = sym.clone()
    cur.side_exits = []
    for s in (block[1] if block[0] == "block" else [block]):
        if may_throw(s):
            e = cur.clone()
            unknown = set()
            if s[0] == "expr":
                unknown = {nm for nm, op, rhs, decl in assignments(s[1]) if op == "&"} | {t for t in s[1] if t in e.a}
            else:
                unknown = written(s)
            for nm in unknown:
                if nm in e.a:
                    e.a[nm] = e.opaque(nm)
                else:
                    e.s[nm] = e.opaque(nm)
                    e.c.pop(nm, None)
            states.append(e)
        if cur.run(s) is not None:
            break
    return states


def same_value(a: str, b: str):
    """True / False: the two C expressions are / are not the same function of their symbols (canonical algebra);
    None when one of them contains a value the executor could not follow"""
    if OPAQUE in a or OPAQUE in b:
        return None
    try:
        same = calg.canon_str(a).equiv(calg.canon_str(b))
    except calg.CParseError:
        return None
    # an undecided `c ? x : y` is a value this comparison cannot speak about
    return True if same else (None if "?" in a or "?" in b else False)
