"""E5: statement parser for the C++ driver functions inside the templates, and
the small dataflow queries C19 needs (flag discipline, guarded returns)."""
from __future__ import annotations

import re

TOK = re.compile(r"""
    \s+
  | (?P<str>"(?:\\.|[^"\\])*")
  | (?P<chr>'(?:\\.|[^'\\])*')
  | (?P<num>(?:\d+\.\d*|\.\d+|\d+)(?:[eE][+-]?\d+)?[fFuUlL]*)
  | (?P<id>[A-Za-z_]\w*)
  | (?P<op><<<|>>>|->|::|\+\+|--|&&|\|\||[<>=!+\-*/%&|^]=|<<|>>|[-+*/%<>=!&|^~?:;,.(){}\[\]])
""", re.X)


class CStmtError(Exception):
    pass


def tokenize(s: str):
    s = "\n".join("" if l.lstrip().startswith("#") else l for l in s.split("\n"))
    out = []
    i = 0
    while i < len(s):
        m = TOK.match(s, i)
        if not m:
            raise CStmtError(f"cannot tokenise at {s[i:i + 20]!r}")
        i = m.end()
        if m.lastgroup:
            out.append(m.group(m.lastgroup))
    return out


class P:
    def __init__(self, toks):
        self.t = toks
        self.i = 0

    def peek(self, k=0):
        return self.t[self.i + k] if self.i + k < len(self.t) else None

    def eat(self, v=None):
        x = self.peek()
        if x is None or (v is not None and x != v):
            raise CStmtError(f"expected {v!r}, found {x!r} near {' '.join(self.t[max(0, self.i - 6):self.i + 4])}")
        self.i += 1
        return x

    def until(self, closers, consume=True):
        """tokens up to a closer at depth 0."""
        depth = 0
        out = []
        while True:
            x = self.peek()
            if x is None:
                raise CStmtError("unexpected end of text")
            if depth == 0 and x in closers:
                if consume:
                    self.i += 1
                return out
            if x in "([{":
                depth += 1
            elif x in ")]}":
                depth -= 1
            out.append(x)
            self.i += 1

    def paren(self):
        self.eat("(")
        return self.until((")",))

    def stmt(self):
        x = self.peek()
        if x == "{":
            self.eat("{")
            body = []
            while self.peek() != "}":
                body.append(self.stmt())
            self.eat("}")
            return ("block", body)
        if x == "if":
            self.eat()
            c = self.paren()
            th = self.stmt()
            el = None
            if self.peek() == "else":
                self.eat()
                el = self.stmt()
            return ("if", c, th, el)
        if x == "for":
            self.eat()
            self.eat("(")
            init = self.until((";",))
            cond = self.until((";",))
            inc = self.until((")",))
            return ("for", init, cond, inc, self.stmt())
        if x == "while":
            self.eat()
            c = self.paren()
            return ("while", c, self.stmt())
        if x == "do":
            self.eat()
            b = self.stmt()
            self.eat("while")
            c = self.paren()
            self.eat(";")
            return ("dowhile", c, b)
        if x == "return":
            self.eat()
            return ("return", self.until((";",)))
        if x in ("break", "continue"):
            self.eat()
            self.eat(";")
            return (x,)
        if x == "throw":
            self.eat()
            return ("throw", self.until((";",)))
        if x == "try":
            self.eat()
            b = self.stmt()
            hs = []
            while self.peek() == "catch":
                self.eat()
                d = self.paren()
                hs.append((d, self.stmt()))
            return ("try", b, hs)
        if x == ";":
            self.eat()
            return ("expr", [])
        return ("expr", self.until((";",)))


def parse_body(text: str):
    """text of a function body including its braces."""
    p = P(tokenize(text))
    st = p.stmt()
    return st


def txt(tokens) -> str:
    return " ".join(tokens)


def norm(tokens) -> str:
    return "".join(tokens)


def walk(st, conds=()):
    """yield (stmt, conds) with conds = tuple of (kind, tokens, polarity)."""
    yield st, conds
    k = st[0]
    if k == "block":
        for s in st[1]:
            yield from walk(s, conds)
    elif k == "if":
        yield from walk(st[2], conds + (("if", tuple(st[1]), True),))
        if st[3] is not None:
            yield from walk(st[3], conds + (("if", tuple(st[1]), False),))
    elif k == "for":
        yield from walk(st[4], conds + (("for", tuple(st[2]), True),))
    elif k in ("while", "dowhile"):
        yield from walk(st[2], conds + (("while", tuple(st[1]), True),))
    elif k == "try":
        yield from walk(st[1], conds + (("try", (), True),))
        for d, b in st[2]:
            yield from walk(b, conds + (("catch", tuple(d), True),))


def assigned_call(tokens):
    """`[type] var = Callee(args)`  ->  (var, callee, [arg token lists]) else None."""
    if "=" not in tokens:
        return None
    i = tokens.index("=")
    lhs, rhs = tokens[:i], tokens[i + 1:]
    if not lhs or not re.match(r"[A-Za-z_]\w*$", lhs[-1]) or len(rhs) < 3 or rhs[1] != "(" or rhs[-1] != ")":
        return None
    if not re.match(r"[A-Za-z_]\w*$", rhs[0]):
        return None
    depth = 0
    args, cur = [], []
    for t in rhs[2:-1]:
        if t in "([{":
            depth += 1
        elif t in ")]}":
            depth -= 1
        if t == "," and depth == 0:
            args.append(cur)
            cur = []
        else:
            cur.append(t)
    if cur:
        args.append(cur)
    return lhs[-1], rhs[0], args


def reads(tokens, var):
    """does the token list read `var` (other than as the target of a plain assignment)?"""
    toks = list(tokens)
    if "=" in toks:
        i = toks.index("=")
        if toks[:i] and toks[i - 1] == var and all(t not in ("[", "]") for t in toks[:i]):
            toks = toks[i + 1:]
    return var in toks


# ------------------------------------------------------------------ flag discipline

def unchecked_flags(body, producers):
    """Dataflow over the statement tree: a variable assigned from a call to one of `producers` must be read
    before it is overwritten or the function returns.  -> [(var, callee, how)]"""
    problems = []

    def run(st, pending):
        k = st[0]
        if k == "block":
            for s in st[1]:
                pending = run(s, pending)
                if pending is None:
                    return None
            return pending
        if k == "expr":
            toks = st[1]
            ac = assigned_call(toks)
            pend = dict(pending)
            # reads inside the statement clear pending flags (arguments of the call itself count as reads)
            for v in list(pend):
                if reads(toks, v):
                    del pend[v]
            if ac and producers(ac[1]):
                var = ac[0]
                if var in pend:
                    problems.append((var, pend[var], f"overwritten by the result of {ac[1]} before it was tested"))
                pend[var] = ac[1]
            elif ac is None and "=" in toks:
                i = toks.index("=")
                if i >= 1 and toks[i - 1] in pend and "[" not in toks[:i]:
                    problems.append((toks[i - 1], pend[toks[i - 1]], "overwritten before it was tested"))
                    del pend[toks[i - 1]]
            return pend
        if k == "if":
            pend = {v: c for v, c in pending.items() if not reads(st[1], v)}
            a = run(st[2], dict(pend))
            b = run(st[3], dict(pend)) if st[3] is not None else dict(pend)
            if a is None and b is None:
                return None
            out = {}
            for x in (a, b):
                if x:
                    out.update(x)
            return out
        if k in ("for", "while", "dowhile"):
            cond = st[2] if k == "for" else st[1]
            bodyst = st[4] if k == "for" else st[2]
            pend = dict(pending)
            if k == "for":
                r = run(("expr", st[1]), pend)
                pend = r if r is not None else pend
            pend = {v: c for v, c in pend.items() if not reads(cond, v)}
            after_once = run(bodyst, dict(pend))
            if after_once:
                # second iteration: anything still pending that gets re-assigned is an overwrite
                again = run(bodyst, dict(after_once))
                merged = dict(pend)
                merged.update(after_once)
                if again:
                    merged.update(again)
                return merged
            return pend if after_once is None else dict(pend)
        if k == "return":
            pend = {v: c for v, c in pending.items() if not reads(st[1], v)}
            for v, c in pend.items():
                problems.append((v, c, f"never tested before `return {txt(st[1])}`"))
            return None
        if k == "throw":
            return None
        if k in ("break", "continue"):
            return dict(pending)
        if k == "try":
            a = run(st[1], dict(pending))
            out = dict(a or {})
            for d, b in st[2]:
                r = run(b, dict(pending))
                if r:
                    out.update(r)
            return out
        return dict(pending)

    end = run(body, {})
    if end:
        for v, c in end.items():
            problems.append((v, c, "never tested before the function ends"))
    # de-duplicate
    seen = set()
    out = []
    for p in problems:
        if p not in seen:
            seen.add(p)
            out.append(p)
    return out
