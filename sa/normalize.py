"""Behaviour-preserving AST normalisations applied before any rule looks at a function, so that a rule does not depend on
which of several equivalent spellings the source uses.  All are classical compiler transformations over the syntax tree --
nothing is evaluated:

  unroll_static_loops   `for T in <literal tuple/list>` (or a local bound to one just before) -> the body once per element, the
                        loop targets replaced by the element's expressions;  a table scan `for T in <literal>: if C: S; break`
                        [`else: E`] -> the if/elif chain over the rows [with `else: E`];  comprehensions and all/any/tuple/list/join
                        of a generator over such a sequence written out (`all(E(x) for x in (a, b))` -> `E(a) and E(b)`)
  inline_class_constants  reads `<x>.NAME` of a class-level constant of the package (bound once to an immutable literal, never
                        overridden, stored or mutated anywhere) -> the literal  (applied per module, before everything else)
  specialise_dispatch   `if c1: def f.. elif c2: def f.. else: raise` followed by statements using f -> the statements moved into each
                        arm with that arm's f (closure dispatch is the if/elif chain it abbreviates)
  inline_local_defs     a nested `def h(p): return e` / `h = lambda p: e` (or a nested def with straight-line statements and one
                        trailing return) used in the same function -> its body at the call site
  index_loops_to_enumerate  `for i in range(len(X)): x = X[i] ...` -> `for i, x in enumerate(X): ...` (X neither re-bound nor mutated in the body)
  inline_stmt_calls     a call that is a whole statement (`h(a)`, `x = h(a)`, `x[i] = h(a)`, `x += h(a)`, `return h(a)`) to a helper
                        with straight-line control flow at its top level and at most one trailing return -> the helper's
                        statements with parameters renamed to the arguments and locals made unique

  const_getattr         `getattr(x, "name")` -> `x.name`

A transformation that cannot be applied safely (re-assigned names, break/continue, *args, generators, early returns) leaves the
code as it is; the rules then see the original spelling."""
from __future__ import annotations

import ast
import copy
import itertools

_counter = itertools.count(1)
MUTATORS = ("append", "extend", "add", "update", "insert", "pop", "remove", "clear", "sort", "reverse", "setdefault", "popitem", "discard")


# ----------------------------------------------------------------------------------------------------------------- helpers

def _loaded(node) -> set:
    return {n.id for n in ast.walk(node) if isinstance(n, ast.Name) and isinstance(n.ctx, ast.Load)}


def _stored(stmts) -> set:
    """names bound or mutated in place anywhere inside the statements"""
    out = set()
    for st in stmts:
        for n in ast.walk(st):
            if isinstance(n, ast.Name) and isinstance(n.ctx, (ast.Store, ast.Del)):
                out.add(n.id)
            elif isinstance(n, (ast.FunctionDef, ast.ClassDef, ast.AsyncFunctionDef)):
                out.add(n.name)
            elif isinstance(n, ast.Call) and isinstance(n.func, ast.Attribute) and isinstance(n.func.value, ast.Name) and n.func.attr in MUTATORS:
                out.add(n.func.value.id)
            elif isinstance(n, (ast.Assign, ast.AugAssign, ast.AnnAssign)):
                tg = n.targets if isinstance(n, ast.Assign) else [n.target]
                for t in tg:
                    b = t
                    while isinstance(b, (ast.Subscript, ast.Attribute)):
                        b = b.value
                    if isinstance(b, ast.Name) and b is not t:
                        out.add(b.id)
    return out


def _rebound(stmts) -> set:
    """names (re)bound anywhere inside the statements -- unlike _stored, in-place mutation does not count"""
    out = set()
    for st in stmts:
        for n in ast.walk(st):
            if isinstance(n, ast.Name) and isinstance(n.ctx, (ast.Store, ast.Del)):
                out.add(n.id)
            elif isinstance(n, (ast.FunctionDef, ast.ClassDef, ast.AsyncFunctionDef)):
                out.add(n.name)
    return out


class _Subst(ast.NodeTransformer):
    """replace loaded names by expressions (deep copies)"""

    def __init__(self, m):
        self.m = m

    def visit_Name(self, n):
        if isinstance(n.ctx, ast.Load) and n.id in self.m:
            return ast.copy_location(copy.deepcopy(self.m[n.id]), n)
        return n

    # names bound by a comprehension / lambda shadow the outer ones
    def _shadow(self, n, names):
        hidden = {k: self.m.pop(k) for k in list(self.m) if k in names}
        try:
            return self.generic_visit(n)
        finally:
            self.m.update(hidden)

    def visit_Lambda(self, n):
        return self._shadow(n, {a.arg for a in n.args.args + n.args.kwonlyargs})

    def _comp(self, n):
        names = {x.id for g in n.generators for x in ast.walk(g.target) if isinstance(x, ast.Name)}
        # the first iterable is evaluated in the enclosing scope
        if n.generators:
            n.generators[0].iter = self.visit(n.generators[0].iter)
        hidden = {k: self.m.pop(k) for k in list(self.m) if k in names}
        try:
            first = n.generators[0].iter if n.generators else None
            out = self.generic_visit(n)
            if first is not None:
                out.generators[0].iter = first
            return out
        finally:
            self.m.update(hidden)

    visit_ListComp = visit_SetComp = visit_GeneratorExp = visit_DictComp = _comp


class _Rename(ast.NodeTransformer):
    def __init__(self, m):
        self.m = m

    def visit_Name(self, n):
        if n.id in self.m:
            n.id = self.m[n.id]
        return n

    def visit_arg(self, n):
        return n


def _top_level_jumps(stmts) -> bool:
    """break / continue that belong to the enclosing loop (not to a loop nested in the statements)"""
    def rec(node):
        for ch in ast.iter_child_nodes(node):
            if isinstance(ch, (ast.Break, ast.Continue)):
                return True
            if isinstance(ch, (ast.For, ast.While, ast.FunctionDef, ast.Lambda, ast.ClassDef)):
                # `else:` of an inner loop still belongs to the outer one, but that is rare enough to refuse
                if any(isinstance(x, (ast.Break, ast.Continue)) for s in getattr(ch, "orelse", []) for x in ast.walk(s)):
                    return True
                continue
            if rec(ch):
                return True
        return False
    return any(isinstance(s, (ast.Break, ast.Continue)) or rec(s) for s in stmts)


# --------------------------------------------------------------------------------------------------------- static loop unrolling

def _literal_seq(node):
    if isinstance(node, (ast.Tuple, ast.List)) and 1 <= len(node.elts) <= 24 and not any(isinstance(e, ast.Starred) for e in node.elts):
        return node
    return None


_CONST_CTORS = {"re.compile"}


def _pure(e, lambdas: bool = False) -> bool:
    """an expression that can be copied to several places: no calls except on literals/names methods are avoided altogether.
    lambdas=True: a `lambda` EXPRESSION counts as pure (evaluating it runs nothing; its body is not looked into)"""
    todo = [e]
    while todo:
        n = todo.pop()
        if lambdas and isinstance(n, ast.Lambda):
            continue
        if isinstance(n, ast.Call) and ast.unparse(n.func) in _CONST_CTORS and not n.keywords and all(isinstance(a, ast.Constant) for a in n.args):
            continue          # an immutable value built from constants (a compiled pattern): copying the expression copies the value
        if isinstance(n, (ast.Call, ast.Await, ast.Yield, ast.YieldFrom, ast.NamedExpr, ast.Lambda, ast.ListComp, ast.SetComp, ast.DictComp, ast.GeneratorExp)):
            return False
        todo.extend(ast.iter_child_nodes(n))
    return True


def _unroll_one(loop: ast.For, seq):
    if loop.orelse or _top_level_jumps(loop.body):
        return None
    tg = loop.target
    if isinstance(tg, ast.Name):
        names = [tg.id]
    elif isinstance(tg, (ast.Tuple, ast.List)) and all(isinstance(e, ast.Name) for e in tg.elts):
        names = [e.id for e in tg.elts]
    else:
        return None
    # the loop targets must not be RE-BOUND in the body; mutating the object a target names in place (`c.clear()`, `c[k] = v`)
    # is the same operation on the element expression that replaces the target
    if set(names) & _rebound(loop.body):
        return None
    out = []
    for e in seq.elts:
        if isinstance(tg, ast.Name):
            m = {tg.id: e}
        else:
            if not isinstance(e, (ast.Tuple, ast.List)) or len(e.elts) != len(names) or any(isinstance(x, ast.Starred) for x in e.elts):
                return None
            m = dict(zip(names, e.elts))
        if not all(_pure(v, lambdas=True) for v in m.values()):
            return None
        for st in loop.body:
            out.append(_Subst(dict(m)).visit(copy.deepcopy(st)))
    return out


def _scan_chain(loop: ast.For, seq):
    """table scan  `for T in <literal>: if C(T): S(T); break` [`else: E`]  ->  `if C(e1): S(e1) elif C(e2): S(e2) ... [else: E]`
    (the first matching row wins in both spellings; E runs when no row matched)"""
    if len(loop.body) != 1 or not isinstance(loop.body[0], ast.If) or loop.body[0].orelse:
        return None
    inner = loop.body[0]
    if not inner.body or not isinstance(inner.body[-1], ast.Break):
        return None
    rest = inner.body[:-1]
    if _top_level_jumps(rest):
        return None
    tg = loop.target
    if isinstance(tg, ast.Name):
        names = [tg.id]
    elif isinstance(tg, (ast.Tuple, ast.List)) and all(isinstance(e, ast.Name) for e in tg.elts):
        names = [e.id for e in tg.elts]
    else:
        return None
    if set(names) & _stored(loop.body):
        return None
    # the loop variables must not be read after the loop (they would keep the matching row's values)
    chain = list(loop.orelse)
    for e in reversed(seq.elts):
        if isinstance(tg, ast.Name):
            m = {tg.id: e}
        else:
            if not isinstance(e, (ast.Tuple, ast.List)) or len(e.elts) != len(names) or any(isinstance(x, ast.Starred) for x in e.elts):
                return None
            m = dict(zip(names, e.elts))
        if not all(_pure(v) for v in m.values()):
            return None
        test = _Subst(dict(m)).visit(copy.deepcopy(inner.test))
        body = [_Subst(dict(m)).visit(copy.deepcopy(st)) for st in rest] or [ast.Pass()]
        node = ast.If(test=test, body=body, orelse=chain)
        ast.copy_location(node, inner)
        chain = [node]
    return chain


class _StaticComps(ast.NodeTransformer):
    """Comprehensions / generator arguments over a STATIC sequence (a literal tuple / list, or a name known to be bound to one)
    written out, like unroll_static_loops does for statements:

        all(E(x) for x in (a, b))    ->  E(a) and E(b)                any(..) -> .. or ..
        tuple(E(x) for x in (a, b))  ->  (E(a), E(b))                 list(..) / [E(x) for x in (a, b)] -> [E(a), E(b)]
        sep.join(E(x) for x in (a, b)) -> sep.join([E(a), E(b)])

    (Dict / set comprehensions stay as they are: keying by the elements may merge equal ones, which rules about multiplicity read
    off the comprehension.)  One generator, no filter, plain-name targets, pure element expressions in the sequence.  (all/any yield the same truth value
    and evaluate the same operands in the same order, stopping at the same one.)"""

    def __init__(self, lits):
        self.lits = lits

    def _rows(self, comp):
        """[{target name: element expr}] or None"""
        if len(comp.generators) != 1:
            return None
        g = comp.generators[0]
        if g.ifs or g.is_async:
            return None
        seq = _literal_seq(g.iter) or (self.lits.get(g.iter.id) if isinstance(g.iter, ast.Name) else None)
        if seq is None:
            return None
        tg = g.target
        if isinstance(tg, ast.Name):
            names = None
        elif isinstance(tg, (ast.Tuple, ast.List)) and all(isinstance(e, ast.Name) for e in tg.elts):
            names = [e.id for e in tg.elts]
        else:
            return None
        rows = []
        for e in seq.elts:
            if names is None:
                m = {tg.id: e}
            else:
                if not isinstance(e, (ast.Tuple, ast.List)) or len(e.elts) != len(names) or any(isinstance(x, ast.Starred) for x in e.elts):
                    return None
                m = dict(zip(names, e.elts))
            if not all(_pure(v, lambdas=True) for v in m.values()):
                return None
            rows.append(m)
        return rows

    def _elts(self, comp, *parts):
        rows = self._rows(comp)
        if rows is None:
            return None
        # a name bound inside the element expression (walrus / nested comprehension target) that is also a loop target: refuse
        tnames = set(rows[0]) if rows else set()
        for p_ in parts:
            if any(isinstance(n, ast.NamedExpr) or (isinstance(n, ast.Name) and isinstance(n.ctx, ast.Store) and n.id in tnames) for n in ast.walk(p_)):
                return None
        return [[_Subst(dict(m)).visit(copy.deepcopy(p_)) for p_ in parts] for m in rows]

    def visit_ListComp(self, n):
        self.generic_visit(n)
        el = self._elts(n, n.elt)
        if el is None:
            return n
        return ast.copy_location(ast.List(elts=[e[0] for e in el], ctx=ast.Load()), n)

    def visit_Call(self, n):
        self.generic_visit(n)
        if n.keywords or len(n.args) != 1:
            return n
        a = n.args[0]
        f = n.func
        if isinstance(a, ast.GeneratorExp):
            el = self._elts(a, a.elt)
            elts = None if el is None else [e[0] for e in el]
        elif isinstance(a, ast.List) and not any(isinstance(e, ast.Starred) for e in a.elts):
            elts = list(a.elts)          # a list comprehension already written out
        else:
            return n
        if elts is None or not elts:
            return n
        if isinstance(f, ast.Name) and f.id in ("all", "any"):
            if len(elts) == 1:
                return n
            return ast.copy_location(ast.BoolOp(op=ast.And() if f.id == "all" else ast.Or(), values=elts), n)
        if isinstance(f, ast.Name) and f.id == "tuple":
            return ast.copy_location(ast.Tuple(elts=elts, ctx=ast.Load()), n)
        if isinstance(f, ast.Name) and f.id == "list":
            return ast.copy_location(ast.List(elts=elts, ctx=ast.Load()), n)
        if isinstance(f, ast.Attribute) and f.attr == "join" and isinstance(a, ast.GeneratorExp):
            n.args = [ast.copy_location(ast.List(elts=elts, ctx=ast.Load()), a)]
        return n

    def visit_FunctionDef(self, n):
        return n            # nested functions are normalised on their own

    visit_AsyncFunctionDef = visit_ClassDef = visit_FunctionDef


def _static_comps(st, lits):
    """the expressions evaluated by statement `st` itself (not those of the statements nested in it), comprehensions over static
    sequences written out"""
    tr = _StaticComps(lits)
    if isinstance(st, (ast.FunctionDef, ast.AsyncFunctionDef, ast.ClassDef)):
        return st
    nested = {"body", "orelse", "finalbody", "handlers"}
    for fld, val in ast.iter_fields(st):
        if fld in nested:
            continue
        if isinstance(val, ast.AST):
            setattr(st, fld, tr.visit(val))
        elif isinstance(val, list):
            setattr(st, fld, [tr.visit(v) if isinstance(v, ast.AST) else v for v in val])
    return st


def _unroll_block(stmts, lits):
    """lits: name -> literal sequence node still valid at this point"""
    out = []
    lits = dict(lits)
    for st in stmts:
        st = _static_comps(st, lits)
        if isinstance(st, ast.For):
            seq = _literal_seq(st.iter) or (lits.get(st.iter.id) if isinstance(st.iter, ast.Name) else None)
            if seq is not None:
                body_st = _stored(st.body)
                free = set().union(*[_loaded(e) for e in seq.elts]) if seq.elts else set()
                if not (free & body_st) and not (isinstance(st.iter, ast.Name) and st.iter.id in body_st):
                    after = stmts[stmts.index(st) + 1:]
                    tnames = {n.id for n in ast.walk(st.target) if isinstance(n, ast.Name)}
                    un = _scan_chain(st, seq) if not (tnames & set().union(*[_loaded(a) for a in after], set())) else None
                    if un is None:
                        un = _unroll_one(st, seq)
                    if un is not None:
                        un = _unroll_block(un, lits)
                        for u in un:
                            ast.fix_missing_locations(u)
                        out.extend(un)
                        continue
        # recurse into compound statements with the literals that survive the whole statement
        inner_st = _stored([st])
        surviving = {k: v for k, v in lits.items() if k not in inner_st and not (set().union(*[_loaded(e) for e in v.elts]) & inner_st)}
        for fld in ("body", "orelse", "finalbody"):
            b = getattr(st, fld, None)
            if isinstance(b, list) and b and isinstance(b[0], ast.stmt) and not isinstance(st, (ast.FunctionDef, ast.ClassDef, ast.AsyncFunctionDef)):
                setattr(st, fld, _unroll_block(b, surviving))
        if isinstance(st, ast.Try):
            for h in st.handlers:
                h.body = _unroll_block(h.body, surviving)
        # update the table
        for k in list(lits):
            if k in inner_st or (set().union(*[_loaded(e) for e in lits[k].elts]) & inner_st):
                del lits[k]
        if isinstance(st, ast.Assign) and len(st.targets) == 1 and isinstance(st.targets[0], ast.Name):
            seq = _literal_seq(st.value)
            if seq is not None and all(_pure(e, lambdas=True) for e in seq.elts) and st.targets[0].id not in set().union(*[_loaded(e) for e in seq.elts]):
                lits[st.targets[0].id] = seq
        out.append(st)
    return out


def module_tables(mod: ast.Module) -> dict:
    """name -> literal tuple/list bound exactly once at module level, never re-bound (`global`) or mutated anywhere in the
    module, whose elements are pure: usable like a local literal by unroll_static_loops"""
    cand, count = {}, {}
    for st in mod.body:
        for n in ast.walk(st) if not isinstance(st, (ast.FunctionDef, ast.AsyncFunctionDef, ast.ClassDef)) else []:
            if isinstance(n, ast.Name) and isinstance(n.ctx, (ast.Store, ast.Del)):
                count[n.id] = count.get(n.id, 0) + 1
        if isinstance(st, ast.Assign) and len(st.targets) == 1 and isinstance(st.targets[0], ast.Name):
            seq = _literal_seq(st.value)
            if seq is not None and all(_pure(e) for e in seq.elts):
                cand[st.targets[0].id] = seq
    if not cand:
        return {}
    bad = set()
    for n in ast.walk(mod):
        if isinstance(n, (ast.Global, ast.Nonlocal)):
            bad |= set(n.names)
        elif isinstance(n, ast.Call) and isinstance(n.func, ast.Attribute) and isinstance(n.func.value, ast.Name) and n.func.attr in MUTATORS:
            bad.add(n.func.value.id)
        elif isinstance(n, (ast.Assign, ast.AugAssign, ast.Delete)):
            for t in (n.targets if isinstance(n, (ast.Assign, ast.Delete)) else [n.target]):
                if isinstance(t, ast.Subscript) and isinstance(t.value, ast.Name):
                    bad.add(t.value.id)
                if isinstance(n, ast.AugAssign) and isinstance(t, ast.Name):
                    bad.add(t.id)
    return {k: v for k, v in cand.items() if count.get(k, 0) == 1 and k not in bad
            and not (set().union(*[_loaded(e) for e in v.elts]) & set(cand))}


def unroll_static_loops(func, tables: dict | None = None):
    lits = {}
    if tables:
        # a module-level table is visible unless the function binds the name itself (parameter, local, nested def)
        a = func.args
        own = {p.arg for p in a.posonlyargs + a.args + a.kwonlyargs} | ({a.vararg.arg} if a.vararg else set()) | ({a.kwarg.arg} if a.kwarg else set()) \
            | _stored(func.body)
        lits = {k: v for k, v in tables.items() if k not in own and not (set().union(*[_loaded(e) for e in v.elts]) & own)}
    func.body = _unroll_block(func.body, lits)
    return func


# ------------------------------------------------------------------------------------------------------------ call inlining

def _simple_callee(callee) -> str | None:
    """'expr' (body is one return), 'stmts' (straight-line top level, at most one trailing return), or None"""
    if not isinstance(callee, (ast.FunctionDef,)):
        return None
    a = callee.args
    if a.vararg or a.kwarg or a.posonlyargs:
        return None
    for n in ast.walk(callee):
        if isinstance(n, (ast.Yield, ast.YieldFrom, ast.Global, ast.Nonlocal, ast.Await)):
            return None
    body = [s for s in callee.body if not (isinstance(s, ast.Expr) and isinstance(s.value, ast.Constant))]
    if not body:
        return None
    if len(body) == 1 and isinstance(body[0], ast.Return) and body[0].value is not None:
        return "expr"
    for s in body[:-1]:
        if any(isinstance(n, ast.Return) for n in ast.walk(s) if not isinstance(n, (ast.FunctionDef, ast.Lambda))):
            return None
    last = body[-1]
    if not isinstance(last, ast.Return) and any(isinstance(n, ast.Return) for n in ast.walk(last)):
        return None
    return "stmts"


def _bind_args(callee, call, skip_first: bool):
    """param -> argument expression (defaults filled in) or None"""
    if any(isinstance(x, ast.Starred) for x in call.args) or any(k.arg is None for k in call.keywords):
        return None
    params = [p.arg for p in callee.args.args]
    if skip_first:
        if not params:
            return None
        params = params[1:]
    kwonly = [p.arg for p in callee.args.kwonlyargs]
    if len(call.args) > len(params):
        return None
    given = dict(zip(params, call.args))
    for k in call.keywords:
        if k.arg in given or k.arg not in params + kwonly:
            return None
        given[k.arg] = k.value
    defaults = dict(zip(params[len(params) - len(callee.args.defaults):], callee.args.defaults))
    defaults.update({p: d for p, d in zip(kwonly, callee.args.kw_defaults) if d is not None})
    for p in params + kwonly:
        if p not in given:
            if p not in defaults:
                return None
            given[p] = defaults[p]
    return given


def _callee_body(callee):
    return [s for s in callee.body if not (isinstance(s, ast.Expr) and isinstance(s.value, ast.Constant))]


def inline_expr(callee, call, recv=None):
    """expression equal to `call` for an 'expr' callee, or None"""
    decs = {ast.unparse(d) for d in callee.decorator_list}
    if decs - {"staticmethod", "classmethod"}:
        return None
    skip = recv is not None and "staticmethod" not in decs
    given = _bind_args(callee, call, skip)
    if given is None:
        return None
    body = _callee_body(callee)
    m = dict(given)
    if skip:
        m[callee.args.args[0].arg] = recv
    ret = copy.deepcopy(body[0].value)
    # an argument that is not a plain name / constant / attribute chain and is used more than once would be duplicated
    uses = {}
    for n in ast.walk(ret):
        if isinstance(n, ast.Name) and isinstance(n.ctx, ast.Load):
            uses[n.id] = uses.get(n.id, 0) + 1
    for p, e in m.items():
        if uses.get(p, 0) > 1 and not _pure(e):
            return None
    return _Subst(m).visit(ret)


def inline_stmts(callee, call, recv=None):
    """(statements, return expression | None) equal to executing `call`, or None"""
    decs = {ast.unparse(d) for d in callee.decorator_list}
    if decs - {"staticmethod", "classmethod"}:
        return None
    skip = recv is not None and "staticmethod" not in decs
    given = _bind_args(callee, call, skip)
    if given is None:
        return None
    k = next(_counter)
    ren = {}
    pre = []
    if skip:
        if not isinstance(recv, ast.Name):
            return None
        ren[callee.args.args[0].arg] = recv.id
    body = copy.deepcopy(_callee_body(callee))
    # a parameter that the callee only edits IN PLACE (p[i] = .., p.append(..)) is the caller's object under another name: it is
    # renamed to the argument, so that the edits are seen on the caller's variable; only a parameter the callee re-binds needs a
    # local of its own
    stored = {n.id for b in body for n in ast.walk(b) if isinstance(n, ast.Name) and isinstance(n.ctx, (ast.Store, ast.Del))}
    for p, e in given.items():
        if isinstance(e, ast.Name) and p not in stored:
            ren[p] = e.id
        else:
            fresh = f"_inl{k}_{p}"
            ren[p] = fresh
            pre.append(ast.Assign(targets=[ast.Name(id=fresh, ctx=ast.Store())], value=copy.deepcopy(e)))
    locals_ = {n.id for b in body for n in ast.walk(b) if isinstance(n, ast.Name) and isinstance(n.ctx, ast.Store)} - set(ren)
    for l in locals_:
        ren[l] = f"_inl{k}_{l}"
    ret = None
    if body and isinstance(body[-1], ast.Return):
        ret = body[-1].value
        body = body[:-1]
    body = [_Rename(ren).visit(b) for b in body]
    if ret is not None:
        ret = _Rename(ren).visit(ret)
    return pre + body, ret


def inline_stmt_calls(func, resolve, max_depth: int = 3):
    """resolve(call) -> (callee FunctionDef, receiver expr | None) | None.  Whole-statement calls are replaced by the callee's
    statements."""
    def value_of(st):
        if isinstance(st, ast.Expr):
            return st.value
        if isinstance(st, (ast.Assign, ast.AugAssign, ast.Return)):
            return st.value
        if isinstance(st, ast.AnnAssign):
            return st.value
        return None

    def expand(stmts, depth):
        out = []
        for st in stmts:
            for fld in ("body", "orelse", "finalbody"):
                b = getattr(st, fld, None)
                if isinstance(b, list) and b and isinstance(b[0], ast.stmt) and not isinstance(st, (ast.FunctionDef, ast.ClassDef, ast.AsyncFunctionDef)):
                    setattr(st, fld, expand(b, depth))
            if isinstance(st, ast.Try):
                for h in st.handlers:
                    h.body = expand(h.body, depth)
            c = value_of(st)
            if isinstance(c, ast.Call) and depth < max_depth:
                r = resolve(c)
                if r is not None and r[0] is not func:
                    callee, recv = r
                    kind = _simple_callee(callee)
                    if kind == "expr":
                        e = inline_expr(callee, c, recv)
                        if e is not None:
                            st.value = e
                            ast.fix_missing_locations(st)
                            out.extend(expand([st], depth + 1))
                            continue
                    elif kind == "stmts":
                        res = inline_stmts(callee, c, recv)
                        if res is not None:
                            body, ret = res
                            new = list(body)
                            if isinstance(st, ast.Expr):
                                pass          # a value returned and ignored
                            elif ret is None:
                                st.value = ast.Constant(value=None)
                                new.append(st)
                            else:
                                st.value = ret
                                new.append(st)
                            for b in new:
                                ast.copy_location(b, st) if not hasattr(b, "lineno") else None
                                ast.fix_missing_locations(b)
                            out.extend(expand(new, depth + 1))
                            continue
            # a straight-line helper called INSIDE the statement's expression (`return f(g(a))`, `x = "(" + g(a) + ")"`): its
            # statements are hoisted in front of the statement and the call is replaced by the returned expression, provided
            # nothing with a possible effect is evaluated before the call in that expression
            v = value_of(st)
            if v is not None and depth < max_depth and not isinstance(st, ast.AugAssign):
                hit = _first_nested_call(v, lambda c_: (lambda r_: r_ is not None and r_[0] is not func and _simple_callee(r_[0]) == "stmts")(resolve(c_)))
                if hit is not None:
                    callee, recv = resolve(hit)
                    res = inline_stmts(callee, hit, recv)
                    if res is not None and res[1] is not None:
                        body, ret = res
                        st.value = _ReplaceNode(hit, ret).visit(v)
                        new = list(body) + [st]
                        for b in new:
                            ast.copy_location(b, st) if not hasattr(b, "lineno") else None
                            ast.fix_missing_locations(b)
                        out.extend(expand(new, depth + 1))
                        continue
            out.append(st)
        return out
    func.body = expand(func.body, 0)
    return func


class _ReplaceNode(ast.NodeTransformer):
    def __init__(self, old, new):
        self.old, self.new = old, new

    def visit(self, n):
        if n is self.old:
            return self.new
        return self.generic_visit(n)


def _first_nested_call(expr, wanted):
    """the first call (in evaluation order) inside `expr` for which wanted(call) holds, reached only through operands that are
    always evaluated (call arguments, operators, attribute/subscript bases, displays, f-string fields) and with nothing but
    pure sub-expressions evaluated before it; None otherwise"""
    def rec(n):
        """-> (hit | None, pure_so_far)"""
        if isinstance(n, ast.Call) and wanted(n) and n is not expr:
            if all(_pure(a) for a in n.args) and all(_pure(k.value) for k in n.keywords) and _pure(n.func):
                return n, True
            return None, False
        if isinstance(n, (ast.Call, ast.BinOp, ast.UnaryOp, ast.Attribute, ast.Subscript, ast.Tuple, ast.List, ast.Set, ast.JoinedStr, ast.FormattedValue,
                          ast.Starred, ast.keyword, ast.Compare, ast.Slice, ast.Index if hasattr(ast, "Index") else ast.Slice)):
            for ch in ast.iter_child_nodes(n):
                if isinstance(ch, (ast.expr_context, ast.operator, ast.unaryop, ast.cmpop)):
                    continue
                h, pure = rec(ch)
                if h is not None:
                    return h, True
                if not pure:
                    return None, False
            # the node itself: a call evaluated after its operands has an effect for whatever follows
            return None, not isinstance(n, ast.Call)
        return None, _pure(n)
    return rec(expr)[0]


class _ExprInliner(ast.NodeTransformer):
    """calls to 'expr' helpers anywhere inside expressions"""

    def __init__(self, resolve, owner, depth=0):
        self.resolve, self.owner, self.depth = resolve, owner, depth
        self.changed = False

    def visit_Call(self, n):
        self.generic_visit(n)
        r = self.resolve(n)
        if r is not None and r[0] is not self.owner and _simple_callee(r[0]) == "expr" and self.depth < 3:
            e = inline_expr(r[0], n, r[1])
            if e is not None:
                self.changed = True
                e = _ExprInliner(self.resolve, self.owner, self.depth + 1).visit(e)
                return ast.copy_location(e, n)
        return n

    def visit_FunctionDef(self, n):
        return n if n is not self.owner else self.generic_visit(n)

    visit_Lambda = lambda self, n: n


def inline_local_defs(func):
    """nested defs / lambdas bound to a local and used only by direct calls in the same function"""
    defs = {}

    def collect(stmts):
        for st in stmts:
            if isinstance(st, ast.FunctionDef) and not st.decorator_list:
                defs.setdefault(st.name, []).append(st)
            elif isinstance(st, ast.Assign) and len(st.targets) == 1 and isinstance(st.targets[0], ast.Name) and isinstance(st.value, ast.Lambda):
                lam = st.value
                f = ast.FunctionDef(name=st.targets[0].id, args=lam.args, body=[ast.Return(value=lam.body)], decorator_list=[], returns=None, type_comment=None)
                try:
                    f.type_params = []
                except Exception:
                    pass
                ast.copy_location(f, st)
                ast.fix_missing_locations(f)
                defs.setdefault(st.targets[0].id, []).append(f)
            if not isinstance(st, (ast.FunctionDef, ast.ClassDef, ast.AsyncFunctionDef)):
                for fld in ("body", "orelse", "finalbody"):
                    b = getattr(st, fld, None)
                    if isinstance(b, list) and b and isinstance(b[0], ast.stmt):
                        collect(b)
    collect(func.body)
    if not defs:
        return func
    # a name defined once, never re-bound otherwise, whose free variables are not re-bound after the definition (checked
    # coarsely: free variables of the helper that the enclosing function stores at most once)
    store_count = {}
    for n in ast.walk(func):
        if isinstance(n, ast.Name) and isinstance(n.ctx, ast.Store):
            store_count[n.id] = store_count.get(n.id, 0) + 1
    usable = {}
    for name, lst in defs.items():
        if len(lst) != 1:
            continue
        d = lst[0]
        is_lambda = not any(d is st for st in ast.walk(func))
        if store_count.get(name, 0) > (1 if is_lambda else 0):
            continue
        kind = _simple_callee(d)
        if kind is None:
            continue
        params = {a.arg for a in d.args.args + d.args.kwonlyargs}
        own = {n.id for n in ast.walk(d) if isinstance(n, ast.Name) and isinstance(n.ctx, ast.Store)}
        free = {n.id for s in d.body for n in ast.walk(s) if isinstance(n, ast.Name) and isinstance(n.ctx, ast.Load)} - params - own
        if any(store_count.get(v, 0) > 1 for v in free):
            continue
        # used other than by a direct call (passed as a value, returned): keep
        refs = [n for n in ast.walk(func) if isinstance(n, ast.Name) and n.id == name and isinstance(n.ctx, ast.Load)]
        calls = [n for n in ast.walk(func) if isinstance(n, ast.Call) and isinstance(n.func, ast.Name) and n.func.id == name]
        if len(refs) != len(calls):
            continue
        if any(isinstance(n, ast.Call) and isinstance(n.func, ast.Name) and n.func.id == name for n in ast.walk(d)):
            continue          # recursive
        usable[name] = d
    if not usable:
        return func

    def resolve(call):
        if isinstance(call.func, ast.Name) and call.func.id in usable:
            return usable[call.func.id], None
        return None
    inline_stmt_calls(func, resolve)
    inl = _ExprInliner(resolve, func)
    # expression position: every statement's expressions, but not inside the helpers themselves
    new_body = []
    for st in func.body:
        new_body.append(inl.visit(st))
    func.body = new_body
    # drop definitions that are no longer referenced
    still = {n.func.id for n in ast.walk(func) if isinstance(n, ast.Call) and isinstance(n.func, ast.Name) and n.func.id in usable}

    def prune(stmts):
        out = []
        for st in stmts:
            if isinstance(st, ast.FunctionDef) and st.name in usable and st.name not in still:
                continue
            if isinstance(st, ast.Assign) and len(st.targets) == 1 and isinstance(st.targets[0], ast.Name) and isinstance(st.value, ast.Lambda) \
                    and st.targets[0].id in usable and st.targets[0].id not in still:
                continue
            if not isinstance(st, (ast.FunctionDef, ast.ClassDef, ast.AsyncFunctionDef)):
                for fld in ("body", "orelse", "finalbody"):
                    b = getattr(st, fld, None)
                    if isinstance(b, list) and b and isinstance(b[0], ast.stmt):
                        nb = prune(b)
                        setattr(st, fld, nb if nb or fld != "body" else [ast.copy_location(ast.Pass(), st)])
            out.append(st)
        return out
    func.body = prune(func.body) or [ast.Pass()]
    ast.fix_missing_locations(func)
    return func


# ------------------------------------------------------------------------------------------ extracted helpers, whole function

def _helper_calls(node, resolve, owner):
    """calls inside `node` to helpers that inline_stmt_calls could expand (statement helpers: loops, several statements)"""
    out = []
    for n in ast.walk(node):
        if isinstance(n, ast.Call):
            r = resolve(n)
            if r is not None and r[0] is not owner and _simple_callee(r[0]) == "stmts":
                out.append(n)
    return out


def _unfold_comprehension(st, resolve, owner):
    """`X = [E for .. in .. if ..]` whose element calls a statement helper -> `X = []` + the loop nest appending E (the inverse of
    core._Canon's append-loop folding): the helper call becomes a statement that can be expanded in place"""
    if not (isinstance(st, ast.Assign) and len(st.targets) == 1 and isinstance(st.targets[0], ast.Name) and isinstance(st.value, ast.ListComp)):
        return None
    comp = st.value
    if not _helper_calls(comp.elt, resolve, owner) or any(g.is_async for g in comp.generators):
        return None
    x = st.targets[0].id
    if x in _loaded(comp):
        return None
    inner = ast.Expr(value=ast.Call(func=ast.Attribute(value=ast.Name(id=x, ctx=ast.Load()), attr="append", ctx=ast.Load()), args=[comp.elt], keywords=[]))
    body = [inner]
    for g in reversed(comp.generators):
        for c in reversed(g.ifs):
            body = [ast.If(test=c, body=body, orelse=[])]
        body = [ast.For(target=g.target, iter=g.iter, body=body, orelse=[], type_comment=None)]
    init = ast.Assign(targets=[ast.Name(id=x, ctx=ast.Store())], value=ast.List(elts=[], ctx=ast.Load()))
    out = [init] + body
    for b in out:
        ast.copy_location(b, st)
        ast.fix_missing_locations(b)
    return out


def _hoist_helper_arg(st, resolve, owner):
    """`X.append(h(a))` / `f(h(a))` / `x = g(h(a))` with h a statement helper -> `_t = h(a)` + the statement using `_t`; only when
    everything evaluated before the helper call is a plain name / constant (evaluation order is kept)"""
    if not isinstance(st, (ast.Expr, ast.Assign, ast.AugAssign, ast.Return)) or not isinstance(st.value, ast.Call):
        return None
    outer = st.value
    if resolve(outer) is not None and _simple_callee(resolve(outer)[0]) is not None:
        return None                       # the statement's own call is a helper: expanded as it is
    f = outer.func
    if not (isinstance(f, ast.Name) or (isinstance(f, ast.Attribute) and isinstance(f.value, ast.Name))):
        return None
    for i, a in enumerate(outer.args):
        if isinstance(a, ast.Call) and a in _helper_calls(a, resolve, owner)[:1]:
            if not all(_pure(p) for p in outer.args[:i]):
                return None
            t = f"_arg{next(_counter)}"
            pre = ast.Assign(targets=[ast.Name(id=t, ctx=ast.Store())], value=a)
            outer.args[i] = ast.Name(id=t, ctx=ast.Load())
            ast.copy_location(pre, st)
            ast.fix_missing_locations(pre)
            ast.fix_missing_locations(st)
            return [pre, st]
        if not _pure(a):
            return None
    return None


def expand_helpers(func, resolve):
    """A function with the helpers it was split into put back (in place; hand in a copy).  resolve(call) -> (callee FunctionDef,
    receiver expr | None) | None decides which calls are helpers (pymodel.Package.expanded: methods of the same class reached
    through self/cls, functions of the same module).  Statement helpers are expanded where a call is a whole statement, after
    comprehensions / call arguments that contain such a call were turned into statements; one-expression helpers are replaced
    wherever they are called.  Anything that cannot be expanded safely stays a call."""
    def prepare(stmts):
        out = []
        for st in stmts:
            for fld in ("body", "orelse", "finalbody"):
                b = getattr(st, fld, None)
                if isinstance(b, list) and b and isinstance(b[0], ast.stmt) and not isinstance(st, (ast.FunctionDef, ast.ClassDef, ast.AsyncFunctionDef)):
                    setattr(st, fld, prepare(b))
            un = _unfold_comprehension(st, resolve, func)
            if un is not None:
                out.extend(prepare(un))
                continue
            ho = _hoist_helper_arg(st, resolve, func)
            if ho is not None:
                out.extend(ho)
                continue
            out.append(st)
        return out
    func.body = prepare(func.body)
    inline_stmt_calls(func, resolve)
    func.body = [_ExprInliner(resolve, func).visit(st) for st in func.body]
    ast.fix_missing_locations(func)
    return func


class _CallLambda(ast.NodeTransformer):
    """`(lambda: e)()` -> e   (a parameterless lambda called on the spot, e.g. after a table of closures was unrolled)"""

    def visit_Call(self, n):
        self.generic_visit(n)
        f = n.func
        if isinstance(f, ast.Lambda) and not n.args and not n.keywords and not (f.args.args or f.args.posonlyargs or f.args.kwonlyargs or f.args.vararg or f.args.kwarg):
            return ast.copy_location(f.body, n)
        return n


def _drop_dead_tables(func):
    """`name = <literal tuple/list of pure elements>` whose name is never read (any more, after its loop was unrolled): the
    binding has no effect, and its elements (e.g. references to local helpers) would otherwise count as uses"""
    read = {n.id for n in ast.walk(func) if isinstance(n, ast.Name) and isinstance(n.ctx, (ast.Load, ast.Del))}
    if any(isinstance(n, ast.Name) and n.id in ("locals", "vars", "eval", "exec") for n in ast.walk(func)):
        return func

    def prune(stmts):
        out = []
        for st in stmts:
            if isinstance(st, ast.Assign) and len(st.targets) == 1 and isinstance(st.targets[0], ast.Name) and st.targets[0].id not in read:
                seq = _literal_seq(st.value)
                if seq is not None and all(_pure(e, lambdas=True) for e in seq.elts):
                    continue
            if not isinstance(st, (ast.FunctionDef, ast.ClassDef, ast.AsyncFunctionDef)):
                for fld in ("body", "orelse", "finalbody"):
                    b = getattr(st, fld, None)
                    if isinstance(b, list) and b and isinstance(b[0], ast.stmt):
                        nb = prune(b)
                        setattr(st, fld, nb if nb or fld != "body" else [ast.copy_location(ast.Pass(), st)])
            out.append(st)
        return out
    func.body = prune(func.body) or [ast.Pass()]
    return func


class _ConstGetattr(ast.NodeTransformer):
    """`getattr(x, "name")` (two arguments, literal identifier) is the attribute access `x.name`"""

    def visit_Call(self, n):
        self.generic_visit(n)
        if isinstance(n.func, ast.Name) and n.func.id == "getattr" and len(n.args) == 2 and not n.keywords \
                and isinstance(n.args[1], ast.Constant) and isinstance(n.args[1].value, str) and n.args[1].value.isidentifier():
            return ast.copy_location(ast.Attribute(value=n.args[0], attr=n.args[1].value, ctx=ast.Load()), n)
        return n


def const_getattr(node):
    return ast.fix_missing_locations(_ConstGetattr().visit(node))


# ------------------------------------------------------------------------------------------------ class-level constants

_ENUM_BASES = ("Enum", "IntEnum", "Flag", "IntFlag", "StrEnum", "NamedTuple", "TypedDict", "Protocol")


def _const_value(node):
    """an immutable literal: a constant or a (nested) tuple of such.  (List / set / dict displays are objects that can be aliased and
    edited, and rules name the package's long-standing tables by their attribute: they stay attribute reads.)"""
    if isinstance(node, ast.Constant) and not isinstance(node.value, (bytes, type(Ellipsis))):
        return True
    if isinstance(node, ast.UnaryOp) and isinstance(node.op, ast.USub) and isinstance(node.operand, ast.Constant) and isinstance(node.operand.value, (int, float)):
        return True
    if isinstance(node, ast.Tuple):
        return 1 <= len(node.elts) <= 24 and all(_const_value(e) for e in node.elts)
    if isinstance(node, ast.Call) and ast.unparse(node.func) in _CONST_CTORS and not node.keywords and node.args and all(isinstance(a, ast.Constant) for a in node.args):
        return True          # a pattern compiled from constants: an immutable value, the same wherever the expression is written
    return False


def class_constants(modules) -> dict:
    """{attribute name: literal node} for the class-level CONSTANTS of a package (`modules`: iterable of parsed modules, raw or
    normalised).  A constant is a name bound exactly once in the whole package as a class attribute -- to an immutable literal
    (constant, tuple of constants) -- and that is nowhere else
    bound at class or module level (no override in a subclass, no method / module global of that name), never stored through an
    attribute (`x.NAME = ..`, `x.NAME += ..`, `del x.NAME`, `x.NAME[i] = ..`, `x.NAME.append(..)`), never the literal name of a
    setattr / delattr, in a package without `setattr` on computed names in the defining module.  Under these conditions every read
    `<anything>.NAME` that succeeds yields the literal.  Enum / NamedTuple / dataclass bodies are not constants tables."""
    bound, touched, cand = {}, set(), {}
    for mod in modules:
        strings = None
        for n in ast.walk(mod):
            if isinstance(n, (ast.ClassDef, ast.Module)):
                is_cls = isinstance(n, ast.ClassDef)
                special = is_cls and (any(ast.unparse(b).split(".")[-1] in _ENUM_BASES for b in n.bases) or any("dataclass" in ast.unparse(d) for d in n.decorator_list))
                for st in n.body:
                    names = []
                    if isinstance(st, ast.Assign):
                        names = [x.id for t in st.targets for x in ast.walk(t) if isinstance(x, ast.Name)]
                    elif isinstance(st, (ast.AnnAssign, ast.AugAssign)):
                        names = [x.id for x in ast.walk(st.target) if isinstance(x, ast.Name)]
                    elif isinstance(st, (ast.FunctionDef, ast.AsyncFunctionDef, ast.ClassDef)):
                        names = [st.name]
                    elif isinstance(st, (ast.Import, ast.ImportFrom)):
                        names = [(a.asname or a.name).split(".")[0] for a in st.names]
                    elif not isinstance(st, (ast.Expr, ast.Pass)):
                        # a conditional / loop / try at class or module level: whatever it binds is not a constant
                        names = [x.id for x in ast.walk(st) if isinstance(x, ast.Name) and isinstance(x.ctx, ast.Store)] + \
                                [x.name for x in ast.walk(st) if isinstance(x, (ast.FunctionDef, ast.ClassDef))]
                        touched.update(names)
                    for nm in names:
                        bound[nm] = bound.get(nm, 0) + 1
                    if is_cls and not special and isinstance(st, (ast.Assign, ast.AnnAssign)) and st.value is not None and len(names) == 1:
                        tg = st.targets[0] if isinstance(st, ast.Assign) and len(st.targets) == 1 else st.target if isinstance(st, ast.AnnAssign) else None
                        v = st.value
                        if isinstance(v, ast.Call) and isinstance(v.func, ast.Name) and v.func.id == "tuple" and len(v.args) == 1 and not v.keywords \
                                and isinstance(v.args[0], (ast.Tuple, ast.List)):
                            v = ast.copy_location(ast.Tuple(elts=v.args[0].elts, ctx=ast.Load()), v)
                        if isinstance(tg, ast.Name) and _const_value(v):
                            cand[names[0]] = v
                    elif is_cls and special:
                        touched.update(names)
            elif isinstance(n, ast.Attribute) and isinstance(n.ctx, (ast.Store, ast.Del)):
                touched.add(n.attr)
            elif isinstance(n, ast.Subscript) and isinstance(n.ctx, (ast.Store, ast.Del)) and isinstance(n.value, ast.Attribute):
                touched.add(n.value.attr)
            elif isinstance(n, ast.Call) and isinstance(n.func, ast.Attribute) and isinstance(n.func.value, ast.Attribute) and n.func.attr in MUTATORS:
                touched.add(n.func.value.attr)
            elif isinstance(n, ast.Call) and isinstance(n.func, ast.Name) and n.func.id in ("setattr", "delattr") and len(n.args) >= 2:
                if isinstance(n.args[1], ast.Constant):
                    touched.add(n.args[1].value)
                else:
                    # a computed attribute name: any identifier spelled as a string in this module may be meant
                    if strings is None:
                        strings = {c.value for c in ast.walk(mod) if isinstance(c, ast.Constant) and isinstance(c.value, str) and c.value.isidentifier()}
                    touched |= strings
            elif isinstance(n, ast.Global):
                touched.update(n.names)
    return {k: v for k, v in cand.items() if bound.get(k, 0) == 1 and k not in touched}


class _ClassConsts(ast.NodeTransformer):
    """reads `<name>.NAME` of a class-level constant -> the literal"""

    def __init__(self, consts):
        self.consts = consts

    def visit_Attribute(self, n):
        if isinstance(n.ctx, ast.Load) and isinstance(n.value, ast.Name) and n.attr in self.consts:
            return ast.copy_location(copy.deepcopy(self.consts[n.attr]), n)
        return self.generic_visit(n)


def module_constants(mod: ast.Module) -> dict:
    """{name: literal} for names bound exactly once at module level (and by nothing else at module level: def, class, import,
    loop) to an immutable literal (_const_value), never declared `global` in a function"""
    count, cand = {}, {}
    for st in mod.body:
        if isinstance(st, (ast.FunctionDef, ast.AsyncFunctionDef, ast.ClassDef)):
            count[st.name] = count.get(st.name, 0) + 1
            continue
        for n in ast.walk(st):
            if isinstance(n, ast.Name) and isinstance(n.ctx, (ast.Store, ast.Del)):
                count[n.id] = count.get(n.id, 0) + 1
            elif isinstance(n, ast.alias):
                nm = (n.asname or n.name).split(".")[0]
                count[nm] = count.get(nm, 0) + 1
        tg = st.targets[0] if isinstance(st, ast.Assign) and len(st.targets) == 1 else st.target if isinstance(st, ast.AnnAssign) and st.value is not None else None
        if isinstance(tg, ast.Name) and _const_value(st.value):
            cand[tg.id] = st.value
    if not cand:
        return {}
    glob = {nm for n in ast.walk(mod) if isinstance(n, (ast.Global, ast.Nonlocal)) for nm in n.names}
    return {k: v for k, v in cand.items() if count.get(k, 0) == 1 and k not in glob}


class _ModuleConsts(ast.NodeTransformer):
    """reads of a module-level constant inside the functions of the module -> the literal, unless the name is bound in the function
    (or in a function enclosing it): parameter, assignment, loop / comprehension / with / except target, nested def, import"""

    def __init__(self, consts):
        self.consts = consts
        self.scopes = []

    @staticmethod
    def _locals(fn):
        a = fn.args
        out = {p.arg for p in a.posonlyargs + a.args + a.kwonlyargs} | ({a.vararg.arg} if a.vararg else set()) | ({a.kwarg.arg} if a.kwarg else set())
        body = fn.body if isinstance(fn.body, list) else [fn.body]
        for st in body:
            for n in ast.walk(st):
                if isinstance(n, ast.Name) and isinstance(n.ctx, (ast.Store, ast.Del)):
                    out.add(n.id)
                elif isinstance(n, (ast.FunctionDef, ast.AsyncFunctionDef, ast.ClassDef)):
                    out.add(n.name)
                elif isinstance(n, ast.alias):
                    out.add((n.asname or n.name).split(".")[0])
                elif isinstance(n, ast.ExceptHandler) and n.name:
                    out.add(n.name)
        return out

    def _scoped(self, n):
        self.scopes.append(self._locals(n))
        try:
            return self.generic_visit(n)
        finally:
            self.scopes.pop()

    visit_FunctionDef = visit_AsyncFunctionDef = visit_Lambda = _scoped

    def visit_Name(self, n):
        if self.scopes and isinstance(n.ctx, ast.Load) and n.id in self.consts and not any(n.id in sc for sc in self.scopes):
            return ast.copy_location(copy.deepcopy(self.consts[n.id]), n)
        return n


class _PatternCalls(ast.NodeTransformer):
    """`re.compile(P).m(args)` is `re.m(P, args)` for the scanning methods, called with the arguments the module-level function
    takes too (no pos / endpos): one spelling of a regular-expression scan, whether or not the pattern was compiled first"""
    NARGS = {"sub": (2, 3), "subn": (2, 3), "split": (1, 2), "findall": (1, 1), "finditer": (1, 1), "search": (1, 1), "match": (1, 1), "fullmatch": (1, 1)}

    def visit_Call(self, n):
        self.generic_visit(n)
        f = n.func
        if isinstance(f, ast.Attribute) and f.attr in self.NARGS and isinstance(f.value, ast.Call) and ast.unparse(f.value.func) == "re.compile" \
                and len(f.value.args) == 1 and not f.value.keywords and not n.keywords and not any(isinstance(a, ast.Starred) for a in n.args + f.value.args):
            lo, hi = self.NARGS[f.attr]
            if lo <= len(n.args) <= hi:
                return ast.copy_location(ast.Call(func=ast.copy_location(ast.Attribute(value=f.value.func.value, attr=f.attr, ctx=ast.Load()), f),
                                                  args=[f.value.args[0]] + list(n.args), keywords=[]), n)
        return n


def inline_class_constants(mod, consts: dict):
    """every read of a class-level constant of the package (class_constants) and, inside functions, of a module-level constant
    (module_constants) replaced by its literal; scans through a pattern compiled on the spot in their module-function spelling"""
    if consts:
        mod = _ClassConsts(consts).visit(mod)
    mc = module_constants(mod)
    if mc:
        mod = _ModuleConsts(mc).visit(mod)
    mod = _PatternCalls().visit(mod)
    return ast.fix_missing_locations(mod)


# ----------------------------------------------------------------------------------------------------- closure dispatch

def specialise_dispatch(func):
    """Closure dispatch

        if c1:                          if c1:
            def f(..): return e1            S[f := f_1]      (f_1 = the first arm's f)
        elif c2:                 ->     elif c2:
            def f(..): return e2            S[f := f_2]
        else:                           else:
            raise ..                        raise ..
        S   (statements using f)

    is the if/elif chain of specialised statements it abbreviates: the statements up to the last use of `f` are moved into every arm
    that defines `f` (tail duplication -- arms that leave the block do not reach them anyway), each arm's `f` under a name of its own,
    which inline_local_defs then substitutes.  Applied only when every arm either leaves the block or consists of nothing but the
    definition of the one name, and that name is used nowhere else in the function."""
    def arms_of(st):
        out = []
        while True:
            out.append(st.body)
            if len(st.orelse) == 1 and isinstance(st.orelse[0], ast.If):
                st = st.orelse[0]
                continue
            out.append(st.orelse)          # [] when there is no else
            return out

    def leaves(body):
        return bool(body) and isinstance(body[-1], (ast.Raise, ast.Return))

    def only_def(body):
        body = [b for b in body if not isinstance(b, ast.Pass) and not (isinstance(b, ast.Expr) and isinstance(b.value, ast.Constant))]
        if len(body) == 1 and isinstance(body[0], ast.FunctionDef) and not body[0].decorator_list:
            return body[0]
        return None

    def uses(node, name):
        return [n for n in ast.walk(node) if isinstance(n, ast.Name) and n.id == name]

    def block(stmts):
        i = 0
        while i < len(stmts):
            st = stmts[i]
            if isinstance(st, ast.If):
                arms = arms_of(st)
                defs = [only_def(a) for a in arms]
                names = {d.name for d in defs if d is not None}
                if len(names) == 1 and sum(d is not None for d in defs) >= 2 and all(d is not None or leaves(a) for d, a in zip(defs, arms)):
                    (name,) = names
                    last = max((j for j in range(i + 1, len(stmts)) if uses(stmts[j], name)), default=None)
                    inside = sum(len(uses(stmts[j], name)) for j in range(i + 1, (last or i) + 1))
                    everywhere = len(uses(func, name))
                    stores = [n for n in uses(func, name) if isinstance(n.ctx, (ast.Store, ast.Del))]
                    redefs = [n for n in ast.walk(func) if isinstance(n, (ast.FunctionDef, ast.ClassDef)) and n.name == name and not any(n is d for d in defs)]
                    if last is not None and last - i <= 6 and inside == everywhere and not stores and not redefs \
                            and not any(isinstance(n, (ast.FunctionDef, ast.ClassDef, ast.Lambda)) for j in range(i + 1, last + 1) for n in ast.walk(stmts[j])):
                        tail = stmts[i + 1:last + 1]
                        for d, a in zip(defs, arms):
                            if d is None:
                                continue
                            new = f"{name}__arm{next(_counter)}"
                            d.name = new
                            a.extend(_Rename({name: new}).visit(copy.deepcopy(t)) for t in tail)
                        del stmts[i + 1:last + 1]
            for fld in ("body", "orelse", "finalbody"):
                b = getattr(st, fld, None)
                if isinstance(b, list) and b and isinstance(b[0], ast.stmt) and not isinstance(st, (ast.FunctionDef, ast.ClassDef, ast.AsyncFunctionDef)):
                    block(b)
            if isinstance(st, ast.Try):
                for h in st.handlers:
                    block(h.body)
            i += 1
    block(func.body)
    return func


# ------------------------------------------------------------------------------------------- index loops -> enumerate

class _IndexLoops(ast.NodeTransformer):
    """`for i in range(len(X)): .. X[i] ..`  ->  `for i, x in enumerate(X): .. x ..`  when X is a plain name / attribute chain that the
    body neither re-binds nor mutates and `i` is not re-bound: the loop visits the same elements in the same order.  A leading
    `x = X[i]` supplies the element's name."""

    def visit_For(self, n):
        self.generic_visit(n)
        it = n.iter
        if n.orelse or not isinstance(n.target, ast.Name) or not (isinstance(it, ast.Call) and isinstance(it.func, ast.Name) and it.func.id == "range"
                                                                  and len(it.args) == 1 and not it.keywords):
            return n
        ln = it.args[0]
        if not (isinstance(ln, ast.Call) and isinstance(ln.func, ast.Name) and ln.func.id == "len" and len(ln.args) == 1 and not ln.keywords):
            return n
        X = ln.args[0]
        b = X
        while isinstance(b, ast.Attribute):
            b = b.value
        if not isinstance(b, ast.Name) or not _pure(X):
            return n
        i = n.target.id
        xs = ast.unparse(X)
        stored = _stored(n.body)
        if i in stored or b.id in stored:
            return n

        def is_elem(e):
            return isinstance(e, ast.Subscript) and isinstance(e.ctx, ast.Load) and ast.unparse(e.value) == xs \
                and isinstance(e.slice, ast.Name) and e.slice.id == i
        body = list(n.body)
        first = body[0] if body else None
        if isinstance(first, ast.Assign) and len(first.targets) == 1 and isinstance(first.targets[0], ast.Name) and is_elem(first.value) \
                and first.targets[0].id not in _stored(body[1:]) and first.targets[0].id != i:
            name = first.targets[0].id
            body = body[1:] or [ast.copy_location(ast.Pass(), first)]
        elif any(is_elem(e) for st in body for e in ast.walk(st)):
            name = f"_elem{next(_counter)}"
        else:
            return n

        class R(ast.NodeTransformer):
            def visit_Subscript(self, e):
                if is_elem(e):
                    return ast.copy_location(ast.Name(id=name, ctx=ast.Load()), e)
                return self.generic_visit(e)
        n.body = [R().visit(st) for st in body]
        n.target = ast.copy_location(ast.Tuple(elts=[ast.Name(id=i, ctx=ast.Store()), ast.Name(id=name, ctx=ast.Store())], ctx=ast.Store()), n.target)
        n.iter = ast.copy_location(ast.Call(func=ast.Name(id="enumerate", ctx=ast.Load()), args=[X], keywords=[]), it)
        ast.fix_missing_locations(n)
        return n

    def visit_FunctionDef(self, n):
        return n            # nested functions are normalised on their own

    visit_Lambda = visit_AsyncFunctionDef = visit_ClassDef = lambda self, n: n


def index_loops_to_enumerate(func):
    tr = _IndexLoops()
    func.body = [tr.visit(st) for st in func.body]
    return func


def normalize_function(func, tables: dict | None = None):
    """the local normalisations (no knowledge of other functions needed); `tables`: module-level literal tables (module_tables)"""
    try:
        specialise_dispatch(func)
        inline_local_defs(func)
        index_loops_to_enumerate(func)
        before = len(list(ast.walk(func)))
        unroll_static_loops(func, tables)
        const_getattr(func)          # after unrolling: the name may come from a row of the unrolled table
        if len(list(ast.walk(func))) != before:
            # unrolling a table of closures / helper references turns them into direct calls: a second round inlines those
            _drop_dead_tables(func)
            func.body = [_CallLambda().visit(st) for st in func.body]
            inline_local_defs(func)
            ast.fix_missing_locations(func)
    except RecursionError:
        pass
    return func
